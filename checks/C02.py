"""C02 — only the owning LockId releases; re-entrant depth exact (DESIGN.md section 5 C02)."""
from checks import _engine

MANIFEST = dict(
    technique="Coq proof over the executable engine model (induction over action lists / invariants) + differential correspondence check model vs real LockDB",
    text='Theorems in coq/Properties/C02*.v (refusal leaves the state unchanged; depth arithmetic of unlock / re-lock; consequences of the reachability invariant) are machine-checked over the engine model for all states / core histories; tie = differential correspondence on seeded histories biased to few LockIds, Rcount in {0,1,2,3,254,255}, unlocks of queued / expired / never-existing LockIds, unlock-first and cancel-wait; monitor = ownership + depth arithmetic evaluated on implementation snapshots.',
    note="Trusted: Coq kernel; hand-written model validated by the correspondence check of the same run; extraction (ExtrOcamlBasic only); harness + hooks; sequential schedules at request/sweep granularity, one shard, manual clock (sweeper driver loops replayed by the harness); see evidence trusted_base for the full list of modelled-not-verified parts.",
)
PROFILES = [('reentrant', 0.45), ('core', 0.25), ('waiters', 0.15), ('count', 0.1), ('many', 0.02)]
MONITORS = ['C02', 'PANIC']


def run(ctx):
    if getattr(ctx, "replay", None):
        return _engine.replay(ctx, 'C02', MONITORS)
    return _engine.run_engine_check(ctx, 'C02', PROFILES, MONITORS, n_quick=500, n_thorough=20000)
