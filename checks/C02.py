"""C02 — only the owning LockId releases; re-entrant depth exact (DESIGN.md section 5 C02)."""
from checks import _engine

MANIFEST = dict(
    technique="Coq proof over the executable engine model (induction over action lists / invariants) + differential correspondence check model vs real LockDB",
    text='Theorems in coq/Properties/C02*.v (refusal leaves the state unchanged; who is found by a LockId lookup in every reachable state; depth arithmetic of one-level unlock, full release and re-lock with their exact conditions, any state and reachable states; every other hold keeps its depth) are machine-checked over the engine model for all states / core histories; tie = differential correspondence on seeded histories biased to few LockIds, Rcount in {0,1,2,3,254,255}, unlocks of queued / expired / never-existing LockIds, unlock-first and cancel-wait; monitor = ownership + depth arithmetic evaluated on implementation snapshots.',
    note="Trusted: Coq kernel; hand-written model validated by the correspondence check of the same run; extraction (ExtrOcamlBasic only); harness + hooks; sequential schedules at request/sweep granularity, one shard, manual clock (sweeper driver loops replayed by the harness); see evidence trusted_base for the full list of modelled-not-verified parts.",
)
PROFILES = [("reentrant", 0.4), ("core", 0.2), ("waiters", 0.12), ("count", 0.08), ("sched", 0.1), ("sched2", 0.08), ("many", 0.02)]
MONITORS = ['C02', 'PANIC']


def deep_reentrancy(rng, cid0):
    """re-entrant depth up to the 0xff ceiling (Rcount 0xff) and back: the 256th lock must be refused, unlock-all
    must release every level, one-level unlocks must need as many unlocks as locks"""
    cases = []
    for j, (rc_unlock, n) in enumerate([(0, 258), (1, 257)]):
        key = 41 + j
        lines = ["case %d 1000000 1 1" % (cid0 + j)]
        rid = 700000 + 2000 * j
        for i in range(n):
            lines.append("req 1 L %d 0 8001 %d 0 0 0 600 %d 255 -" % (rid, key, rng.choice([0, 3]))); rid += 1
        lines.append("req 2 L %d 0 8002 %d 0 0 0 600 3 0 -" % (rid, key)); rid += 1
        for i in range(3 if rc_unlock == 0 else 258):
            lines.append("req 1 U %d 0 8001 %d 0 0 0 0 0 %d -" % (rid, key, rc_unlock)); rid += 1
        lines.append("req 2 L %d 0 8002 %d 0 0 0 600 0 0 -" % (rid, key)); rid += 1
        lines += ["adv 0", "role 1"]
        for i in range(4):
            lines.append("req 1 U %d 1 0 %d 0 0 0 0 0 0 -" % (rid, key)); rid += 1
        lines += ["adv 1", "sweept", "sweepe", "adv 700", "sweept", "sweepe"] + ["adv 1", "sweept", "sweepe"] * 12
        lines.append("end")
        cases.append(lines)
    # more than 193 simultaneous holders: the holder list switches to the map-indexed queue; release a holder in
    # the middle of the map part, then try to release it again (must be refused), then the others
    key = 47
    lines = ["case %d 1000000 1 0" % (cid0 + 2)]
    rid = 760000
    n = rng.choice([200, 230])
    for i in range(n):
        lines.append("req 1 L %d 0 %d %d 0 0 0 600 65535 0 -" % (rid, 9100 + i, key)); rid += 1
    for lid in (9100 + n - 30, 9100 + n - 30, 9100 + 3, 9100 + 3, 9100 + n - 1, 9100 + n - 1, 9100 + n - 31):
        lines.append("req 2 U %d 0 %d %d 0 0 0 0 0 0 -" % (rid, lid, key)); rid += 1
    lines += ["adv 0", "role 1"]
    for i in range(n + 4):
        lines.append("req 1 U %d 1 0 %d 0 0 0 0 0 0 -" % (rid, key)); rid += 1
    lines += ["adv 1", "sweept", "sweepe", "adv 700", "sweept", "sweepe"] + ["adv 1", "sweept", "sweepe"] * 12
    lines.append("end")
    cases.append(lines)
    # far more holders than the inline array takes, released OLDEST FIRST so that every holder of the map-indexed part
    # is promoted to the head hold before it leaves; every release is followed by a second UNLOCK of the same LockId
    # (must be refused, must not take a slot off the count), the last holders must still be able to release
    key = 48
    lines = ["case %d 1000000 1 0" % (cid0 + 3)]
    rid = 770000
    n = rng.choice([300, 600])
    for i in range(n):
        lines.append("req 1 L %d 0 %d %d 0 0 0 600 65535 0 -" % (rid, 12000 + i, key)); rid += 1
    for i in range(n - 4):
        lines.append("req 1 U %d 0 %d %d 0 0 0 0 0 0 -" % (rid, 12000 + i, key)); rid += 1
        lines.append("req 2 U %d 0 %d %d 0 0 0 0 0 0 -" % (rid, 12000 + i, key)); rid += 1
    for i in range(n - 4, n):
        lines.append("req 1 U %d 0 %d %d 0 0 0 0 0 0 -" % (rid, 12000 + i, key)); rid += 1
    lines.append("req 2 L %d 0 12999 %d 0 0 0 600 0 0 -" % (rid, key)); rid += 1
    lines += ["adv 0", "role 1"]
    for i in range(3):
        lines.append("req 1 U %d 1 0 %d 0 0 0 0 0 0 -" % (rid, key)); rid += 1
    lines += ["adv 1", "sweept", "sweepe", "adv 700", "sweept", "sweepe"] + ["adv 1", "sweept", "sweepe"] * 12
    lines.append("end")
    cases.append(lines)
    return cases


def run(ctx):
    if getattr(ctx, "replay", None):
        return _engine.replay(ctx, 'C02', MONITORS)
    return _engine.run_engine_check(ctx, 'C02', PROFILES, MONITORS, n_quick=500, n_thorough=20000, extra_cases=deep_reentrancy)
