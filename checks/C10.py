"""C10 — only the leader decides (DESIGN.md section 5 C10)."""
from checks import _engine, C10_proc

MANIFEST = dict(
    technique="Coq proof over the executable engine model (non-leader refusal, state unchanged; follower re-arm) and over the forwarding relay model (exactly-once, in-order, unshifted relay of the leader's replies) + differential correspondence with role changes + process-level leader/follower comparison through a logging proxy",
    text="Theorems in coq/Properties/C10*.v, for every state with status <> LEADER and every client request without the from-AOF flag: the only event is a refusal reply to the requester (STATE_ERROR; TIMEOUT for the concurrent-check probe; an UNLOCK on a key without manager is answered UNLOCK_ERROR and counted in UnlockErrorCount), no hold, queue, value or timer changes (an unreferenced empty key manager may be reclaimed); a persisted hold on a non-leader is re-armed (+30 s) instead of being ended while within 300 s of its deadline. Tie = differential correspondence on seeded histories with role changes between requests and from-AOF (replicated) requests applied while follower, comparing replies and full snapshots; monitor = the same statement on implementation traces. The forwarding path (transparency.go) is modelled as a relay (coq/Forward/Relay.v): every forwarded text command is answered exactly once, in order, with its own result or its own roll-back, the link reader never blocks, a dropped link releases the client; binary forwarding is compared byte-for-byte with the leader's frames at process level (sub-check C10_proc: real leader + follower behind a frame-logging proxy, link cuts, promotion / demotion between two requests).",
    note="Trusted: Coq kernel; model validated by the correspondence check; role is switched by the harness under the shard mutex as updateState does. Forwarding and relay (TransparencyBinary/TextServerProtocol) are decided by the sub-check checks/C10_proc.py: relay model coq/Forward/Relay.v (theorems coq/Properties/C10_proc.v) tied observationally to real leader + follower processes behind a frame-logging proxy; not covered: vote / config states at process level, leader->follower switch with forwarding on an already open connection (needs the arbiter). Known findings in known_findings/C10_proc.json.",
)
PROFILES = [("role", 0.75), ("schedrole", 0.25)]
MONITORS = ["C10", "PANIC"]


def run(ctx):
    if getattr(ctx, "replay", None):
        return _engine.replay(ctx, "C10", MONITORS)
    return _engine.run_engine_check(ctx, "C10", PROFILES, MONITORS, n_quick=500, n_thorough=20000,
                                    subs=[("C10_proc", C10_proc)])
