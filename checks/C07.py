"""C07 — restart recovers exactly the persisted, still-live holds (DESIGN.md section 5 C07).

Obligations : coq/Properties/C07.v (theorems over coq/Restart/Recover.v = load filter + HandleLoad replayed through the
              lock-engine model of coq/Engine).
Tie         : every seeded history (lock / re-lock / update / unlock / expiry / timeout / value frames, persist-immediately,
              never-persist, default-delay and percent flags, 1..3 databases) is executed
                (1) by `restarth hist`: a FULL in-process node (slock.Init -> LoadAndInit, real AofChannel goroutines, real
                    AofFile with the configured buffer size, small rewrite threshold => several append files + rewrite
                    file) on a scratch data directory with manual DB clocks; census of holds at the quiescent stop point;
                (2) by `restarth restart` in a FRESH process on a copy of that directory: census after the load;
                (3) by the extracted model ocaml/restart/modelrun: engine model on the history -> record stream ->
                    `recover_at` -> census.
              The three censuses are compared: model == Go before the stop (all fields incl. isAof/aofTime), model == Go
              after the restart (all fields incl. exact deadline).
Monitor     : the property statement evaluated on the Go observations only (see `monitor`).
Two restarts: a history may contain a line `restart <outage2>`: the actions after it (phase 2: unlocks and re-locks of restored
              holds, new locks, small clock advances) run on the RESTARTED node (`restarth restart <dir> ... <casefile>`), which
              is stopped at a quiescent point again and restarted a second time in a fresh process (not before the real clock
              has passed the DB clock of the second stop + outage2: the wall clock cannot be faked).  Model: `recover_at` of the
              records found on disk -> engine model (leader) on phase 2, records appended to the kept ones -> `recover_at`.
              Compared: phase-2 replies, census at the second stop, record stream vs disk, census after the second restart;
              the monitor is evaluated on (second stop, second restart) as well.  Theorems: coq/Properties/C07_twice.v.
Clocks      : LoadAofFiles filters against the wall clock, the engine uses db.currentTime.  The history runs on manual DB
              clocks started at T0 = real now - sum(adv) - outage, so the restarted process (real clock for both) sees an
              outage of `outage` (+ process start-up) seconds; wall clock and DB clocks of the restarted process are printed
              and handed to the model (two time parameters, as in the code).
"""
import collections, concurrent.futures, glob, json, os, random, re, shutil, subprocess, sys, tempfile, time
sys.path.insert(0, os.path.join(os.path.dirname(os.path.abspath(__file__)), "..", "tools"))
import vlib
import engine_corr as ec

MANIFEST = {
    "engine": "coq",
    "category": "proof",
    "text": "Coq theorems over an executable restart model (coq/Restart/Recover.v: LoadAofFile expiry filter, "
            "GetLockCommandExpriedTime, HandleLoad replayed through the lock-engine model): conversion lemmas (seconds: "
            "re-armed deadline within 1 s, minutes: within 61 s), emission rules (persist-immediately => record in the "
            "granting step, never-persist => no record, default => first expiry-wheel insertion with age >= delay), the "
            "all-expired restart and the fold structure of recover; the general simulation (recovered = persisted live "
            "holds) is proved on a sub-language (C07_sim: exclusive seconds-unit holds, no re-locks) and, for two restarts "
            "on one data directory, for runs that release restored holds between the restarts (C07_twice: a hold released "
            "after a restart stays released, the others come back unchanged); outside these sub-languages it is "
            "differential-tested only (one and two restarts); the millisecond unit and persistence delays beyond the "
            "re-check horizon are refuted by concrete witnesses (replayed on the real code).",
    "note": "Model tied to the source by a three-way differential run (full in-process node before the stop / fresh "
            "process after the restart / extracted model) on seeded histories, incl. two-restart histories (run / restart / "
            "run on the restarted node / restart) and values larger than the value-file reader's buffer; AofChannel goroutines = order-preserving "
            "channel, file layer and compaction = identity on the record list (C08/C16), fsync not modelled.",
    "technique": "interactive proof (Coq) + extraction-based differential testing + runtime monitor",
    "design_ref": "DESIGN.md section 5 C07",
}

TRUSTED = [
    "Coq 8.16.1 kernel; vm_compute inside witness proofs only",
    "lock-engine model coq/Engine/{Types,Queues,Timers,Engine,Engine2}.v + coq/Data (validated by the engine correspondence checks C01-C06 and again here: replies and census of every history are diffed against a full node)",
    "coq/Restart/Recover.v hand transcription of LoadAofFile's expiry filter, GetLockCommandExpriedTime and HandleLoad (aof.go:1478-1536, 2176-2207, 994-1030), validated by the census-after-restart diff of this run",
    "extraction: ExtrOcamlBasic only; ocaml/restart/driver.ml trusted for the correspondence only",
    "two-restart histories: the log is append-only across a restart (model: the records of run 2 follow the records found on disk at the first restart; checked by the disk-record tie at the second restart); clock advances of run 2 are waited for in real time before the second restart (no wall-clock hook in the code)",
    "harness/restart/inj/zz_verif_restart.go injected in package server (go build -overlay -tags verif); hook verifManualClock assumed behaviour-neutral",
    "modelled-not-verified: AofChannel queue goroutines = order-preserving channel per database; AofFile buffering, rotation, rewrite (compaction) and the side data file = identity on the record list (exercised by the run with buffer 64..4096 and small rewrite sizes, proved separately under C08/C16); fsync; several databases = independent engine instances; single shard (DBConcurrent = 1); millisecond wheels (real goroutines; only the witness replay uses them); require-ack holds excluded from the histories",
]

OUTAGES = [0, 0, 0, 1, 2, 3, 5, 9, 30, 61, 125]
CONFIGS_QUICK = [(64, 400), (4096, 1500)]
CONFIGS_THOROUGH = [(64, 300), (128, 700), (1024, 1500), (4096, 4000), (4096, 0)]
MAXT = 9223372036854775807
HORIZON = 43        # last re-check of the expiry wheel with a sweep every second: 1, 4, 8, 13, 19, 26, 34, 43 s after the grant


# ------------------------------------------------------------------------------------------------- generation
def safe_data(r):
    """value frames that do not run into the recorded data-layer panics (C13/C15 findings)"""
    from checks import C15_data
    k = r.random()
    v = bytes(r.choice(b"abcxyz01") for _ in range(r.choice([1, 2, 3, 5, 8, 9])))
    if k < 0.5:
        f = C15_data.f_set(v, None, 0)
    elif k < 0.6:
        f = C15_data.f_unset(0)
    elif k < 0.8:
        f = C15_data.f_append(v, None, 0)
    else:
        f = C15_data.f_push(v, None, 0)
    return "x" + f.hex()


def transform(lines, rng, cid, ndbs, outage, cfg):
    """engine case -> C07 case: header `case id aoft ndbs outage buf rewrite`, db id appended to requests, flags outside the
    model's coverage removed (require-ack, millisecond units), role / ack actions dropped"""
    h = lines[0].split()
    out = ["case %d %s %d %d %d %d" % (cid, h[3], ndbs, outage, cfg[0], cfg[1])]
    for ln in lines[1:]:
        f = ln.split()
        if f[0] == "req":
            f[7] = str(int(f[7]) & ~0x1400)
            f[9] = str(int(f[9]) & ~0x0400)
            f[4] = str(int(f[4]) & ~0x04)
            out.append(" ".join(f[:14] + [str(rng.randrange(ndbs))]))
        elif f[0] in ("adv", "sweept", "sweepe"):
            if ln != "adv 0":
                out.append(ln)
        elif f[0] == "end":
            out += ["sweept", "sweepe", "end"]      # quiescent stop point: both sweepers have caught up with the clock
    return out


def gen_case(rng, prof, cid, cfg, with_data):
    g = ec.Gen(rng, prof, with_data=with_data)
    c = g.case(cid, drain=False)
    ndbs = rng.choice([1, 2, 3])
    return transform(c, rng, cid, ndbs, rng.choice(OUTAGES), cfg), g.stats


def big_value(r, size):
    """SET frame with a payload of `size` random bytes (value frames of the .dat side file; AofFile.ReadLockData reads
    them through a bufio.Reader of aof_file_buffer_size*64 bytes: 4096 with the 64-byte configuration)"""
    from checks import C15_data
    return "x" + C15_data.f_set(bytes(r.choice(b"abcdefghijklmnopqrstuvwxyz") for _ in range(size)), None, 0).hex()


def gen_twice(rng, cid, cfg, thorough=False):
    """directed two-restart history: run 1 takes (mostly persist-immediately, long-lived) exclusive and re-entrant holds on a
    few keys, some with values - also values that do not fit into / straddle the 4096-byte chunk of the value-file reader -,
    releases some; `restart`; run 2 releases restored holds, re-locks them, takes new holds, lets a second or two pass."""
    ndbs = rng.choice([1, 1, 2])
    aoft = rng.choice([0, 1, 1, 2])
    keys = rng.sample([3, 7, 11, 19, 71, 135, 258, 70000], rng.choice([2, 3, 4]))
    ids = list(range(101, 101 + rng.choice([3, 4, 6])))
    conns = [1, 2, 3]
    st = collections.Counter()
    req = [0]
    held = {}                                   # (db, key) -> lockid  (what run 1 / run 2 believe to hold)
    bigmode = rng.random() < (0.5 if cfg[0] <= 128 else 0.2)
    # on-disk size of a SET frame = 4 (length) + 2 (frame header) + payload; the second / third value starts at (or its
    # length prefix straddles) the 4096-byte boundary of the reader's chunk, or lies across it
    s1 = rng.choice([1000, 2042, 3000])
    target = rng.choice([4090, 4093, 4094, 4095, 4096, 4097, 4100, 6012])
    bigsizes = [s1, max(1, target - (s1 + 6) - 6) if target != 6012 else 3000, rng.choice([100, 3000, 4090, 5000]), rng.choice([10, 2000])]

    def lock(db, key, lid, phase):
        req[0] += 1
        eflag = rng.choice([0x100] * 7 + [0, 0x200, 0x1000])
        expried = rng.choice([30, 60, 120, 600, 3000] + ([2, 3, 5] if rng.random() < 0.3 else []))
        rcount = rng.choice([0, 0, 0, 0, 1, 2])
        flag, data = 0, "-"
        x = rng.random()
        if bigmode and x < 0.7 and bigsizes:
            data, flag = big_value(rng, bigsizes.pop(0)), 0x20
            eflag = 0x100
            st["big_value"] += 1
        elif not bigmode and x < 0.25:
            data, flag = safe_data(rng), 0x20
        st["lock_p%d" % phase] += 1
        held.setdefault((db, key), lid)
        return "req %d L %d %d %d %d 0 0 %d %d 0 %d %s %d" % (rng.choice(conns), req[0], flag, lid, key, eflag, expried, rcount, data, db)

    def unlock(db, key, lid, phase):
        req[0] += 1
        st["unlock_p%d" % phase] += 1
        if held.get((db, key)) == lid:
            held.pop((db, key))
        return "req %d U %d 0 %d %d 0 0 0 0 0 %d - %d" % (rng.choice(conns), req[0], lid, key, rng.choice([0, 0, 0, 1]), db)

    out = []
    for _ in range(rng.randint(2, 9)):
        x = rng.random()
        db, key = rng.randrange(ndbs), rng.choice(keys)
        if x < 0.7 or not held:
            out.append(lock(db, key, held.get((db, key), rng.choice(ids)) if rng.random() < 0.3 else rng.choice(ids), 1))
        elif x < 0.85:
            (db, key), lid = rng.choice(sorted(held.items()))
            out.append(unlock(db, key, lid, 1))
        else:
            out += ["adv %d" % rng.choice([1, 1, 2]), "sweept", "sweepe"]
    out += ["sweept", "sweepe", "restart %d" % rng.choice([0, 0, 1])]
    advleft = rng.choice([0, 1, 2, 3]) if not thorough else rng.choice([0, 1, 2, 3, 5, 8])
    restored = dict(held)
    for _ in range(rng.randint(1, 7)):
        x = rng.random()
        if x < 0.5 and restored:
            (db, key), lid = rng.choice(sorted(restored.items()))
            restored.pop((db, key))
            out.append(unlock(db, key, lid, 2))
            st["unlock_restored"] += 1
        elif x < 0.6 and held:
            (db, key), lid = rng.choice(sorted(held.items()))
            out.append(lock(db, key, lid, 2))                  # re-lock of a (restored) hold by its owner
            st["relock_restored"] += 1
        elif x < 0.85:
            out.append(lock(rng.randrange(ndbs), rng.choice(keys + [keys[0] + 64]), rng.choice(ids), 2))
        elif advleft > 0:
            k = rng.randint(1, advleft)
            advleft -= k
            out += ["adv %d" % k, "sweept", "sweepe"]
            st["adv_p2"] += 1
    out += ["sweept", "sweepe", "end"]
    return ["case %d %d %d %d %d %d" % (cid, aoft, ndbs, rng.choice([0, 0, 1, 2, 5]), cfg[0], cfg[1])] + out, st


def gen_twice_split(rng, prof, cid, cfg, with_data, thorough=False):
    """a seeded engine history cut into two runs: `restart` inserted in its second half; the clock advances of the
    second run are capped (they are waited for in real time before the second restart)"""
    c, st = gen_case(rng, prof, cid, cfg, with_data)
    body = c[1:-3]                                            # without the final sweeps and `end`
    if len(body) < 4:
        return c, st
    cut = rng.randint(len(body) // 2, len(body) - 1)
    budget = 3 if not thorough else 10
    second = []
    for ln in body[cut:]:
        f = ln.split()
        if f[0] == "adv":
            k = min(int(f[1]), budget)
            budget -= k
            if k == 0:
                continue
            ln = "adv %d" % k
        second.append(ln)
    st = collections.Counter(st)
    st["twice_split"] += 1
    return [c[0]] + body[:cut] + ["sweept", "sweepe", "restart %d" % rng.choice([0, 0, 1])] + second + ["sweept", "sweepe", "end"], st


# ------------------------------------------------------------------------------------------------- running
def parse_out(text):
    """-> dict(t0, replies[], before[], after[], nowend, wall, dbnow{}, panic, files)"""
    res = dict(t0=None, replies=[], holds=[], nowend=None, wall=None, wall1=None, dbnow={}, panic=None, files=None, initerr=None,
               logs=[], stopped=False, early=None, disk=[], diskerr=None, replies2=[], holds2=[], nowend2=None, dbmax2=None, phase2=False)
    for ln in text.splitlines():
        f = ln.split()
        if not f:
            continue
        if f[0] == "phase2":
            res["phase2"] = True
        elif res["phase2"] and f[0] == "ev" and f[1] == "reply":
            res["replies2"].append(ln)
        elif res["phase2"] and f[0] == "hold":
            res["holds2"].append(ln)
        elif f[0] == "now-end2":
            res["nowend2"], res["dbmax2"] = int(f[1]), int(f[5])
        elif f[0] == "t0":
            res["t0"] = int(f[1])
        elif f[0] == "ev" and f[1] == "reply":
            res["replies"].append(ln)
        elif f[0] == "ev" and f[1] == "panic":
            res["panic"] = ln
        elif f[0] == "hold":
            res["holds"].append(ln)
        elif f[0] == "now-end":
            res["nowend"] = int(f[1])
        elif f[0] == "restart":
            res["wall"], res["wall1"] = int(f[2]), int(f[4])
        elif f[0] == "dbnow":
            res["dbnow"][int(f[1])] = int(f[2])
        elif f[0] == "files":
            res["files"] = f[1] if len(f) > 1 else ""
        elif f[0] == "init":
            res["initerr"] = ln
        elif f[0] == "log":
            res["logs"].append(ln)
        elif f[0] == "stopped":
            res["stopped"] = True
        elif f[0] == "disk":
            res["disk"].append(" ".join(f[:14]))
        elif f[0] == "disk-error":
            res["diskerr"] = ln
        elif f[0] == "early-census-differs":
            res["early"] = ln
    return res


def hold_fields(ln):
    d = {}
    for tok in ln.split()[1:]:
        k, v = tok.split("=", 1)
        d[k] = v
    for k in ("db", "key", "lockid", "depth", "count", "rcount", "deadline", "isaof", "start", "eflag", "aoftime", "mlocked"):
        d[k] = int(d[k])
    return d


def split_case(case):
    """-> (phase-1 case (header, actions, end), phase-2 action lines or None, outage2)"""
    idx = next((i for i, l in enumerate(case) if l.split()[0] == "restart"), None)
    if idx is None:
        return case, None, 0
    return case[:idx] + ["end"], [l for l in case[idx + 1:] if l != "end"], int(case[idx].split()[1])


def run_go(binary, case, workdir):
    """stop + restart for one case; returns (hist observation, restart observation).  Two-restart history: the restart
    observation also holds phase 2 (replies2, holds2 = census of the second stop) and o2["second"] = observation of the
    second restart."""
    h = case[0].split()
    outage, buf, rew = h[4], h[5], h[6]
    _, phase2, outage2 = split_case(case)
    shutil.rmtree(workdir, ignore_errors=True)
    os.makedirs(os.path.join(workdir, "d"))
    cf = os.path.join(workdir, "case.txt")
    open(cf, "w").write("\n".join(case) + "\n")

    def obs(p):
        o = parse_out(p.stdout.decode("utf-8", "replace"))
        o["rc"], o["stderr"] = p.returncode, p.stderr.decode("utf-8", "replace")[-800:]
        return o
    try:
        p = subprocess.run([binary, "hist", os.path.join(workdir, "d"), buf, rew, cf, outage], stdout=subprocess.PIPE,
                           stderr=subprocess.PIPE, timeout=120)
        o1 = obs(p)
        if p.returncode != 0 or o1["initerr"]:
            return o1, None
        o2, d2 = None, None
        for attempt in range(3):
            d2 = os.path.join(workdir, "r%d" % attempt)
            shutil.copytree(os.path.join(workdir, "d"), d2)
            p = subprocess.run([binary, "restart", d2, buf, rew, h[2]] + ([cf] if phase2 is not None else []),
                               stdout=subprocess.PIPE, stderr=subprocess.PIPE, timeout=120)
            o2 = obs(p)
            if o2["wall"] is not None and o2["wall"] == o2["wall1"]:
                break
        if phase2 is not None and o2 is not None and o2.get("rc") == 0 and o2.get("dbmax2") is not None and not o2.get("initerr"):
            o3 = None
            for attempt in range(3):
                d3 = os.path.join(workdir, "q%d" % attempt)
                shutil.copytree(d2, d3)
                p = subprocess.run([binary, "restart", d3, buf, rew, h[2], "-", str(o2["dbmax2"] + outage2)],
                                   stdout=subprocess.PIPE, stderr=subprocess.PIPE, timeout=120)
                o3 = obs(p)
                if o3["wall"] is not None and o3["wall"] == o3["wall1"]:
                    break
            o2["second"] = o3
        return o1, o2
    except subprocess.TimeoutExpired:
        return dict(rc=124, stderr="timeout", panic=None, initerr=None, holds=[], replies=[], t0=None, stopped=False), None
    finally:
        shutil.rmtree(workdir, ignore_errors=True)


def model_input(case, o1, o2):
    h = case[0].split()
    ndbs = int(h[3])
    p1, phase2, _ = split_case(case)
    lines = ["case %s %d %s %d" % (h[1], o1["t0"], h[2], ndbs)]
    lines += [l for l in p1[1:] if l != "end"]
    lines += o2["disk"]
    lines.append("restart %d %s" % (o2["wall"], " ".join(str(o2["dbnow"].get(i, -1)) for i in range(ndbs))))
    o3 = o2.get("second")
    if phase2 is not None and o3 is not None and o3.get("wall") is not None:
        lines += phase2
        lines += o3["disk"]
        lines.append("restart %d %s" % (o3["wall"], " ".join(str(o3["dbnow"].get(i, -1)) for i in range(ndbs))))
    lines.append("end")
    return lines


def run_model(modelrun, inputs, tmp):
    path = os.path.join(tmp, "model-in.txt")
    with open(path, "w") as f:
        for c in inputs:
            f.write("\n".join(c) + "\n")
    p = subprocess.run([modelrun, path], stdout=subprocess.PIPE, stderr=subprocess.PIPE, timeout=900)
    res, cur, phase = {}, None, 0
    for ln in p.stdout.decode("utf-8", "replace").splitlines():
        f = ln.split()
        if not f:
            continue
        if f[0] == "case":
            cur = dict(replies=[], before=[], after=[], after_disk=[], recs=[], panic=None, nowend=None)
            res[f[1]] = cur
            phase = 0
        elif cur is None:
            continue
        elif f[0] == "phase2":                       # block of the next run (two-restart history); empty after the last restart
            nxt = dict(replies=[], before=[], after=[], after_disk=[], recs=[], panic=None, nowend=None)
            cur["p2"] = nxt
            cur = nxt
            phase = 0
        elif f[0] == "ev" and f[1] == "reply":
            cur["replies"].append(ln)
        elif f[0] == "ev" and f[1] == "panic":
            cur["panic"] = ln
        elif f[0] == "now-end":
            cur["nowend"] = int(f[1])
        elif f[0] == "hold":
            cur[("before", "after", "after_disk")[phase]].append(ln)
        elif f[0] == "census-end":
            phase = 1
        elif f[0] == "census2-end":
            phase = 2
        elif f[0] == "rec":
            cur["recs"].append(ln)
    return res, p.returncode, p.stderr.decode("utf-8", "replace")[-600:]


# ------------------------------------------------------------------------------------------------- monitor
def delay_of(h, cfg_delay, history_expried):
    cls = h["eflag"] & 0x1300
    if cls == 0x100:
        return 0
    if cls == 0x200:
        return None
    if cls == 0x1000:
        return (history_expried.get((h["db"], h["key"], h["lockid"]), 0) * 3) // 10
    return cfg_delay


def disk_skip(f, wall):
    """LoadAofFile's expiry filter on a `disk` observation line (fields: disk db islock flag lockid key aofflag ctime start eflag etime ...)"""
    ctime, eflag, et = int(f[7]), int(f[9]), int(f[10])
    if eflag & 0x400:
        return ctime + et // 1000 <= wall
    if eflag & 0x40:
        return ctime + et * 60 <= wall
    if not eflag & 0x4000:
        return et > 0 and ctime + et <= wall
    return False


def disk_dropped(f, wall):
    """the record has no effect at the restart: dropped by the filter, or replayed with an exhausted term
    (GetLockCommandExpriedTime yields 0: `Expried = 0` takes no hold)"""
    if disk_skip(f, wall):
        return True
    ctime, eflag, et = int(f[7]), int(f[9]), int(f[10])
    if eflag & 0x4400 or et == 0 or wall < ctime:
        return False
    e = wall - ctime
    if eflag & 0x40:
        m = e // 60 + (1 if (e < 60 or e % 60) else 0)
        return et <= (m & 0xffff)
    return et <= (e & 0xffff)


def corrupted_values(disk, mrecs):
    """(db, key) of the records on disk whose value blob differs from the blob of the same record in the record stream
    of the history (model output; the streams are tie-checked): the value was damaged in the files or by the reader.
    Records are aligned per database as a subsequence on all fields but the value (compaction only drops records)."""
    bad = set()
    if not mrecs:
        return bad
    per = collections.defaultdict(list)
    for ln in mrecs:
        f = ln.split()
        per[f[1]].append((tuple(f[2:6] + [str(int(f[6]) & ~1)] + f[7:13]), f[13]))
    pos = collections.Counter()
    for ln in disk or []:
        f = ln.split()
        k = tuple(f[2:6] + [str(int(f[6]) & ~1)] + f[7:13])
        lst = per.get(f[1], [])
        i = pos[f[1]]
        while i < len(lst) and lst[i][0] != k:
            i += 1
        if i < len(lst):
            pos[f[1]] = i + 1
            if lst[i][1] != f[13]:
                bad.add((int(f[1]), int(f[5])))
    return bad


def monitor(case, o1, o2, mrecs=None, second=False, restored=None):
    """the property statement on the Go observations; returns [(signature, description)].
    second=True: (o1, o2) = (second stop, second restart) of a two-restart history; `restored` = the (db, key, LockId) held
    after the FIRST restart: a hold restored by a restart IS persisted whatever its age in the new run, and a restored hold
    that was released in the run between the restarts must not come back.
    The root-cause tag `<-per-record-expiry-filter` of a signature (not the verdict) also looks at the complete record
    stream of the history (model output, tie-checked against the disk records): compaction applies the same filter
    earlier and removes the dropped records from the disk."""
    hits = []
    cfg_delay = int(case[0].split()[2])
    expr = {}
    expr_all = collections.defaultdict(set)
    eflags_seen = collections.defaultdict(list)                        # expiry flags of the LOCK requests of (db, key, lockid), in order
    for ln in case[1:]:
        f = ln.split()
        if f[0] == "req" and f[2] == "L":
            eflags_seen[(int(f[14]), int(f[6]), int(f[5]))].append(int(f[9]))
        if f[0] == "req" and f[2] == "L" and int(f[10]) > 0:
            expr[(int(f[14]), int(f[6]), int(f[5]))] = int(f[10])      # latest Expried asked for (db, key, lockid)
            expr_all[(int(f[14]), int(f[6]), int(f[5]))].add(int(f[10]))
    A = [hold_fields(l) for l in o1["holds"]]
    B = [hold_fields(l) for l in o2["holds"]]
    nowend, wall = o1["nowend"], o2["wall"]
    # the same LockId can hold a key several times (separate grants): pair the holds of one (db, key, LockId) greedily,
    # best match first
    bgroups = collections.defaultdict(list)
    for h in B:
        bgroups[(h["db"], h["key"], h["lockid"])].append(h)
    aidx = {(h["db"], h["key"], h["lockid"]): h for h in A}
    if o2.get("early"):
        hits.append(("init-returns-before-load-applied", "the census taken when Init returned differs from the census after the load queue had really drained (%s)" % o2["early"]))

    def take(k, h):
        g = bgroups.get(k) or []
        if not g:
            return None
        best = min(g, key=lambda b: (sum(b[f] != h[f] for f in ("depth", "count", "rcount", "val")), abs(b["deadline"] - h["deadline"])))
        g.remove(best)
        return best
    A.sort(key=lambda h: (h["db"], h["key"], h["lockid"], -h["isaof"], h["deadline"]))
    # root cause tag: the key's records on disk were partly dropped by the per-record expiry filter and partly replayed
    mixed = collections.defaultdict(set)
    mixed_hold = collections.defaultdict(set)      # the same per (db, key, LockId)
    for ln in o2.get("disk", []):
        f = ln.split()
        mixed[(int(f[1]), int(f[5]))].add(disk_dropped(f, wall))
        mixed_hold[(int(f[1]), int(f[5]), int(f[4]))].add(disk_dropped(f, wall))
    eff_model, eff_disk = collections.defaultdict(list), collections.defaultdict(list)
    for ln in o2.get("disk", []):
        f = ln.split()
        if not disk_dropped(f, wall):
            eff_disk[(int(f[1]), int(f[5]))].append(tuple(f[2:6] + [str(int(f[6]) & ~1)] + f[7:14]))
    for ln in mrecs or []:
        f = ln.split()                                   # rec db islock flag lockid key aofflag ctime start eflag etime ...
        mixed[(int(f[1]), int(f[5]))].add(disk_dropped(f, wall))
        mixed_hold[(int(f[1]), int(f[5]), int(f[4]))].add(disk_dropped(f, wall))
        if not disk_dropped(f, wall):
            eff_model[(int(f[1]), int(f[5]))].append(tuple(f[2:14]))
    locks_on_key = collections.defaultdict(set)
    counts_on_key = collections.defaultdict(set)
    updates_on_key = set()
    prio_unlock_on_key = set()
    updflag_on_key = set()
    nlocks = collections.Counter()
    for ln in case[1:]:
        f = ln.split()
        if f[0] == "req" and f[2] == "L":
            locks_on_key[(int(f[14]), int(f[6]))].add(int(f[5]))
            nlocks[(int(f[14]), int(f[6]))] += 1
            if int(f[10]) > 0:
                counts_on_key[(int(f[14]), int(f[6]))].add(int(f[11]))
            if int(f[4]) & 3 or nlocks[(int(f[14]), int(f[6]))] > 1:
                updates_on_key.add((int(f[14]), int(f[6])))          # update / re-entrant re-lock may change the terms
            if int(f[4]) & 2:
                updflag_on_key.add((int(f[14]), int(f[6])))
        if f[0] == "req" and f[2] == "U" and int(f[7]) & 0x10:
            prio_unlock_on_key.add((int(f[14]), int(f[6])))

    twice = collections.Counter((h["db"], h["key"], h["lockid"]) for h in A)
    compacted = any("rewrite.aof=" in (o.get("files") or "") for o in (o1, o2))      # a compaction has rewritten the log
    badvals = corrupted_values(o2.get("disk"), mrecs)

    def tag(k):
        kk = (k[0], k[1])
        if twice[k] > 1:
            return "<-same-lockid-held-twice"
        if 65535 in expr_all.get(k, ()) and not (aidx.get(k, {}).get("eflag", 0) & 0x4400):
            return "<-expried-65535-wraps"                       # uint16(eT - CommandTime) = uint16(65536) = 0 in the record (minutes: 65535 + 1)
        counts = set(h["count"] for h in A if (h["db"], h["key"]) == kk) | (counts_on_key[kk] if len(locks_on_key[kk]) > 1 else set())
        if len(mixed_hold.get(k, ())) < 2 and len(counts) > 1:
            return "<-shared-count-oldest-holder"                # doLock judges by the Count of the oldest holder
        if len(mixed.get(kk, ())) == 2:
            return "<-per-record-expiry-filter"
        if kk in prio_unlock_on_key:
            return "<-unlock-priority-flag-not-persisted"
        if kk in updflag_on_key:
            return "<-update-flag-replayed-as-update"
        if mrecs is not None and compacted and eff_model.get(kk, []) != eff_disk.get(kk, []):
            return "<-compaction-dropped-effective-record"      # C16: the compacted files replay to another state
        return ""
    raw = hits
    hits = []
    # first holder's class of every key (later holders inherit its persistence delay in the code)
    for h in A:
        k = (h["db"], h["key"], h["lockid"])
        unit = 60 if h["eflag"] & 0x40 else 1
        uname = "millisecond" if h["eflag"] & 0x400 else ("minute" if h["eflag"] & 0x40 else "second")
        tol = unit + 1
        d = delay_of(h, cfg_delay, expr)
        age = nowend - h["start"]
        required = (d is not None and age >= d) or (second and bool(h["isaof"]) and k in (restored or ()))
        forbidden = d is None and not (second and k in (restored or ()))
        unlimited = bool(h["eflag"] & 0x4000)
        remaining = MAXT if unlimited else h["deadline"] - wall
        live = remaining > 0
        b = take(k, h)
        if b is None:
            if required and live and remaining > tol:
                if h["isaof"]:
                    hits.append(("persisted-hold-lost" + tag(k), "hold %s was persisted (isAof) and live (%d s left) but is not held after the restart" % (k, remaining)))
                else:
                    exp_aoft = 0 if d == 0 else (d % 256)
                    shared = h["mlocked"] > h["depth"] or len(locks_on_key[(k[0], k[1])]) > 1 or (k[0], k[1]) in updates_on_key
                    if h["aoftime"] != exp_aoft and shared:
                        why = "delay-taken-from-first-holder"
                    elif h["aoftime"] != exp_aoft:
                        why = "delay-unexplained"
                    elif d > HORIZON:
                        why = "delay-beyond-recheck-horizon"
                    elif d == 0 and (k[0], k[1]) not in updates_on_key:
                        why = "persist-immediately-not-persisted"
                    else:
                        why = "delay-recheck-gap"
                    hits.append(("not-persisted:" + why, "hold %s is %d s old, persistence delay %d s, %d s left: it counts as persisted but no record was written (isAof=0, aofTime=%d) and it is gone after the restart" % (k, age, d, remaining, h["aoftime"])))
            continue
        if forbidden:
            why = "delay-taken-from-first-holder" if h["aoftime"] != 255 else "never-persist-flag"
            if why == "never-persist-flag" and any(not (e & 0x200) for e in eflags_seen.get(k, [])[:-1]):
                # the hold was taken (and persisted) with other terms and only later re-locked / updated with the never-persist
                # flag: its earlier records stay in the log and nothing withdraws them
                why = "persisted-before-it-was-updated-to-never-persist"
            hits.append(("never-persist-hold-restored:" + why, "hold %s carries the never-persist flag (aofTime=%d) and is held again after the restart" % (k, h["aoftime"])))
        if not live:
            hits.append(("expired-hold-restored" + tag(k), "hold %s had expired %d s before the restart and is held again" % (k, -remaining)))
        for fld in ("depth", "count", "rcount", "val"):
            if b[fld] != h[fld]:
                if fld == "val" and (k[0], k[1]) in badvals:
                    hits.append(("restored-hold-differs:val:record-value-corrupted", "hold %s: the value of the key is %s... (%d bytes) after the restart, it was %s... (%d bytes) before the stop; the value blob of a record of this key read back from the files differs from the blob that was written" % (k, b["val"][:40], len(b["val"]) // 2, h["val"][:40], len(h["val"]) // 2)))
                    continue
                hits.append(("restored-hold-differs:" + fld + tag(k), "hold %s: %s was %s before the stop and is %s after the restart" % (k, fld, str(h[fld])[:80], str(b[fld])[:80])))
        if not unlimited and abs(b["deadline"] - h["deadline"]) > tol:
            kind = "renewed" if b["deadline"] > h["deadline"] else "shortened"
            hits.append(("deadline-%s:%s-unit" % (kind, uname) + tag(k), "hold %s: deadline %d before the stop, %d after the restart (difference %d s, tolerance %d s)" % (k, h["deadline"], b["deadline"], b["deadline"] - h["deadline"], tol)))
        if unlimited and b["deadline"] != h["deadline"]:
            hits.append(("deadline-changed:unlimited" + tag(k), "hold %s: unlimited hold restored with deadline %d" % (k, b["deadline"])))
    for k, g in bgroups.items():
        for b in g:
            t = tag(k)
            if second and not t and k in (restored or ()):
                hits.append(("resurrected-hold:released-after-an-earlier-restart", "hold %s had been restored by the first restart, was released (or expired) in the run after it - it is not held at the second stop - and is held again after the second restart (deadline %d)" % (k, b["deadline"])))
                continue
            hits.append(("resurrected-hold" + t, "hold %s (deadline %d) is held after the restart but was not held at the stop" % (k, b["deadline"])))
    return raw + hits


# ------------------------------------------------------------------------------------------------- corpus
def load_corpus():
    res = []
    for f in sorted(glob.glob(os.path.join(vlib.VERIF, "corpus", "C07", "*.case"))):
        lines = [l.strip() for l in open(f) if l.strip() and not l.startswith("#")]
        res.append((os.path.basename(f), lines))
    return res


def uses_ms(case):
    for ln in case[1:]:
        f = ln.split()
        if f[0] == "req" and (int(f[9]) & 0x400 or int(f[7]) & 0x400):
            return True
    return False


# ------------------------------------------------------------------------------------------------- main
def derive_restart_fixes(ctx):
    """source switch of the restart model: does the millisecond branch of GetLockCommandExpriedTime subtract elapsed time?"""
    src = open(os.path.join(vlib.REPO, "server", "aof.go")).read()
    m = re.search(r"\nfunc \(self \*Aof\) GetLockCommandExpriedTime\(.*?\n}\n", src, flags=re.S)
    body = m.group(0) if m else ""
    b = re.search(r"EXPRIED_FLAG_MILLISECOND_TIME != 0 \{(.*?)\n\t}\n", body, flags=re.S)
    fixed = bool(b and "lockDb.currentTime" in b.group(1))
    txt = ("(* GENERATED by checks/C07.py from the text of <repo>/server/aof.go (GetLockCommandExpriedTime, millisecond branch). *)\n"
           "Definition fix_ms_remaining : bool := %s.\n" % ("true" if fixed else "false"))
    with vlib.Lock("coq"):
        vlib.write_if_changed(os.path.join(vlib.COQ, "Restart", "FixFlags.v"), txt)
    ctx.notes.append("source switch fix_ms_remaining = %s (derived from %s/server/aof.go)" % (fixed, vlib.REPO))
    return fixed


def derive_data_fixes(ctx):
    try:
        from checks import C15_data
        fx = C15_data.derive_fixes(vlib.REPO)
        with vlib.Lock("coq"):
            vlib.write_if_changed(os.path.join(vlib.COQ, "Data", "FixFlags.v"), C15_data.fixflags_v(fx))
    except Exception as e:  # noqa
        ctx.notes.append("derive_fixes unavailable: %s" % e)


PROPERTY_FILES = ["C07.v", "C07_sim.v", "C07_twice.v"]   # C07_sim.v: general simulation on a sub-language (Restart/Sim*.v); C07_twice.v: two restarts (Restart/SimTwice.v)


def theorems(fn="C07.v"):
    p = os.path.join(vlib.COQ, "Properties", fn)
    if not os.path.exists(p):
        return []
    return re.findall(r"^(?:Theorem|Lemma|Corollary)\s+(\w+)", open(p).read(), flags=re.M)


def evaluate(ctx, binary, modelrun, cases, origin, tmp, jobs=8):
    """runs everything; returns (per-case results, mismatches, monitor hits)"""
    results = {}
    with concurrent.futures.ThreadPoolExecutor(max_workers=jobs) as ex:
        futs = {}
        for i, c in enumerate(cases):
            wd = os.path.join(tmp, "c07-%d-%d" % (os.getpid(), i))
            futs[ex.submit(run_go, binary, c, wd)] = c
        for fu in concurrent.futures.as_completed(futs):
            c = futs[fu]
            results[c[0].split()[1]] = fu.result()
    minputs = []
    for c in cases:
        cid = c[0].split()[1]
        o1, o2 = results[cid]
        if o2 is not None and o2.get("wall") is not None and o1.get("t0") is not None and not uses_ms(c):
            minputs.append(model_input(c, o1, o2))
    mres, mrc, merr = run_model(modelrun, minputs, tmp) if minputs else ({}, 0, "")
    return results, mres, mrc, merr


def compare_case(c, o1, o2, m):
    """model vs Go; returns None or a difference description"""
    if m is None:
        return None
    if m["panic"]:
        return None if o1.get("panic") else dict(what="model-panic", model=m["panic"])
    if m["replies"] != o1["replies"]:
        d = [(a, b) for a, b in zip(m["replies"], o1["replies"]) if a != b][:2]
        return dict(what="replies", first=d, n=(len(m["replies"]), len(o1["replies"])))
    strip = lambda ls: sorted(re.sub(r" aoftime=\d+", "", x) for x in ls)   # aofTime of a restored hold depends on what compaction kept
    if sorted(m["before"]) != sorted(o1["holds"]):
        return dict(what="census-before-stop", model=[x for x in m["before"] if x not in o1["holds"]][:3], impl=[x for x in o1["holds"] if x not in m["before"]][:3])
    # tie 1: the record stream the engine model emits == the records on disk (compaction may only drop records)
    compacted = "rewrite.aof=" in (o1.get("files") or "")
    mrecs, drecs = collections.defaultdict(list), collections.defaultdict(list)
    for x in m["recs"]:
        f = x.split()
        mrecs[f[1]].append(tuple(f[2:14]))
    for x in o2["disk"]:
        f = x.split()
        f[6] = str(int(f[6]) & ~1)                      # AOF_FLAG_REWRITED
        drecs[f[1]].append(tuple(f[2:14]))
    for dbi in set(mrecs) | set(drecs):
        a, b = mrecs[dbi], drecs[dbi]
        if not compacted:
            if a != b:
                i = next((i for i, (x, y) in enumerate(zip(a, b)) if x != y), min(len(a), len(b)))
                return dict(what="record-stream", db=dbi, index=i, model=a[i:i + 2], disk=b[i:i + 2], n=(len(a), len(b)))
        else:
            it = iter(a)
            if not all(any(x == y for x in it) for y in b):
                return dict(what="record-stream-not-a-subsequence", db=dbi, model=a[:40], disk=b[:40])
    # tie 2: recover (records on disk) == census of the restarted node
    if strip(m["after_disk"]) != strip(o2["holds"]):
        return dict(what="census-after-restart(from-disk-records)", model=[x for x in strip(m["after_disk"]) if x not in strip(o2["holds"])][:3],
                    impl=[x for x in strip(o2["holds"]) if x not in strip(m["after_disk"])][:3], wall=o2["wall"], dbnow=o2["dbnow"], disk=o2["disk"][-14:])
    if not compacted and strip(m["after"]) != strip(o2["holds"]):
        return dict(what="census-after-restart", model=[x for x in m["after"] if x not in o2["holds"]][:3], impl=[x for x in o2["holds"] if x not in m["after"]][:3],
                    wall=o2["wall"], dbnow=o2["dbnow"], records=m["recs"][-12:])
    return None


def compare_second(c, o1, o2, m):
    """two-restart history, model vs Go for the run between the restarts and the second restart; None or a difference"""
    o3 = o2.get("second")
    m2 = (m or {}).get("p2")
    if m is None or m2 is None or o3 is None or m2.get("nowend") is None:
        return None
    if m2["panic"]:
        return None if o2.get("panic") else dict(what="second:model-panic", model=m2["panic"])
    mrep = [x for x in m2["replies"] if x.split()[3] != "0"]          # connection 0 = the loader (replies are dropped by the node)
    if mrep != o2["replies2"]:
        d = [(a, b) for a, b in zip(mrep, o2["replies2"]) if a != b][:2]
        return dict(what="second:replies", first=d, n=(len(mrep), len(o2["replies2"])))
    strip = lambda ls: sorted(re.sub(r" aoftime=\d+", "", x) for x in ls)
    if strip(m2["before"]) != strip(o2["holds2"]):
        return dict(what="second:census-at-second-stop", model=[x for x in strip(m2["before"]) if x not in strip(o2["holds2"])][:3],
                    impl=[x for x in strip(o2["holds2"]) if x not in strip(m2["before"])][:3])
    compacted = any("rewrite.aof=" in (o.get("files") or "") for o in (o1, o2, o3))
    mrecs, drecs = collections.defaultdict(list), collections.defaultdict(list)
    for x in m2["recs"]:
        f = x.split()
        f[6] = str(int(f[6]) & ~1)
        mrecs[f[1]].append(tuple(f[2:14]))
    for x in o3["disk"]:
        f = x.split()
        f[6] = str(int(f[6]) & ~1)
        drecs[f[1]].append(tuple(f[2:14]))
    for dbi in set(mrecs) | set(drecs):
        a, b = mrecs[dbi], drecs[dbi]
        if not compacted:
            if a != b:
                i = next((i for i, (x, y) in enumerate(zip(a, b)) if x != y), min(len(a), len(b)))
                return dict(what="second:record-stream", db=dbi, index=i, model=[" ".join(t)[:200] for t in a[i:i + 2]],
                            disk=[" ".join(t)[:200] for t in b[i:i + 2]], n=(len(a), len(b)))
        else:
            it = iter(a)
            if not all(any(x == y for x in it) for y in b):
                return dict(what="second:record-stream-not-a-subsequence", db=dbi, model=[" ".join(t)[:120] for t in a[:40]], disk=[" ".join(t)[:120] for t in b[:40]])
    if strip(m2["after_disk"]) != strip(o3["holds"]):
        return dict(what="second:census-after-second-restart(from-disk-records)", model=[x for x in strip(m2["after_disk"]) if x not in strip(o3["holds"])][:3],
                    impl=[x for x in strip(o3["holds"]) if x not in strip(m2["after_disk"])][:3], wall=o3["wall"], dbnow=o3["dbnow"], disk=[d[:200] for d in o3["disk"][-14:]])
    if not compacted and strip(m2["after"]) != strip(o3["holds"]):
        return dict(what="second:census-after-second-restart", model=[x for x in m2["after"] if x not in o3["holds"]][:3],
                    impl=[x for x in o3["holds"] if x not in m2["after"]][:3], wall=o3["wall"], dbnow=o3["dbnow"])
    return None


def hold_key(ln):
    h = hold_fields(ln)
    return (h["db"], h["key"], h["lockid"])


def analyse(c, o1, o2, m):
    """-> (monitor hits [(sig, desc)], model/implementation difference or None) for one executed case (both restarts)"""
    p1, phase2, _ = split_case(c)
    hits = list(monitor(p1, o1, o2, (m or {}).get("recs")))
    d = compare_case(p1, o1, o2, m)
    o3 = o2.get("second")
    if phase2 is not None:
        if o3 is None or o3.get("wall") is None or o2.get("nowend2") is None or o2.get("rc") != 0:
            hits.append(("second-run-fails", "the run between the two restarts did not complete: rc=%s %s %s" % (o2.get("rc"), o2.get("panic"), (o2.get("stderr") or "")[-200:])))
        elif o3.get("initerr") or o3.get("rc") != 0:
            hits.append(("second-restart-fails", "the node does not start on the data directory of the second stop: %s %s" % (o3.get("initerr"), (o3.get("stderr") or "")[-200:])))
        else:
            oa = dict(holds=o2["holds2"], nowend=o2["nowend2"], files=o2.get("files"))
            restored = set(hold_key(l) for l in o2["holds"])
            full = [l for l in c if l.split()[0] != "restart"]
            hits += monitor(full, oa, o3, ((m or {}).get("p2") or {}).get("recs"), second=True, restored=restored)
            d = d or compare_second(c, o1, o2, m)
    return hits, d


def shrink(case, still_bad, max_rounds=40):
    head, body, tail = case[0], case[1:-1], [case[-1]]
    if body[-2:] == ["sweept", "sweepe"]:                # the stop point stays quiescent
        body, tail = body[:-2], body[-2:] + tail
    keep = set()                                         # two-restart history: the restart line and the sweeps before it stay
    for i, l in enumerate(body):
        if l.startswith("restart "):
            keep.add(i)
            if body[max(0, i - 2):i] == ["sweept", "sweepe"]:
                keep.update((i - 2, i - 1))
    body = [(l, i in keep) for i, l in enumerate(body)]
    rounds = 0
    chunk = max(1, len(body) // 2)
    while chunk >= 1 and rounds < max_rounds:
        i, progressed = 0, False
        while i < len(body) and rounds < max_rounds:
            cand = body[:i] + [x for x in body[i:i + chunk] if x[1]] + body[i + chunk:]
            if len(cand) == len(body):
                i += chunk
                continue
            rounds += 1
            if still_bad([head] + [x[0] for x in cand] + tail):
                body, progressed = cand, True
            else:
                i += chunk
        if not progressed or chunk == 1:
            chunk //= 2
    return [head] + [x[0] for x in body] + tail


def run(ctx):
    t_start = time.time()
    thorough = ctx.tier == "thorough"
    for t in TRUSTED:
        ctx.trusted.append(t)
    derive_data_fixes(ctx)
    derive_restart_fixes(ctx)
    # ---------------------------------------------------------------- Coq
    broken = []
    if os.path.exists(os.path.join(vlib.COQ, "Properties", "C07.v")):
        for fn in PROPERTY_FILES:                       # one make per file: Print Assumptions output is not interleaved
            if not os.path.exists(os.path.join(vlib.COQ, "Properties", fn)):
                continue
            ok, log = ctx.coq(["Properties/" + fn[:-2] + ".vo"])
            for th in theorems(fn):
                present = th in ctx.assumption_report
                ctx.obligation("theorem %s (Properties/%s)" % (th, fn), ok and present, "" if (ok and present) else getattr(ctx, "coq_failure", "not compiled")[:600])
                if not (ok and present):
                    broken.append(th)
    else:
        ctx.obligation("Properties/C07.v exists", False, "no property theorem file yet")
        broken.append("(no theorem file)")
    # ---------------------------------------------------------------- builds
    binary = ctx.go_build("restarth", os.path.join(vlib.VERIF, "harness", "restart"),
                          overlay={"server/zz_verif_restart.go": "harness/restart/inj/zz_verif_restart.go"})
    modelrun = ctx.ocaml_model("restart", deps=["Restart/Recover.vo"])
    tmp = tempfile.mkdtemp(prefix="c07-")
    try:
        if getattr(ctx, "replay", None):
            return replay(ctx, binary, modelrun, tmp)
        # ------------------------------------------------------------ cases: corpus first
        cases, origin = [], {}
        cid = 0
        for name, lines in load_corpus():
            h = lines[0].split()
            lines = ["case %d %s" % (cid, " ".join(h[2:]))] + lines[1:]
            cases.append(lines); origin[str(cid)] = "corpus:" + name; cid += 1
        configs = CONFIGS_THOROUGH if thorough else CONFIGS_QUICK
        n_hist = 1500 if thorough else 140
        stats = collections.Counter()
        profs = [("aof", 0.45, None), ("expiry", 0.2, None), ("reentrant", 0.2, None), ("aof", 0.15, safe_data)]
        for prof, w, wd in profs:
            for _ in range(max(1, int(n_hist * w))):
                sub = random.Random(ctx.rng.getrandbits(48))
                for cfg in configs:
                    r2 = random.Random(sub.getrandbits(48))
                    c, st = gen_case(r2, prof, cid, cfg, wd)
                    cases.append(c); origin[str(cid)] = prof + ("+data" if wd else ""); cid += 1
                    stats.update(st)
        # two-restart histories (run 1 / restart / run 2 / restart): directed + seeded engine histories cut in two
        n_twice, n_split = (160, 60) if thorough else (18, 7)
        for i in range(n_twice + n_split):
            sub = random.Random(ctx.rng.getrandbits(48))
            for cfg in configs:
                r2 = random.Random(sub.getrandbits(48))
                if i < n_twice:
                    c, st = gen_twice(r2, cid, cfg, thorough)
                    origin[str(cid)] = "twice"
                else:
                    prof, wd = r2.choice([("aof", None), ("reentrant", None), ("aof", safe_data)])
                    c, st = gen_twice_split(r2, prof, cid, cfg, wd, thorough)
                    origin[str(cid)] = "twice-split:" + prof
                cases.append(c); cid += 1
                stats.update(st)
                stats["two_restart_histories"] += 1 if any(l.startswith("restart ") for l in c) else 0
        cases.sort(key=lambda c: 0 if any(l.startswith("restart ") for l in c) else 1)     # the slow ones (real-time waits) first
        results, mres, mrc, merr = evaluate(ctx, binary, modelrun, cases, origin, tmp, jobs=12)
        # ------------------------------------------------------------ compare + monitor
        mism, hits = [], collections.OrderedDict()
        dist = collections.Counter()
        nontrivial = set()
        runner_errors = []
        for c in cases:
            cid_s = c[0].split()[1]
            o1, o2 = results[cid_s]
            if o1.get("panic") or o1.get("stopped"):
                dist["history-stopped-by-panic"] += 1
                continue
            if o2 is None or o2.get("wall") is None or o1.get("rc") != 0:
                runner_errors.append("case %s (%s): hist rc=%s %s %s" % (cid_s, origin[cid_s], o1.get("rc"), o1.get("initerr"), (o1.get("stderr") or "")[-300:]))
                continue
            if o2.get("initerr") or o2.get("rc") != 0:
                hits.setdefault("restart-fails", []).append((c, "the node does not start on the data directory: %s %s" % (o2.get("initerr"), o2.get("stderr", "")[-200:])))
                continue
            A = [hold_fields(l) for l in o1["holds"]]
            B = [hold_fields(l) for l in o2["holds"]]
            dist["holds_before"] += len(A); dist["holds_persisted_before"] += sum(1 for h in A if h["isaof"]); dist["holds_after"] += len(B)
            dist["reentrant_holds"] += sum(1 for h in A if h["depth"] > 1); dist["holds_with_value_after"] += sum(1 for h in B if h["val"] != "-")
            dist["files_%d" % min(6, len([x for x in (o1["files"] or "").split(",") if x and not x.endswith(".dat")]))] += 1
            dist["rewrite_file_present"] += 1 if "rewrite.aof=" in (o1["files"] or "") else 0
            dist["outage_%s" % c[0].split()[4]] += 1
            if len(B) >= 1 and len(o1["replies"]) >= 3:
                nontrivial.add(hash(tuple(c[1:])))
            o3 = o2.get("second")
            if o3 is not None and o3.get("wall") is not None:
                dist["second_restarts"] += 1
                dist["holds_at_second_stop"] += len(o2["holds2"]); dist["holds_after_second_restart"] += len(o3["holds"])
                r1 = set(hold_key(l) for l in o2["holds"]); a2 = set(hold_key(l) for l in o2["holds2"])
                dist["restored_holds_released_in_run2"] += len(r1 - a2); dist["restored_holds_kept_in_run2"] += len(r1 & a2)
                dist["new_holds_in_run2"] += len(a2 - r1)
                if len(r1 - a2) >= 1 and len(o3["holds"]) >= 1:
                    nontrivial.add(hash(tuple(c[1:])))
            bigv = [len(hold_fields(l)["val"]) // 2 for l in o2["holds"] if hold_fields(l)["val"] != "-"]
            dist["restored_values_over_1000_bytes"] += sum(1 for x in bigv if x > 1000)
            h_, d = analyse(c, o1, o2, mres.get(cid_s))
            for sig, desc in h_:
                hits.setdefault(sig, []).append((c, desc))
            if d:
                mism.append((c, d))
            elif cid_s in mres:
                dist["model_compared"] += 1
                if (mres[cid_s].get("p2") or {}).get("nowend") is not None:
                    dist["model_compared_second_restart"] += 1
        # ------------------------------------------------------------ classification
        new_inputs = 0
        for sig, lst in hits.items():
            c, desc = min(lst, key=lambda x: len(x[0]))

            def still(cc, sig=sig):
                o1, o2 = run_go(binary, cc, os.path.join(tmp, "shrink"))
                if o2 is None or o2.get("wall") is None or o1.get("panic"):
                    return False
                m = None
                if not uses_ms(cc):
                    mr, _, _ = run_model(modelrun, [model_input(cc, o1, o2)], tmp)
                    m = mr.get(cc[0].split()[1])
                return any(s == sig for s, _ in analyse(cc, o1, o2, m)[0])
            known = any(k.get("status") == "known" and re.fullmatch(k["match"], sig) for k in ctx.known)
            twice = any(l.startswith("restart ") for l in c)         # every evaluation of a two-restart history waits in real time
            short = shrink(c, still, max_rounds=(0 if twice else 10) if known else (25 if twice else 60)) if len(c) > 6 else c
            res = ctx.violation(sig, desc, {"history": short, "origin": origin.get(c[0].split()[1]), "occurrences": len(lst),
                                            "how_to_replay": "python3 tools/check.py C07 --replay <this file>"}, found_input=True)
            if res == "new":
                new_inputs += 1
        ncmp = dist["model_compared"] + len(mism)
        if mism:
            c, d = mism[0]
            ctx.obligation("correspondence model == implementation on %d histories" % ncmp, False, "%d histories differ; first: %s" % (len(mism), json.dumps(d)[:400]))
            if new_inputs == 0:
                ctx.violation("correspondence:restart:" + d.get("what", "?"),
                              "the restart model and the implementation disagree (%s) and no history violating C07 was found by the monitor" % d.get("what"),
                              {"broken": "correspondence check restart (restarth vs modelrun)", "history": c, "difference": d, "mismatching_histories": len(mism)},
                              found_input=False)
        else:
            ctx.obligation("correspondence model == implementation on %d histories" % ncmp, ncmp > 0 and mrc == 0, "" if ncmp > 0 else "nothing compared %s" % merr)
        if runner_errors or mrc != 0:
            ctx.obligation("all runners terminate normally", False, "; ".join(runner_errors[:3]) + merr)
            ctx.violation("correspondence:runner-failed", "restarth/modelrun did not terminate normally", {"errors": runner_errors[:5], "model": merr}, found_input=False)
        if broken and new_inputs == 0:
            ctx.violation("proof:" + ",".join(broken[:4]), "theorem(s) %s no longer check and no history violating C07 was found by the monitor" % broken[:4],
                          {"broken": "Coq theorems " + ", ".join(broken), "detail": getattr(ctx, "coq_failure", "")[:1500]}, found_input=False)
        samples = [{"origin": origin.get(c[0].split()[1]), "history": c[:10] + (["... (%d more lines)" % (len(c) - 10)] if len(c) > 10 else [])} for c in cases[::max(1, len(cases) // 4)]][:5]
        cov = {
            "evaluations": len(cases),
            "distinct_nontrivial": len(nontrivial),
            "rule": "seeded histories (VERIF_SEED) x configs %s + corpus; non-trivial = distinct action list with >= 3 replies and at least one hold restored by the restart" % (configs,),
            "samples": samples,
            "histories_compared_with_model": ncmp,
            "mismatching_histories": len(mism),
            "input_distribution": dict(stats),
            "observed": dict(dist),
            "monitor_hits": {sig: len(l) for sig, l in hits.items()},
            "runtime_s": round(time.time() - t_start, 1),
        }
        return ctx.finish(cov, assumptions=["sequential histories at request/sweep granularity, stopped at a quiescent point (persistence queue drained and flushed)",
                                            "single shard per database; wall clock never steps backwards across the outage"])
    finally:
        shutil.rmtree(tmp, ignore_errors=True)


def replay(ctx, binary, modelrun, tmp):
    r = json.load(open(ctx.replay))
    hist = r["replay"].get("history")
    if not hist:
        print("replay file has no history:", r.get("what"))
        return 1
    o1, o2 = run_go(binary, hist, os.path.join(tmp, "replay"))
    rc = 0
    print("\n".join(hist))
    if o2 is None:
        print("history did not run:", o1.get("rc"), o1.get("stderr")); return 1
    print("census before the stop:"); print("\n".join(o1["holds"]))
    print("census after the restart (wall %s):" % o2["wall"]); print("\n".join(o2["holds"]))
    o3 = o2.get("second")
    if o3 is not None:
        print("replies of the run after the restart:"); print("\n".join(o2["replies2"]))
        print("census at the second stop (db clock %s):" % o2.get("nowend2")); print("\n".join(o2["holds2"]))
        print("census after the second restart (wall %s):" % o3.get("wall")); print("\n".join(o3["holds"]))
    m = None
    if not uses_ms(hist):
        mres, mrc, merr = run_model(modelrun, [model_input(hist, o1, o2)], tmp)
        m = mres.get(hist[0].split()[1])
    hits, d = analyse(hist, o1, o2, m)
    if d:
        print("model and implementation differ:", json.dumps(d)[:1200]); rc = 1
    for sig, desc in hits:
        print("monitor: %s: %s" % (sig, desc)); rc = 1
    return rc
