"""C12 -- election safety: one winner, newest log, numbers never regress.

1. Coq: Properties/C12.vo (model coq/Arbiter/Paxosish.v, order/choice coq/Arbiter/{Vote,Select}.v, proofs
   coq/Arbiter/ArbiterProofs.v, coq/Base/Quorum.v). The property as stated is REFUTED by the faithful model in two
   independent ways (C12_refuted_no_restart, C12_refuted_restart); the guarded theorems are what does hold.
2. Source tie, re-run every time: the real election code of /repo/server/arbiter.go -- ArbiterVoter.DoVote /
   DoProposal / DoCommit / DoRequests, ArbiterMember.DoX, ArbiterClient.Request, the three REPL_* handlers,
   voteSucced, ArbiterStore.Save/Load, ArbiterManager.Load -- is run in-process on 3..5 real ArbiterManager objects
   with the harness as the network (harness/arbiter; injected by `go build -overlay` together with a copy of
   arbiter.go that carries four scheduling hooks, produced from the CURRENT tree by harness/arbiter/patch_arbiter.py).
   The same schedules run on the OCaml extraction of the model; every handler reply, every tally result and the full
   per-member state (proposalId, commitId, proposalHost, proposalFromHost, saved CommitId, proposalIndex, member
   views) after every action are compared.
3. Monitor: the property itself (monotone numbers, at most one overlapping winner, DoVote picks the maximum, newer
   logs refuse) is evaluated on the Go observations; violations are classified by history shape and matched against
   known_findings/C12.json.
"""
import json, os, re, subprocess, sys, time
from tools import vlib

MANIFEST = {
    "property": "C12",
    "theorems": "coq/Properties/C12.v",
    "model": ["coq/Arbiter/Paxosish.v", "coq/Arbiter/Vote.v", "coq/Arbiter/Select.v", "coq/Arbiter/ArbiterProofs.v",
              "coq/Base/Quorum.v"],
    "harness": "harness/arbiter",
    "ocaml": "ocaml/arbiter",
    "engine": "coq",
    "category": "proof",
    "text": "Election model (acceptor handlers, candidate tallies, DoVote choice, CompareAofId, Save/Load restart) proved in "
            "Coq for all schedules; the property as stated is refuted (two winners without restart; two winners with one "
            "restart; proposalId regressions) with witnesses replayed on the Go code; guarded single-winner and "
            "monotonicity theorems hold; CompareAofId is a strict total order inside the wrap window and DoVote picks "
            "the maximum.",
    "note": "partial: protobuf/TCP transport, online/offline detection timing, announcements and the role switch of the "
            "lock engine are outside the model; the tie is a per-run correspondence check on the real arbiter code.",
    "technique": "executable Gallina model + invariant proofs; extraction to OCaml; in-package Go harness driving the real "
                 "candidate and acceptor code with harness-controlled delivery order, loss and restarts; monitor.",
}

VERIF = vlib.VERIF
M64 = 1 << 64
WRAP = 0x7fffffff00000000


# ------------------------------------------------------------------ reference semantics used by the monitor only
def cmp_aof(a, b):
    """CompareAofId on (aid, ctime) pairs -- the monitor's own transcription (server/arbiter.go 2073-2100)."""
    if a == b:
        return 0
    if a[0] > b[0]:
        return -1 if a[0] - b[0] >= WRAP else 1
    if a[0] < b[0]:
        return 1 if b[0] - a[0] >= WRAP else -1
    return 1 if a[1] > b[1] else -1


# ------------------------------------------------------------------ case generation (headers; schedules by `modelrun expand`)
def gen_header(rng, cid):
    n = rng.choice([3, 3, 3, 3, 3, 4, 4, 5, 5, 5])
    kinds = []
    for i in range(n):
        r = rng.random()
        if r < 0.70:
            kinds.append((rng.choice([1, 1, 2, 3]), 0))
        elif r < 0.85:
            kinds.append((0, 0))
        else:
            kinds.append((rng.choice([0, 1]), 1))
    if rng.random() < 0.9 and not any(w > 0 and a == 0 for w, a in kinds):
        kinds[rng.randrange(n)] = (rng.choice([1, 2]), 0)
    far = rng.random() < 0.08
    base = rng.choice([1 << 32, 1 << 32, (7 << 32) | 1234, M64 - (1 << 32), M64 - 3, WRAP - 2, 0])
    logs = []
    for i in range(n):
        if far:
            logs.append((rng.getrandbits(64), rng.randrange(4)))
        else:
            logs.append(((base + rng.choice([0, 0, 0, 1, 2, 1 << 32, 5 << 32, (1 << 32) + 7])) % M64, rng.randrange(3)))
    v = rng.choice([1, 1, 1, 2, 7, 7, 1000, M64 - 2 if rng.random() < 0.3 else 3])
    lines = ["CASE %s" % cid, "N %d" % n]
    for i in range(n):
        cidv = v
        pid = v if rng.random() < 0.7 else (v + rng.choice([1, 2])) % M64
        abst = 1 if rng.random() < 0.03 else 0
        lines.append("M %d %d %d %d %d %d %d %d" % (i, kinds[i][0], kinds[i][1], pid, cidv, logs[i][0], logs[i][1], abst))
    mode = rng.choice("AAAAABBBBC")
    old = rng.randrange(n)
    for i in range(n):
        for j in range(n):
            if mode == "A":
                role = 0
            elif mode == "B":
                role = 1 if j == old else (3 if kinds[j][1] else 2)
            else:
                role = rng.randrange(4)
            online = 1
            if i != j:
                if mode == "B" and j == old:
                    online = 1 if rng.random() < 0.08 else 0
                elif rng.random() < 0.07:
                    online = 0
            r = rng.random()
            if r < 0.45:
                va = (0, 0)
            elif r < 0.93:
                va = logs[j]
            else:
                va = ((logs[j][0] + rng.choice([1, M64 - 1, 1 << 32, M64 - (1 << 32)])) % M64, rng.randrange(3))
            lines.append("V %d %d %d %d %d %d" % (i, j, role, online, va[0], va[1]))
    ncand = rng.choice([2, 2, 2, 3])
    pool = [i for i in range(n) if not (mode == "B" and i == old)] or list(range(n))
    rng.shuffle(pool)
    cands = pool[:ncand] if len(pool) >= ncand else pool
    lines.append("G %d %d %d %d %d %d %s" % (rng.getrandbits(30), rng.choice([50, 80, 120]), rng.choice([0, 0, 10, 30]),
                                              rng.choice([0, 0, 0, 3, 8]), rng.choice([0, 30, 70]), rng.choice([1, 2, 3]),
                                              " ".join(map(str, cands))))
    lines.append("END")
    return "\n".join(lines) + "\n"


def split_cases(text):
    cases, cur = [], None
    for l in text.splitlines():
        if l.startswith("CASE "):
            cur = [l]
        elif cur is not None:
            cur.append(l)
            if l == "END":
                cases.append("\n".join(cur) + "\n")
                cur = None
    return cases


def parse_out(text):
    res, cur, cid = {}, None, None
    for l in text.splitlines():
        if l.startswith("CASE "):
            cid, cur = l[5:], []
        elif l == "END":
            if cid is not None:
                res[cid] = cur
            cid, cur = None, None
        elif cur is not None:
            cur.append(l)
    return res


# ------------------------------------------------------------------ monitor: the property on implementation traces
class Case:
    def __init__(self, text):
        self.text = text
        self.actions = []
        self.members = {}
        self.online = {}
        for l in text.splitlines():
            f = l.split()
            if not f:
                continue
            if f[0] == "CASE":
                self.id = f[1]
            elif f[0] == "N":
                self.n = int(f[1])
            elif f[0] == "M":
                self.members[int(f[1])] = dict(weight=int(f[2]), arbiter=int(f[3]), pid=int(f[4]), cid=int(f[5]),
                                               log=(int(f[6]), int(f[7])), abst=f[8] != "0")
            elif f[0] == "V":
                self.online[(int(f[1]), int(f[2]))] = f[4] != "0"
            elif f[0] == "A":
                self.actions.append(f[1:])


def parse_line(l):
    m = re.match(r"E (\d+) (.*?) \| (.*)$", l)
    if not m:
        return None
    evs = [e.split() for e in m.group(2).split(" + ")]
    nodes = []
    for part in m.group(3).split(";"):
        f = part.split(",")
        nodes.append(dict(pid=int(f[0]), cid=int(f[1]), host=int(f[2]), frm=int(f[3]), saved=int(f[4]), pidx=int(f[5]), views=f[6]))
    return evs, nodes


def monitor(case, lines):
    """returns (violations [(sig, what)], stats dict)"""
    viol, stats = [], dict(wins=0, votes_checked=0, votes_skipped=0, accepts_checked=0, sequential_double_wins=0, codes={})
    n = case.n
    prev = [dict(pid=case.members[i]["pid"], cid=case.members[i]["cid"]) for i in range(n)]
    sent = []                       # (from, to, serial)
    serial = {}                     # candidate -> current phase serial
    phase = {}                      # candidate -> 'V'/'P'/'C' or None
    resolved = {}                   # candidate -> set of members
    votes = {}                      # candidate -> {member: (host, weight, arbiter, aof)}
    vaof = {}                       # candidate -> aof chosen by its last successful vote
    paof = {}                       # candidate -> aof carried by the requests of its current phase
    start_v = {}                    # candidate -> step index of the start of the current candidacy
    winners = []                    # (c, idx, host, t_start, t_win)
    commits = {}                    # member -> [(t, candidate)]
    history = []                    # (t, action, events)
    ser = 0
    for t, l in enumerate(lines):
        p = parse_line(l)
        if p is None or t >= len(case.actions):
            viol.append(("trace:unparsable", "cannot parse observation line %d: %r" % (t, l)))
            break
        evs, nodes = p
        act = case.actions[t]
        history.append((t, act, evs))
        live_target = None
        x = None
        if act[0] in ("DEL", "DELI"):
            if act[0] == "DEL":
                for s in sent:
                    if s[0] == int(act[1]) and s[1] == int(act[2]):
                        x = s
                lost = act[3] != "0"
            else:
                i = int(act[1])
                x = sent[i] if i < len(sent) else None
                lost = act[2] != "0"
            if x is not None:
                c, m, sr, _ = x
                if phase.get(c) and serial.get(c) == sr and m not in resolved[c]:
                    resolved[c].add(m)
                    if not lost:
                        live_target = (c, m)
        for e in evs:
            if e[0] == "start":
                c, k = int(e[1]), e[2]
                ser += 1
                serial[c], phase[c], resolved[c] = ser, k, set()
                for m in range(n):
                    if m != c and case.online.get((c, m), True):
                        sent.append((c, m, ser, vaof.get(c)))     # the proposal carries the aof chosen by the preceding vote
                paof[c] = vaof.get(c)
                if k == "V":
                    votes[c] = {}
                    start_v[c] = t
            elif e[0] == "self":
                c, k = int(e[1]), e[2]
                if k == "V" and e[3] == "vote":
                    mm = case.members[c]
                    votes.setdefault(c, {})[c] = (c, mm["weight"], mm["arbiter"], mm["log"])
                if k == "C" and e[3] == "ok":
                    commits.setdefault(c, []).append((t, c))
                if k == "P" and e[3] == "ok":
                    check_accept(case, c, paof.get(c), viol, stats, t)
                if e[3] == "err":
                    stats["codes"]["self:%s:%s" % (k, e[4])] = stats["codes"].get("self:%s:%s" % (k, e[4]), 0) + 1
            elif e[0] == "reply":
                c, m, k = int(e[1]), int(e[2]), e[3]
                key = "%s:%s" % (k, e[4] if e[4] != "err" else "err%s" % e[5])
                stats["codes"][key] = stats["codes"].get(key, 0) + 1
                if k == "V" and e[4] == "vote" and live_target == (c, m):
                    votes.setdefault(c, {})[m] = (int(e[5]), int(e[6]), int(e[7]), (int(e[8]), int(e[9])))
                if k == "C" and e[4] == "ok":
                    commits.setdefault(m, []).append((t, c))
                if k == "P" and e[4] == "ok":
                    # the proposal that was accepted is the one carried by the (possibly stale) message
                    check_accept(case, m, x[3] if x is not None else None, viol, stats, t)
            elif e[0] == "voted":
                c, ok = int(e[1]), e[2] == "1"
                phase[c] = None
                if ok:
                    h = int(e[3])
                    vs = votes.get(c, {})
                    chosen = [v for v in vs.values() if v[0] == h]
                    if not chosen:
                        stats["votes_skipped"] += 1
                        vaof[c] = None
                    else:
                        ch = chosen[0]
                        vaof[c] = ch[3]
                        stats["votes_checked"] += 1
                        if ch[2] != 0 or ch[1] == 0:
                            viol.append(("dovote-ineligible-chosen", "step %d: candidate %d proposes member %d which is an arbiter or has weight 0" % (t, c, h)))
                        for v in vs.values():
                            if v[2] != 0 or v[1] == 0 or v[0] == h:
                                continue
                            cv = cmp_aof(v[3], ch[3])
                            better = cv > 0 or (cv == 0 and (v[1] > ch[1] or (v[1] == ch[1] and v[0] > ch[0])))
                            # only meaningful when the order is not cyclic on the responders: require antisymmetric pairwise agreement
                            if better and in_window([x[3] for x in vs.values() if x[2] == 0 and x[1] != 0]):
                                viol.append(("dovote-not-maximum", "step %d: candidate %d proposes %d although responder %d ranks higher" % (t, c, h, v[0])))
            elif e[0] == "proposed":
                phase[int(e[1])] = None
            elif e[0] == "win":
                c = int(e[1])
                phase[c] = None
                winners.append((c, int(e[2]), int(e[3]), start_v.get(c, 0), t))
            elif e[0] == "cfail":
                phase[int(e[1])] = None
            elif e[0] == "rst":
                m = int(e[1])
                phase[m] = None
                votes.pop(m, None)
                vaof.pop(m, None)
        # monotone numbers
        for k in range(n):
            for fld in ("pid", "cid"):
                if nodes[k][fld] < prev[k][fld]:
                    names = [e[0] + (e[1] if len(e) > 1 else "") for e in evs]
                    if act[0] == "RST" and int(act[1]) == k:
                        cause = "restart"
                    elif fld == "pid" and any(e[0] == "proposed" and int(e[1]) == k and e[2] == "1" for e in evs):
                        cause = "own-proposal-tally"
                    elif fld == "cid" and any(e[0] == "win" and int(e[1]) == k for e in evs):
                        cause = "own-commit-tally"
                    else:
                        cause = "unexplained:" + act[0]
                    viol.append(("%s-decrease:%s" % (fld, cause),
                                 "step %d (%s): %s of member %d goes %d -> %d" % (t, " ".join(act), "proposalId" if fld == "pid" else "commitId", k, prev[k][fld], nodes[k][fld])))
            prev[k] = dict(pid=nodes[k]["pid"], cid=nodes[k]["cid"])
    stats["wins"] = len(winners)
    # at most one winner
    for i in range(len(winners)):
        for j in range(i + 1, len(winners)):
            w1, w2 = winners[i], winners[j]
            shapes = set()
            common = 0
            for m, cl in commits.items():
                t1 = [t for (t, c) in cl if c == w1[0] and t <= w1[4] and t >= w1[3]]
                t2 = [t for (t, c) in cl if c == w2[0] and t <= w2[4] and t >= w2[3]]
                if not t1 or not t2 or (w1[0] == w2[0] and t1[-1] == t2[-1]):
                    continue
                common += 1
                a, b = sorted((t1[-1], t2[-1]))
                found = False
                for (t, act, evs) in history:
                    if t <= a or t >= b:
                        continue
                    for e in evs:
                        if e[0] == "rst" and int(e[1]) == m:
                            shapes.add("restart-between-commit-and-announce"); found = True
                        if e[0] == "proposed" and int(e[1]) == m and e[2] == "1":
                            shapes.add("own-proposal-tally-overrides-commit-lock"); found = True
                        if e[0] == "cfail" and int(e[1]) == m:
                            shapes.add("own-commit-failure-clears-commit-lock"); found = True
                        if e[0] == "succ" and int(e[1]) == m:
                            shapes.add("vote-succed-clears-commit-lock"); found = True
                if not found:
                    shapes.add("unexplained")
            if common == 0:
                shapes.add("no-common-acceptor")
            overlap = w2[3] <= w1[4]
            if not overlap and "restart-between-commit-and-announce" not in shapes:
                stats["sequential_double_wins"] += 1
                continue
            viol.append(("two-winners:" + "+".join(sorted(shapes)),
                         "candidate %d wins with number %d for leader %d (steps %d-%d) and candidate %d wins with number %d for leader %d (steps %d-%d)"
                         % (w1[0], w1[1], w1[2], w1[3], w1[4], w2[0], w2[1], w2[2], w2[3], w2[4])))
    return viol, stats


def in_window(aofs):
    """the ids fit into one wrap window: some origin o puts all (aid - o) mod 2^64 below WRAP"""
    for o in [a[0] for a in aofs]:
        if all(((a[0] - o) % M64) < WRAP for a in aofs):
            return True
    return not aofs


def check_accept(case, m, aof, viol, stats, t):
    if aof is None:
        return
    mm = case.members[m]
    if mm["arbiter"] == 0 and not mm["abst"]:
        stats["accepts_checked"] += 1
        if cmp_aof(mm["log"], aof) > 0:
            viol.append(("newer-log-accepted", "step %d: member %d accepts a proposal whose log position %s is older than its own %s" % (t, m, aof, mm["log"])))


# ------------------------------------------------------------------ running both sides
class Runner:
    def __init__(self, ctx, impl, model):
        self.ctx, self.impl, self.model = ctx, impl, model
        self.scratch = os.path.join(vlib.BUILD, "c12", "scratch-%d" % os.getpid())
        os.makedirs(self.scratch, exist_ok=True)

    def run_model(self, text, mode="run"):
        p = subprocess.run([self.model, mode], input=text.encode(), stdout=subprocess.PIPE, stderr=subprocess.PIPE, timeout=900)
        if p.returncode != 0:
            raise RuntimeError("modelrun failed: " + p.stderr.decode()[-2000:])
        return p.stdout.decode()

    def run_impl(self, text, mode="run", timeout=900):
        args = [self.impl, mode] + ([self.scratch] if mode == "run" else [])
        try:
            p = subprocess.run(args, input=text.encode(), stdout=subprocess.PIPE, stderr=subprocess.PIPE, timeout=timeout)
        except subprocess.TimeoutExpired as ex:
            return (ex.stdout or b"").decode(), "timeout"
        return p.stdout.decode(), ("" if p.returncode == 0 else "exit %d: %s" % (p.returncode, p.stderr.decode()[-1500:]))


def shrink(runner, case_text, sig):
    """greedy removal of actions keeping the same monitor signature on the implementation"""
    lines = case_text.splitlines()
    head = [l for l in lines if not l.startswith("A ") and l != "END"]
    acts = [l for l in lines if l.startswith("A ")]

    def still(acts2):
        txt = "\n".join(head + acts2 + ["END"]) + "\n"
        out, err = runner.run_impl(txt, timeout=60)
        if err:
            return False
        po = parse_out(out)
        c = Case(txt)
        if c.id not in po:
            return False
        v, _ = monitor(c, po[c.id])
        return any(s == sig for s, _ in v)
    budget = 150
    i = 0
    while i < len(acts) and budget > 0:
        trial = acts[:i] + acts[i + 1:]
        budget -= 1
        if still(trial):
            acts = trial
        else:
            i += 1
    return "\n".join(head + acts + ["END"]) + "\n"


def patched_arbiter(ctx):
    sys.path.insert(0, os.path.join(VERIF, "harness", "arbiter"))
    import patch_arbiter
    src = open(os.path.join(vlib.REPO, "server", "arbiter.go")).read()
    out = os.path.join(vlib.BUILD, "c12", "arbiter_patched.go")
    os.makedirs(os.path.dirname(out), exist_ok=True)
    try:
        vlib.write_if_changed(out, patch_arbiter.patch(src))
    except SystemExit as e:
        raise vlib.BuildError(str(e))
    return os.path.relpath(out, VERIF)


def run(ctx):
    t0 = time.time()
    thorough = ctx.tier == "thorough"
    # ---- 1. proofs
    ok, log = ctx.coq(["Properties/C12.vo"])
    names = re.findall(r"^Theorem (C12_\w+)", open(os.path.join(vlib.COQ, "Properties", "C12.v")).read(), flags=re.M)
    for nm in names:
        ctx.obligation(nm, ok and nm in ctx.assumption_report, "" if ok else getattr(ctx, "coq_failure", "")[:300])
    coq_s = round(getattr(ctx, "coq_time", 0), 1)
    if thorough and ok:
        okc, outc = ctx.coqchk(["Slock.Properties.C12"])
        ctx.obligation("coqchk -o Slock.Properties.C12 (axioms: none)", okc and "Axioms: <none>" in outc, "" if okc else outc[-600:])
    # ---- 2. builds from the current tree
    rel = patched_arbiter(ctx)
    impl = ctx.go_build("arbiterh", os.path.join(VERIF, "harness", "arbiter"),
                        overlay={"server/arbiter.go": rel, "server/zz_verif_arbiter.go": "harness/arbiter/inj/zz_verif_arbiter.go"})
    model = ctx.ocaml_model("arbiter")
    runner = Runner(ctx, impl, model)
    ctx.obligation("harness builds against /repo's working tree (4 scheduling hooks inserted into a copy of arbiter.go)", True)

    mismatches, all_viol = [], []
    stats_total = dict(cases=0, actions=0, wins0=0, wins1=0, wins2=0, votes_checked=0, votes_skipped=0, accepts_checked=0,
                       sequential_double_wins=0, restarts=0, n={}, codes={}, shapes=set())

    def do_batch(text, label):
        mout = runner.run_model(text)
        iout, err = runner.run_impl(text)
        pm, pi = parse_out(mout), parse_out(iout)
        for ctext in split_cases(text):
            c = Case(ctext)
            stats_total["cases"] += 1
            stats_total["actions"] += len(c.actions)
            stats_total["n"][c.n] = stats_total["n"].get(c.n, 0) + 1
            stats_total["restarts"] += sum(1 for a in c.actions if a[0] == "RST")
            li, lm = pi.get(c.id), pm.get(c.id)
            if li is None:
                mismatches.append((c, "implementation produced no complete trace (%s)" % (err or "missing")))
                continue
            if li != lm:
                k = next((k for k in range(min(len(li), len(lm or []))) if li[k] != lm[k]), min(len(li), len(lm or [])))
                mismatches.append((c, "first difference at step %d: impl %r model %r" % (k, li[k] if k < len(li) else None, (lm or [None] * (k + 1))[k] if lm and k < len(lm) else None)))
            v, st = monitor(c, li)
            stats_total["wins%d" % min(st["wins"], 2)] += 1
            for f in ("votes_checked", "votes_skipped", "accepts_checked", "sequential_double_wins"):
                stats_total[f] += st[f]
            for k, x in st["codes"].items():
                stats_total["codes"][k] = stats_total["codes"].get(k, 0) + x
            stats_total["shapes"].add(" ".join(sorted(set(e for l in li for e in re.findall(r"(?:reply \d+ \d+|self \d+) (\w (?:ok|vote|voteerr|err \d+))", l)))))
            for sig, what in v:
                all_viol.append((c, sig, what))
        if err:
            mismatches.append((None, "harness error in batch %s: %s" % (label, err)))

    # ---- 3. replay / corpus / generated cases
    if getattr(ctx, "replay", None):
        rp = json.load(open(ctx.replay))
        text = rp.get("replay", {}).get("case") or rp.get("case")
        if not text:
            print("replay file has no case")
            return 2
        do_batch(text, "replay")
    else:
        cdir = os.path.join(VERIF, "corpus", "C12")
        corpus = "".join(open(os.path.join(cdir, f)).read() for f in sorted(os.listdir(cdir)) if f.endswith(".case"))
        do_batch(corpus, "corpus")
        ncases = 40000 if thorough else 2000
        per = 500
        done = 0
        while done < ncases:
            k = min(per, ncases - done)
            tmpl = "".join(gen_header(ctx.rng, "g%d" % (done + i)) for i in range(k))
            text = runner.run_model(tmpl, "expand")
            do_batch(text, "gen%d" % done)
            done += k
            if time.time() - t0 > (1500 if thorough else 50) and done >= (ncases // 4):
                ctx.notes.append("time budget reached after %d generated cases" % done)
                break
        # CompareAofId + byte layout on random pairs
        pairs = []
        for i in range(20000 if thorough else 3000):
            a = ctx.rng.getrandbits(64) if ctx.rng.random() < 0.5 else ctx.rng.choice([0, 1, WRAP - 1, WRAP, WRAP + 1, M64 - 1, 1 << 32])
            d = ctx.rng.choice([0, 1, WRAP - 1, WRAP, WRAP + 1, ctx.rng.getrandbits(64), ctx.rng.getrandbits(20)])
            b = (a + d) % M64
            pairs.append("%d %d %d %d" % (a, ctx.rng.randrange(3), b, ctx.rng.randrange(3)))
        ptxt = "\n".join(pairs) + "\n"
        mo = runner.run_model(ptxt, "cmp")
        io, err = runner.run_impl(ptxt, "cmp")
        stats_total["compare_pairs"] = len(pairs)
        if err or mo != io:
            bad = next((pairs[k] for k, (x, y) in enumerate(zip(mo.splitlines(), io.splitlines())) if x != y), "?")
            mismatches.append((None, "CompareAofId / byte layout differs on pair %s %s" % (bad, err)))
        # the monitor's own transcription agrees too
        for k, l in enumerate(io.splitlines()):
            f = pairs[k].split()
            if int(l.split()[0]) != cmp_aof((int(f[0]), int(f[1])), (int(f[2]), int(f[3]))):
                mismatches.append((None, "monitor CompareAofId differs from the implementation on %s" % pairs[k]))
                break

    # ---- 4. verdicts
    seen = set()
    for c, sig, what in all_viol:
        if sig in seen:
            continue
        seen.add(sig)
        known = any(k.get("status") == "known" and re.fullmatch(k["match"], sig) for k in ctx.known)
        text = c.text
        if not known:
            try:
                text = shrink(runner, c.text, sig)
            except Exception as ex:
                ctx.notes.append("shrink failed: %s" % ex)
        ctx.violation(sig, what, {"case": text, "how": "python3 tools/check.py C12 --replay <this file>  (or: build/arbiterh run <dir> < case)"}, found_input=True)
    if not ok:
        ctx.violation("proof:C12", "Properties/C12.v no longer checks: " + getattr(ctx, "coq_failure", "")[:500],
                      {"broken": "coq", "theorems": names, "detail": getattr(ctx, "coq_failure", "")[:3000]}, found_input=False)
    if mismatches:
        unexplained = [m for m in mismatches]
        c, why = unexplained[0]
        ctx.obligation("model and implementation agree on every generated schedule", False, "%d mismatching cases; first: %s" % (len(mismatches), why[:400]))
        ctx.violation("correspondence:arbiter", "model and implementation disagree (%d cases); first: %s" % (len(mismatches), why[:600]),
                      {"broken": "correspondence Paxosish.v <-> server/arbiter.go", "case": c.text if c else None, "detail": why}, found_input=False)
    else:
        ctx.obligation("model and implementation agree on every generated schedule", True)
    ctx.trusted += [
        "hand-written model coq/Arbiter/Paxosish.v tied to server/arbiter.go only by this correspondence check (no translator)",
        "harness/arbiter/patch_arbiter.py: 3 scheduling gates + 1 completion signal inserted into a build-time copy of arbiter.go",
        "harness stubs: isClosing=true (updateStatus no-op), announcement requests fail, member status fixed per case, "
        "log position re-installed after Load (comes from the AOF in production)",
        "extraction: ExtrOcamlBasic only; ocaml/arbiter/driver.ml (parser, printer, schedule generator)",
        "not modelled: protobuf/TCP transport, online/offline detection and its memberStatusUpdated side effects, "
        "announcement handler, membership changes, QuitLeader/QuitMember, replication role switch",
    ]
    cov = {
        "evaluations": stats_total["cases"] + stats_total.get("compare_pairs", 0),
        "distinct_nontrivial": len(stats_total["shapes"]),
        "rule": "distinct sets of (handler kind, reply code) exercised within one case; a case is one schedule on one cluster",
        "samples": [c.id for c, _, _ in all_viol[:5]] or ["g0"],
        "cases": stats_total["cases"], "actions": stats_total["actions"], "cluster_sizes": stats_total["n"],
        "restarts_injected": stats_total["restarts"],
        "cases_by_winners": {"0": stats_total["wins0"], "1": stats_total["wins1"], ">=2": stats_total["wins2"]},
        "sequential_double_wins_not_flagged": stats_total["sequential_double_wins"],
        "dovote_choices_checked": stats_total["votes_checked"], "dovote_choices_skipped": stats_total["votes_skipped"],
        "proposal_accepts_checked_for_newer_log": stats_total["accepts_checked"],
        "reply_codes": dict(sorted(stats_total["codes"].items())),
        "compare_pairs": stats_total.get("compare_pairs", 0),
        "mismatches": len(mismatches),
        "violation_signatures": sorted(seen),
        "coq_seconds": coq_s,
    }
    return ctx.finish(cov, assumptions=[
        "atomicity: one handler execution / one tally is one step (they run under ArbiterVoter.glock or in one goroutine); "
        "the data races of arbiter.go on proposalId/proposalHost outside glock are not exhibited",
        "no announcement, offline event or membership change between the overlapping candidacies (quantifier of C12)",
    ])
