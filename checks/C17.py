"""C17 — reported counts exact; everything reclaimed (DESIGN.md section 5 C17)."""
from checks import _engine

MANIFEST = dict(
    technique="Coq proof over the executable engine model (induction over action lists / invariants) + differential correspondence check model vs real LockDB",
    text='Theorems in coq/Properties/C17*.v are machine-checked over the engine model for every core history (any length below 2^24): the three STATE counters equal the census (LockedCount = sum of the locked counters of the keys, which is the sum of outstanding depths by C01_global; WaitCount = live queued requests; KeyCount = key managers), the reference count of every record and of every manager equals the number of structures referring to it, no wheel / table / queue refers to a freed record, every manager has a record, and once every record is freed all counters, wheels, tables and the key table are empty (C17_drained_complete); the LCount / LRCount equals the locked counter of the key / the depth of the addressed hold of the state in which the critical section ends (C17_reply.v); the same statements are refuted outside the core subset by the re-entrant ack re-lock witness; tie = differential correspondence comparing STATE counters, per-record reference counts, manager reference counts and queue contents after every action and after the drain phase; monitor = census vs counters on implementation snapshots, zero after drain, no freed record reachable.',
    note="Trusted: Coq kernel; hand-written model validated by the correspondence check of the same run; extraction (ExtrOcamlBasic only); harness + hooks; sequential schedules at request/sweep granularity, one shard, manual clock (sweeper driver loops replayed by the harness); see evidence trusted_base for the full list of modelled-not-verified parts.",
)
PROFILES = [("core", 0.25), ("waiters", 0.15), ("timeouts", 0.12), ("expiry", 0.12), ("reentrant", 0.1), ("aof", 0.08), ("keys", 0.08), ("sched", 0.08), ("many", 0.02), ("schedsweep", 0.15)]
MONITORS = ['C17', 'PANIC']


def realtime(ctx, run):
    """millisecond wheels run on the wall clock and are not modelled: checked on the implementation in real time"""
    from tools import engine_rt
    res, txt = engine_rt.run(run.impl, which=("C17",))
    ctx.notes.append("real-time millisecond scenario: %d reply lines" % txt.count("rt reply"))
    return res


def recycled_managers(rng, cid0):
    """'the keys' values are gone': keys that collide in one fast slot of the key table (slow-path managers, pooled in a
    free ring when removed) each get a value, are drained and removed by the sweepers; then a run of fresh colliding
    keys is served by the pooled manager objects: their first replies must not show any value."""
    from checks import C15_data
    cases = []
    for j in range(3):
        base = rng.choice([3, 7, 11])
        lines = ["case %d 1000000 %d %d" % (cid0 + j, rng.choice([0, 1]), rng.choice([0, 1]))]
        rid = 600000 + 1000 * j
        n1 = rng.choice([3, 5, 9])
        for i in range(n1):                      # base key first, then colliding keys (slow path) with values
            key = base + 64 * i
            data = "x" + C15_data.f_set(b"v%d" % i).hex()
            lines.append("req 1 L %d 32 %d %d 0 0 0 %d 0 0 %s" % (rid, 800 + i, key, rng.choice([2, 3, 5]), data)); rid += 1
        order = list(range(n1)); rng.shuffle(order)
        for i in order[:rng.randrange(0, n1)]:  # some released explicitly, the others expire
            lines.append("req 1 U %d 0 %d %d 0 0 0 0 0 0 -" % (rid, 800 + i, base + 64 * i)); rid += 1
        for _ in range(8):
            lines += ["adv 1", "sweept", "sweepe"]
        lines += ["adv 20", "sweept", "sweepe", "adv 1", "sweept", "sweepe"]
        for i in range(n1, n1 + 14):             # fresh colliding keys: the pooled managers come back
            key = base + 64 * i
            lines.append("req 2 L %d 0 %d %d 0 0 0 2 0 0 -" % (rid, 900 + i, key)); rid += 1
            if i % 3 == 0:
                lines.append("req 2 U %d 0 %d %d 0 0 0 0 0 0 -" % (rid, 900 + i, key)); rid += 1
        lines.append("adv 0")
        lines.append("role 1")
        for _ in range(6):
            lines += ["adv 1", "sweept", "sweepe"]
        lines += ["adv 30", "sweept", "sweepe", "adv 1", "sweept", "sweepe"]
        lines.append("end")
        cases.append(lines)
    return cases


def run(ctx):
    if getattr(ctx, "replay", None):
        return _engine.replay(ctx, 'C17', MONITORS)
    return _engine.run_engine_check(ctx, 'C17', PROFILES, MONITORS, n_quick=500, n_thorough=20000, impl_only=realtime,
                                    extra_cases=recycled_managers)
