"""C17 — reported counts exact; everything reclaimed (DESIGN.md section 5 C17)."""
from checks import _engine

MANIFEST = dict(
    technique="Coq proof over the executable engine model (induction over action lists / invariants) + differential correspondence check model vs real LockDB",
    text='Theorems in coq/Properties/C17*.v (locked = sum of outstanding depths, reference-count / reachability invariant, counters, drain) are machine-checked over the engine model for every core history; tie = differential correspondence comparing STATE counters, per-record reference counts, manager reference counts and queue contents after every action and after the drain phase; monitor = census vs counters on implementation snapshots, zero after drain, no freed record reachable.',
    note="Trusted: Coq kernel; hand-written model validated by the correspondence check of the same run; extraction (ExtrOcamlBasic only); harness + hooks; sequential schedules at request/sweep granularity, one shard, manual clock (sweeper driver loops replayed by the harness); see evidence trusted_base for the full list of modelled-not-verified parts.",
)
PROFILES = [("core", 0.25), ("waiters", 0.15), ("timeouts", 0.12), ("expiry", 0.12), ("reentrant", 0.1), ("aof", 0.08), ("keys", 0.08), ("sched", 0.08), ("many", 0.02)]
MONITORS = ['C17', 'PANIC']


def realtime(ctx, run):
    """millisecond wheels run on the wall clock and are not modelled: checked on the implementation in real time"""
    from tools import engine_rt
    res, txt = engine_rt.run(run.impl, which=("C17",))
    ctx.notes.append("real-time millisecond scenario: %d reply lines" % txt.count("rt reply"))
    return res


def run(ctx):
    if getattr(ctx, "replay", None):
        return _engine.replay(ctx, 'C17', MONITORS)
    return _engine.run_engine_check(ctx, 'C17', PROFILES, MONITORS, n_quick=500, n_thorough=20000, impl_only=realtime)
