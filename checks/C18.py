"""C18 -- disconnect semantics: wills run once, nothing leaks or misroutes.

1. Coq: Properties/C18.vo (model coq/Conn/Conn.v on top of the engine model coq/Engine/*.v; proofs coq/Conn/ConnProofs.v).
   The model carries five source-derived switches (text will-lock / will-unlock type rewrite, closed-result
   self-forward guard, closed guard of the text result path, proxy target assigned only on a successful AddProxy); they
   are recomputed from server/protocol.go on every run (`derive_flags`), handed to the extracted model and named in the
   evidence.  The theorems are stated for every value of the switches.
2. Source tie, re-run every time: REAL Server.handle goroutines (checkProtocol -> BinaryServerProtocol /
   TextServerProtocol .Process -> Close) over in-memory net.Conn pairs, one real LockDB with the manual clock
   (harness/conn, injected in package server by go build -overlay).  Seeded connection lifetimes (0..6 wills -- ordinary ones
   mixed with wills naming a database that does not exist or DbId 0xff --, holds and queued requests left behind, close
   by client / protocol error / server, reconnect under the same or another client id, several reconnect generations of
   one client id whose wills wake the queued requests of older generations while the younger one is being torn down,
   re-INIT, binary and text, timeouts and expiries swept before and after the close) run on the Go code and on the OCaml
   extraction of Conn.v; every frame received by every connection, the engine census (counters, holders, waiters with
   owner and request id), the per-connection state (open, inited, client id, will queue length, proxy target, text
   lockWaiter occupancy) and the clients table are compared after every action.
3. Monitor = the property statement evaluated on the Go observations only: will effects exactly at the close action
   (the registered wills -- ordinary ones and ones naming a missing database, which fail -- replayed one by one, in
   registration order, against the census taken before the Close with the plain exclusive-lock semantics: the holders
   and the grant / unlock / unlock-error / timeout counters after the Close must be exactly the predicted ones, so a
   skipped, repeated or reordered will shows; answers of the wills forwarded to a connection that took the client id
   over: one per will, in order; nothing earlier), holds of the closed connection stay until unlocked/expired, every
   frame is received by the issuer of its RequestId or by a connection that registered the client id the issuer had
   announced, every reply that falls due (a queued request leaves the wait queue) is delivered -- to its open owner, or,
   the owner being closed, to a connection of the same client id -- and is lost only when no open connection currently
   announces that id, the census and the session table drain to zero, Close terminates.
4. Interleavings inside one action (corpus/C18/*.race, harness action `raceclose <conn> <yield point> <action>`: <conn> ends
   at the moment a goroutine passes the yield point): beyond the model's step granularity, run on the Go code and judged
   by the monitor only.  The one yield point used (13, between AddProxy and the assignment of the proxy target) is in
   /repo/server/protocol.go since b07a861 (= proposed_fixes/c18_proxy_adopt_yield_point.diff); on a tree without it the
   scenarios run without the interleaving.
"""
import collections, glob, json, os, re, shutil, subprocess, sys, tempfile, time
from tools import vlib

MANIFEST = {
    "property": "C18",
    "theorems": "coq/Properties/C18.v",
    "model": ["coq/Conn/Conn.v", "coq/Conn/ConnProofs.v", "coq/Engine/Engine2.v"],
    "harness": "harness/conn",
    "ocaml": "ocaml/conn",
    "engine": "coq",
    "category": "proof",
    "text": "Connection layer (will queues, Close, INIT/clients table, proxy re-routing, text lockWaiter) modelled on top "
            "of the lock-engine model and proved for all action lists: wills (also ones that fail because their database "
            "does not exist) once each, in order, at Close only; over all runs from the initial state a proxy is only "
            "ever attached to an open connection that announced its client id, every frame goes to its requester or to a "
            "connection of the same client id, a reply for a closed connection is delivered whenever a connection is "
            "registered under its id.  The property as stated is refuted by the faithful model (text wills never run; a "
            "replying will of an INITed binary connection recurses without bound; replies of connections that never sent "
            "INIT go to whoever registered the all-zero client id; the registration of a client id is erased when its "
            "youngest connection ends although an older one still announces it) with witnesses replayed on the Go code; "
            "the guarded theorems are what does hold.  Connection kinds outside the model (sessions nested by the binary ADMIN "
            "command; connections accepted by a follower that is promoted before they end) are decided by the sub-check "
            "checks/C18_wills.py: fixed scenarios on real slock processes with the will clause of the property as oracle "
            "(runtime check, no theorem; it found the two defects repaired by 47839ae and e3b701d).",
    "note": "partial: goroutine interleaving of Close with asynchronous replies only at step granularity; TCP and the "
            "stream buffers are replaced by an in-memory net.Conn; the tie is a per-run correspondence check.",
    "technique": "executable Gallina model + induction over action lists; extraction to OCaml; in-package Go harness driving "
                 "real Server.handle goroutines; monitor.",
}

VERIF = vlib.VERIF
FLAGS = ("fix_will_lock", "fix_will_unlock", "fix_closed_rec", "fix_text_closed", "chk_addproxy")
T0 = 1000000
TEXTREQ = 1000000


# ------------------------------------------------------------------ source-derived model switches
def func_body(src, recv, name):
    m = re.search(r"^func \(self \*%s\) %s\(.*?^}\n" % (recv, name), src, flags=re.S | re.M)
    return m.group(0) if m else None


def derive_flags(repo):
    """returns (flags dict, problems list)"""
    src = open(os.path.join(repo, "server", "protocol.go")).read()
    problems = []
    flags = {}
    for key, fn, will, plain in (("fix_will_lock", "commandHandlerLock", "COMMAND_WILL_LOCK", "COMMAND_LOCK"),
                                 ("fix_will_unlock", "commandHandlerUnlock", "COMMAND_WILL_UNLOCK", "COMMAND_UNLOCK")):
        b = func_body(src, "TextServerProtocol", fn)
        if b is None:
            problems.append("TextServerProtocol.%s not found" % fn)
            flags[key] = False
            continue
        m = re.search(r"if lockCommand\.CommandType == protocol\.%s \{(.*?)self\.willCommands\.Push\(lockCommand\)" % will, b, flags=re.S)
        if not m:
            problems.append("%s: will registration block not recognised" % fn)
            flags[key] = False
            continue
        flags[key] = re.search(r"lockCommand\.CommandType\s*=\s*protocol\.%s\b" % plain, m.group(1)) is not None
    b = func_body(src, "BinaryServerProtocol", "ProcessLockResultCommand")
    if b is None:
        problems.append("BinaryServerProtocol.ProcessLockResultCommand not found")
        flags["fix_closed_rec"] = False
    else:
        m = re.search(r"if self\.closed \{(.*?)\n\t\}\n", b, flags=re.S)
        if not m or "self.slock.clients[self.proxys[0].clientId]" not in m.group(1):
            problems.append("ProcessLockResultCommand: closed branch not recognised")
            flags["fix_closed_rec"] = False
        else:
            flags["fix_closed_rec"] = re.search(r"serverProtocol\s*(!=|==)\s*(ServerProtocol\()?self\b", m.group(1)) is not None
    b = func_body(src, "TextServerProtocol", "ProcessLockResultCommand")
    if b is None or "self.lockWaiter <-" not in b:
        problems.append("TextServerProtocol.ProcessLockResultCommand not recognised")
        flags["fix_text_closed"] = False
    else:
        flags["fix_text_closed"] = re.search(r"if self\.closed \{\s*return", b[:b.index("self.lockWaiter <-")]) is not None
    # the proxy is re-pointed to clients[clientId] only when that connection accepted it: either the assignment in
    # ProxyServerProtocol.ProcessLockResultCommandLocked is guarded by the AddProxy result, or (c18_proxy_adopt_atomic.diff)
    # AddProxy itself assigns the target after its closed check, under the adopter's mutex, and nothing is assigned outside
    b = func_body(src, "ProxyServerProtocol", "ProcessLockResultCommandLocked")
    if b is None or "serverProtocol.AddProxy(self)" not in b:
        problems.append("ProxyServerProtocol.ProcessLockResultCommandLocked: adoption of the proxy not recognised")
        flags["chk_addproxy"] = False
    elif "self.serverProtocol = serverProtocol" in b:
        flags["chk_addproxy"] = re.search(r"err\s*:?=\s*serverProtocol\.AddProxy\(self\)\s*\n(\s*verifPoint\(\d+\)\s*\n)?\s*if err == nil \{\s*\n\s*self\.serverProtocol = serverProtocol\s*\n\s*\}", b) is not None
    else:
        inside = []
        for recv in ("BinaryServerProtocol", "TextServerProtocol"):
            ab = func_body(src, recv, "AddProxy") or ""
            inside.append(re.search(r"if self\.closed \{.*?return errors\.New\(\"closed\"\)\s*\}.*?proxy\.serverProtocol = self\s*\n\s*self\.glock\.Unlock\(\)", ab, flags=re.S) is not None)
        flags["chk_addproxy"] = all(inside)
        if not all(inside):
            problems.append("the proxy target is assigned neither in ProxyServerProtocol.ProcessLockResultCommandLocked nor in AddProxy")
    # shape of the pieces the model transcribes (a refactor must be looked at by a human: the tie is then reported broken)
    for recv, fn, needles in (
            ("BinaryServerProtocol", "Close", ["self.closed = true", "proxy.serverProtocol = defaultServerProtocol", "willCommands.Pop()", "_ = self.ProcessCommad(command)", "delete(self.slock.clients, self.proxys[0].clientId)"]),
            ("TextServerProtocol", "Close", ["self.closed = true", "proxy.serverProtocol = defaultServerProtocol", "willCommands.Pop()", "_ = self.ProcessCommad(command)"]),
            ("ProxyServerProtocol", "ProcessLockResultCommandLocked", ["self.serverProtocol == defaultServerProtocol", "slock.clients[self.clientId]", "serverProtocol.AddProxy(self)"]),
            ("TextServerProtocol", "ProcessLockResultCommandLocked", ["command.RequestId != self.lockRequestId"]),
            ("TextServerProtocol", "ProcessLockResultCommand", ["self.lockWaiter <- lockResultCommad"]),
            ("BinaryServerProtocol", "Init", ["self.proxys[0].clientId = clientId", "self.inited = true"])):
        b = func_body(src, recv, fn)
        if b is None:
            problems.append("%s.%s not found" % (recv, fn))
            continue
        for n in needles:
            if n not in b:
                problems.append("%s.%s: expected statement %r not found" % (recv, fn, n))
    i = src.find("func NewTextServerProtocol")
    m = re.search(r"make\(chan \*protocol\.LockResultCommand, (\d+)\)", src[i:i + 1500]) if i >= 0 else None
    if not m or m.group(1) != "4":
        problems.append("NewTextServerProtocol: lockWaiter capacity is not 4 (model constant LOCKWAITER_CAP)")
    return flags, problems


# ------------------------------------------------------------------ case generation
MISSING_DBS = (255, 255, 9, 17, 254)


def with_db(cmdline, db):
    """command fields `L|U req flag lockid key tflag timeout eflag expried count rcount` + optional DbId"""
    return cmdline if not db else cmdline + " %d" % db


def db_of(f, o):
    """DbId of the command whose L|U field is f[o]"""
    return int(f[o + 11]) if len(f) > o + 11 else 0


def db_missing(f, o):
    """ProcessCommad answers RESULT_UNKNOWN_DB: DbId 0xff, or an UNLOCK for a database that was never created
    (only database 0 exists in a case: the generator never sends a LOCK for another one)"""
    d = db_of(f, o)
    return d == 255 or (d != 0 and f[o] == "U")


class Gen:
    def __init__(self, rng, flags=None):
        self.rng = rng
        self.flags = flags or {}
        self.stats = collections.Counter()

    def case(self, cid):
        # several reconnect generations of one client id need INITed binary connections with replying wills: on a tree
        # without the self-forward guard each of those kills the process at Close -- keep them rare there
        if self.rng.random() < (0.4 if self.flags.get("fix_closed_rec", True) else 0.04):
            return self.case_gens(cid)
        return self.case_mixed(cid)

    def case_gens(self, cid):
        """one client id X over several connection generations; the wills of a younger generation release keys that
        requests of older (closed) generations are queued for, so replies for closed connections are routed while the
        younger one is between `closed = true` and its removal from SLock.clients; generations overlap or not; wills
        for missing databases in between; a bystander with another id must never see any of it"""
        r = self.rng
        self.req = 0
        self.treq = TEXTREQ
        self.stats["profile_gens"] += 1
        lines = ["case %s %d %d" % (cid, T0 + r.choice([0, 0, 3, 7]), r.choice([1, 1, 0, 2]))]
        X = r.choice([5, 5, 9, 77])
        Y = r.choice([6, 12])
        kinds, opened, closed = {}, [], set()

        def new(kind="B"):
            c = len(kinds) + 1
            kinds[c] = kind
            opened.append(c)
            lines.append("open %d %s" % (c, kind))
            return c

        def tick():
            k = r.choices([1, 2, 3, 6, 11], [40, 25, 15, 15, 5])[0]
            sw = ["sweept", "sweepe"]
            r.shuffle(sw)
            lines.extend(["adv %d" % k] + sw)
            self.stats["tick"] += 1

        def close(c):
            how = r.choice(["client", "client", "error", "server"])
            lines.append("close %d %s" % (c, how)); closed.add(c)
            self.stats["close_" + how] += 1
            self.stats["close_bin" if kinds[c] == "B" else "close_text"] += 1
            self.stats["close_with_%d_wills" % min(nwills[c], 6)] += 1

        nwills = collections.Counter()
        H = new("B")
        by = new(r.choice("BBT"))
        if kinds[by] == "B" and r.random() < 0.7:
            lines.append("init %d %d" % (by, Y))
        keys = [7 + 10 * i for i in range(r.choice([2, 3, 3, 4]))]
        hold = {}
        for i, k in enumerate(keys):
            lines.append("req %d L %d 0 %d %d 0 0 0 %d 0 0" % (H, self.nreq(H, kinds), 101 + i, k, r.choice([120, 120, 40])))
            hold[k] = 101 + i
        lid = iter(range(200, 500))
        fresh = iter(range(5000, 5100))
        ngen = r.choice([2, 3, 3, 4])
        self.stats["gens_%d" % ngen] += 1
        cur = None
        for g in range(ngen):
            if cur is None:
                cur = new("B")
                if r.random() < 0.12:
                    lines.append("init %d %d" % (cur, r.choice([Y, 33])))      # announces another id first: re-INIT follows
                    self.stats["reinit"] += 1
                if r.random() < 0.93:
                    lines.append("init %d %d" % (cur, X))
            c = cur
            # requests left queued behind H's holds (answers fall due after this generation is gone)
            for k in r.sample(keys, r.randint(0 if g else 1, len(keys))):
                if k in hold:
                    lines.append("req %d L %d 0 %d %d 0 %d 0 %d 0 0" % (c, self.nreq(c, kinds), next(lid), k, r.choice([60, 60, 25, 6]), r.choice([5, 10, 2])))
                    self.stats["lock"] += 1
            if r.random() < 0.4:
                lines.append("req %d L %d 0 %d %d 0 0 0 %d 0 0" % (c, self.nreq(c, kinds), next(lid), next(fresh), r.choice([3, 8, 30])))
                self.stats["lock"] += 1
            # wills
            for _ in range(r.choice([0, 1, 2, 2, 3, 4, 5])):
                x = r.random()
                if x < 0.36 and hold:
                    k = r.choice(sorted(hold))
                    w = "U %d 0 %d %d 0 0 0 0 0 0" % (self.nreq(c, kinds), hold[k], k)         # releases H's hold: wakes older generations
                    if r.random() < 0.8:
                        del hold[k]                # (else a second will for the same hold follows: it must fail)
                elif x < 0.58:
                    if r.random() < 0.5:
                        w = with_db("U %d 0 %d %d 0 0 0 0 0 0" % (self.nreq(c, kinds), r.choice([101, 102, 999]), r.choice(keys)), r.choice(MISSING_DBS))
                    else:
                        w = with_db("L %d 0 %d %d 0 0 0 30 0 0" % (self.nreq(c, kinds), next(lid), r.choice(keys + [next(fresh)])), 255)
                    self.stats["will_missing_db"] += 1
                elif x < 0.8:
                    w = "L %d 0 %d %d 0 0 0 %d 0 0" % (self.nreq(c, kinds), next(lid), next(fresh), r.choice([30, 30, 10]))
                else:
                    w = "L %d 0 %d %d 0 %d 0 %d 0 0" % (self.nreq(c, kinds), next(lid), r.choice(keys), r.choice([0, 0, 8]), r.choice([5, 30]))
                lines.append("will %d %s" % (c, w)); nwills[c] += 1
                self.stats["wills"] += 1; self.stats["will_bin"] += 1
            if r.random() < 0.3:
                tick()
            if hold and g and r.random() < 0.3:
                # an answer for an older generation arrives while this one is open and registered: it adopts that proxy
                # (and gives it back to the default protocol at the start of its own Close)
                k = r.choice(sorted(hold))
                lines.append("req %d U %d 0 %d %d 0 0 0 0 0 0" % (H, self.nreq(H, kinds), hold.pop(k), k))
                self.stats["unlock"] += 1
            if r.random() < 0.08:
                lines.append("init %d %d" % (c, r.choice([Y, 33])))       # gives the id up before it ends
                self.stats["reinit"] += 1
            # the next generation announces the id before (overlap) or after this one ends
            nxt = None
            if g + 1 < ngen and r.random() < 0.4:
                nxt = new("B")
                if r.random() < 0.93:
                    lines.append("init %d %d" % (nxt, X))
                self.stats["gens_overlap"] += 1
            if r.random() < 0.9 or g + 1 < ngen:
                close(c)
            cur = nxt
            # replies for the closed generations fall due: H lets a key go / deadlines pass
            for _ in range(r.choice([0, 1, 1, 2])):
                if hold and r.random() < 0.6:
                    k = r.choice(sorted(hold))
                    lines.append("req %d U %d 0 %d %d 0 0 0 0 0 0" % (H, self.nreq(H, kinds), hold.pop(k), k))
                    self.stats["unlock"] += 1
                else:
                    tick()
        # a last connection of the same client stays while everything left falls due
        if r.random() < 0.7:
            last = new("B")
            if r.random() < 0.9:
                lines.append("init %d %d" % (last, X))
        for k in sorted(hold):
            if r.random() < 0.8:
                lines.append("req %d U %d 0 %d %d 0 0 0 0 0 0" % (H, self.nreq(H, kinds), hold[k], k))
                self.stats["unlock"] += 1
            if r.random() < 0.4:
                tick()
        for _ in range(r.choice([1, 2, 3])):
            tick()
        lines += ["adv 70", "sweept", "sweepe"]
        for c in opened:
            lines.append("close %d client" % c)
        lines += ["adv 130", "sweepe", "sweept", "adv 40", "sweepe", "sweept"]
        lines.append("end")
        return lines

    def case_mixed(self, cid):
        r = self.rng
        self.req = 0
        self.treq = TEXTREQ
        lines = ["case %s %d %d" % (cid, T0 + r.choice([0, 0, 3, 7, 13]), r.choice([1, 1, 0, 2]))]
        profile = r.choices(["will", "route", "mixed", "many"], [40, 25, 25, 10])[0]
        self.stats["profile_" + profile] += 1
        nconn = r.choice([2, 3, 3, 4, 5])
        kinds = {}
        for c in range(1, nconn + 1):
            kinds[c] = "T" if r.random() < (0.35 if profile != "route" else 0.3) else "B"
        kinds[nconn] = "B"                   # at least one binary observer
        subject = 1
        open_, inited, busy_possible = set(), {}, set()
        keys = [r.choice([3, 7, 11, 19, 258, 70000]) + 10 * i for i in range(r.choice([2, 3, 3]))]
        fresh = iter(range(5000, 5100))
        ids = list(range(101, 110))
        wills = collections.defaultdict(list)
        holds = collections.defaultdict(list)    # conn -> [(key, lockid)] taken with a synchronous SUCCED hoped for
        for c in kinds:
            lines.append("open %d %s" % (c, kinds[c])); open_.add(c)
        cids = [0, 0, 5, 5, 9]

        def lock(c, key=None, lockid=None, timeout=None, expried=None, count=None):
            key = r.choice(keys) if key is None else key
            lockid = r.choice(ids) if lockid is None else lockid
            timeout = r.choice([0, 0, 3, 5, 10]) if timeout is None else timeout
            if kinds[c] == "T" and timeout > 0 and r.random() < 0.6:
                timeout = 0                  # a waiting text request parks the connection: keep those rarer
            expried = r.choice([0, 2, 5, 10, 30, 30]) if expried is None else expried
            count = r.choice([0, 0, 0, 1, 2]) if count is None else count
            return "L %d 0 %d %d 0 %d 0 %d %d 0" % (self.nreq(c, kinds), lockid, key, timeout, expried, count)

        def unlock(c, key=None, lockid=None):
            key = r.choice(keys) if key is None else key
            lockid = r.choice(ids) if lockid is None else lockid
            return "U %d 0 %d %d 0 0 0 0 0 0" % (self.nreq(c, kinds), lockid, key)

        def tick():
            k = r.choices([1, 1, 2, 3, 6, 11], [40, 20, 15, 10, 10, 5])[0]
            sw = ["sweept", "sweepe"]
            r.shuffle(sw)
            return ["adv %d" % k] + sw

        # ---- INITs
        for c in kinds:
            # (an INITed binary connection with a replying will kills the unrepaired server at Close: keep that a minority)
            p_init = (0.45 if profile != "route" else 0.6) if c != subject else (0.12 if profile in ("will", "many") else 0.4)
            if kinds[c] == "B" and r.random() < p_init:
                x = r.choice(cids) if c != subject else r.choice([0, 5, 5, 9])
                lines.append("init %d %d" % (c, x)); inited[c] = x
        # ---- body
        n = r.randint(6, 26) if profile != "many" else r.randint(20, 45)
        nw_target = r.choice([0, 1, 2, 3, 5, 6, 6]) if profile in ("will", "many") else r.choice([0, 0, 1, 2])
        closed = set()
        for step in range(n):
            live = [c for c in open_ if c not in closed]
            if not live:
                break
            x = r.random()
            c = r.choice(live) if r.random() < 0.5 else (subject if subject in live else r.choice(live))
            if x < 0.18 and len(wills[subject]) < nw_target and subject in live:
                c = subject
                kind = r.random()
                if kind < 0.45:
                    k = next(fresh)
                    w = lock(c, key=k, lockid=r.choice(ids), timeout=0, expried=r.choice([30, 30, 10]), count=0)
                elif kind < 0.65 and holds[c]:
                    k, lid = r.choice(holds[c])
                    w = unlock(c, key=k, lockid=lid)
                elif kind < 0.85:
                    w = lock(c, timeout=r.choice([0, 0, 5]))
                else:
                    w = unlock(c)
                if kinds[c] == "B" and r.random() < 0.22:
                    # names a database that does not exist: answered RESULT_UNKNOWN_DB, must not stop the wills after it
                    w = with_db(w if w.startswith("U ") or r.random() < 0.5 else "U" + w[1:], 255 if w.startswith("L ") else r.choice(MISSING_DBS))
                    self.stats["will_missing_db"] += 1
                lines.append("will %d %s" % (c, w)); wills[c].append(w); self.stats["wills"] += 1
                self.stats["will_text" if kinds[c] == "T" else "will_bin"] += 1
            elif x < 0.25 and len(wills[c]) < 3 and c != subject and (c not in inited or r.random() < 0.1):
                w = lock(c, key=next(fresh), timeout=0, expried=30, count=0) if r.random() < 0.6 else unlock(c)
                lines.append("will %d %s" % (c, w)); wills[c].append(w); self.stats["wills"] += 1
            elif x < 0.55:
                ln = lock(c)
                f = ln.split()
                if int(f[8]) > 0:
                    holds[c].append((int(f[4]), int(f[3])))
                lines.append("req %d %s" % (c, ln)); self.stats["lock"] += 1
            elif x < 0.68:
                if holds[c] and r.random() < 0.7:
                    k, lid = r.choice(holds[c])
                    lines.append("req %d %s" % (c, unlock(c, k, lid)))
                else:
                    lines.append("req %d %s" % (c, unlock(c)))
                self.stats["unlock"] += 1
            elif x < 0.82:
                lines += tick(); self.stats["tick"] += 1
            elif x < 0.92:
                how = r.choice(["client", "client", "error", "server"])
                lines.append("close %d %s" % (c, how)); closed.add(c)
                self.stats["close_" + how] += 1
                self.stats["close_text" if kinds[c] == "T" else "close_bin"] += 1
                self.stats["close_with_%d_wills" % min(len(wills[c]), 6)] += 1
                # reconnect under the same / another client id
                if r.random() < 0.5:
                    nc = max(kinds) + 1
                    kinds[nc] = "B"; open_.add(nc)
                    lines.append("open %d B" % nc)
                    if r.random() < 0.8:
                        same = inited.get(c, 0)
                        x2 = same if r.random() < 0.7 else r.choice([0, 5, 9, 12])
                        lines.append("init %d %d" % (nc, x2)); inited[nc] = x2
                        self.stats["reconnect_same_id" if x2 == same else "reconnect_other_id"] += 1
            else:
                cb = [d for d in live if kinds[d] == "B" and (not wills[d] or r.random() < 0.1)]
                if cb:
                    d = r.choice(cb)
                    x2 = r.choice(cids)
                    lines.append("init %d %d" % (d, x2)); inited[d] = x2
        # ---- close the subject if still open (every lifetime ends), watch, drain
        live = [c for c in open_ if c not in closed]
        if subject in live:
            how = r.choice(["client", "client", "error", "server"])
            lines.append("close %d %s" % (subject, how)); closed.add(subject)
            self.stats["close_" + how] += 1
            self.stats["close_text" if kinds[subject] == "T" else "close_bin"] += 1
            self.stats["close_with_%d_wills" % min(len(wills[subject]), 6)] += 1
        obs = [c for c in open_ if c not in closed and kinds[c] == "B"]
        if obs:
            o = r.choice(obs)
            for w in wills[subject][:3]:
                f = w.split()
                lines.append("req %d %s" % (o, lock(o, key=int(f[4]), lockid=r.choice(ids), timeout=0, expried=2, count=0)))
            if r.random() < 0.15:
                # an ordinary request for a missing database is answered RESULT_UNKNOWN_DB (same code path as a will)
                lines.append("req %d %s" % (o, with_db(unlock(o), r.choice(MISSING_DBS))))
        for _ in range(r.choice([1, 2, 3])):
            lines += tick()
        lines += ["adv 40", "sweept", "sweepe"]
        # (a close sent to a text connection parked on a waiting request was ignored: by now it has its answer)
        for c in sorted(open_):
            lines.append("close %d client" % c)
        lines += ["adv 40", "sweept", "sweepe", "adv 40", "sweepe", "sweept"]
        lines.append("end")
        return lines

    def nreq(self, c, kinds):
        if kinds[c] == "T":
            self.treq += 1
            return self.treq
        self.req += 1
        return self.req


# ------------------------------------------------------------------ running both sides
class Runner:
    def __init__(self, ctx, impl, model, flags):
        self.ctx, self.impl, self.model, self.flags = ctx, impl, model, flags
        self.crashes = 0
        self.impl_s = self.model_s = 0.0

    def run_model(self, text):
        t = time.time()
        args = [self.model] + ["1" if self.flags[k] else "0" for k in FLAGS]
        p = subprocess.run(args, input=text.encode(), stdout=subprocess.PIPE, stderr=subprocess.PIPE, timeout=600)
        self.model_s += time.time() - t
        if p.returncode != 0:
            raise vlib.BuildError("modelrun failed: " + p.stderr.decode()[-800:])
        return parse_out(p.stdout.decode())

    def run_impl(self, cases):
        """cases: list of line lists.  A fatal error of the Go process ends that case with `ev crash <kind>`; the remaining
        cases run in a fresh process.  returns {case id: [lines]}"""
        t = time.time()
        res = {}
        todo = list(cases)
        while todo:
            text = "\n".join("\n".join(c) for c in todo) + "\n"
            # scratch dir of the harness process (it chdirs into a temp dir; a process that dies cannot remove it itself)
            scratch = tempfile.mkdtemp(prefix="c18-run-")
            try:
                p = subprocess.run([self.impl], input=text.encode(), stdout=subprocess.PIPE, stderr=subprocess.PIPE, timeout=900,
                                   cwd=scratch, env=dict(os.environ, TMPDIR=scratch))
                out, err, rc = p.stdout.decode("utf-8", "replace"), p.stderr.decode("utf-8", "replace"), p.returncode
            except subprocess.TimeoutExpired as ex:
                out, err, rc = (ex.stdout or b"").decode("utf-8", "replace"), "timeout", 124
            finally:
                shutil.rmtree(scratch, ignore_errors=True)
            po = parse_out(out, complete_only=False)
            if rc == 0:
                res.update(po)
                break
            # the process died inside the last case it printed
            ids = [c[0].split()[1] for c in todo]
            last = None
            for i in ids:
                if i in po:
                    last = i
            if last is None:
                raise vlib.BuildError("connrun died before the first case: " + err[-600:])
            kind = "stack-overflow" if "stack overflow" in err or "goroutine stack exceeds" in err else \
                   ("timeout" if rc == 124 else "fatal:" + (re.findall(r"^(?:fatal error|panic): .*", err, flags=re.M) or ["?"])[0].replace(" ", "_")[:80])
            for i in ids:
                if i == last:
                    break
                res[i] = po[i]
            lines = po[last]
            # drop the observations of the action during which it died (nothing after `act` is complete)
            k = max((j for j, l in enumerate(lines) if l.startswith("act ")), default=0)
            res[last] = lines[:k + 1] + ["ev crash " + kind]
            self.crashes += 1
            todo = todo[ids.index(last) + 1:]
        self.impl_s += time.time() - t
        return res


def parse_out(text, complete_only=True):
    res, cur, cid = {}, None, None
    for l in text.splitlines():
        if l.startswith("case "):
            if cid is not None:
                res[cid] = cur      # no `end`: the model stops printing after a crash; the implementation died
            cid, cur = l.split()[1], []
        elif l == "end":
            if cid is not None:
                res[cid] = cur + ["end"]
            cid, cur = None, None
        elif cur is not None:
            cur.append(l)
    if cid is not None:
        res[cid] = cur
    return res


def canon_impl(lines):
    out = []
    for l in lines:
        if l.startswith("#") or l.startswith("ev other "):
            continue
        if l.startswith("snap "):
            l = re.sub(r" sessions=\d+", "", l)
        if l.startswith("ev crash"):
            l = "ev crash"
        out.append(l)
    return out


def canon_model(lines):
    return [l for l in lines if not l.startswith("#")]


# ------------------------------------------------------------------ monitor: the property on implementation observations
class Step:
    def __init__(self, act):
        self.act = act.split()
        self.frames, self.keys, self.conns, self.clients = [], {}, {}, {}
        self.snap = None
        self.ignored = self.crash = False
        self.other = []


LOCKREC = re.compile(r"(\d+):(\d+):(\d+):([01]):([01]):(-?\d+):(-?\d+):(\w+):(\w+|\?)")


def parse_steps(lines):
    steps = []
    for l in lines:
        f = l.split()
        if not f:
            continue
        if f[0] == "act":
            steps.append(Step(l[4:]))
        elif not steps:
            continue
        elif f[0] == "ev":
            s = steps[-1]
            if f[1] == "frame":
                s.frames.append(dict(to=int(f[2]), req=f[3], res=int(f[4]), lc=int(f[5]), lrc=int(f[6]), lockid=int(f[7])))
            elif f[1] == "ignored":
                s.ignored = True
            elif f[1] == "crash":
                s.crash = f[2] if len(f) > 2 else "?"
            else:
                s.other.append(f[1:])
        elif f[0] == "snap":
            steps[-1].snap = dict(kv.split("=") for kv in f[1:])
        elif f[0] == "key":
            m = re.match(r"key (\d+) locked=(\d+) waited=(\d) ref=(\d+) cur=(\S+) holders=\[(.*?)\] waiters=\[(.*?)\]", l)
            recs = lambda s: [dict(lockid=int(a[0]), depth=int(a[1]), req=a[7], owner=a[8], dead_t=a[3] == "1", dead_e=a[4] == "1") for a in LOCKREC.findall(s)]
            cur = recs(m.group(5))
            hs = recs(m.group(6))
            steps[-1].keys[int(m.group(1))] = dict(locked=int(m.group(2)), holders=[h for h in cur + hs if not h["dead_e"] and h["depth"] > 0],
                                                   waiters=[w for w in recs(m.group(7)) if not w["dead_t"]])
        elif f[0] == "conn":
            d = dict(kv.split("=") for kv in f[3:])
            d["kind"] = f[2]
            steps[-1].conns[int(f[1])] = d
        elif f[0] == "clients":
            steps[-1].clients = {int(a.split(">")[0]): a.split(">")[1] for a in f[1:]}
    return steps


def holders_of(step):
    """set of (key, lockid, req, owner) of live holds"""
    return {(k, h["lockid"], h["req"], h["owner"]) for k, v in step.keys.items() for h in v["holders"]}


def waiters_of(step):
    """set of (key, lockid, req, owner) of live queued requests"""
    return {(k, w["lockid"], w["req"], w["owner"]) for k, v in step.keys.items() for w in v["waiters"]}


def replay_wills(ws, prev):
    """The registered wills `ws` (action field lists, registration order) executed one by one, each exactly once, against
    the census `prev` taken before the Close, with the plain semantics of exclusive locks.  Only keys whose outcome that
    semantics determines are followed (no queued request on the key, at most one holder, every will on it exclusive,
    not re-entrant, with an expiry, and never queueing); a will naming a missing database changes nothing.
    returns (expected holder per followed key: None | (lockid, req), counters dict or None when some key is not followed)"""
    per_key = collections.defaultdict(list)
    for w in ws:
        if not db_missing(w, 2):
            per_key[int(w[6])].append(w)
    state, followed = {}, set()
    for k, kws in per_key.items():
        cen = prev.keys.get(k)
        hs = cen["holders"] if cen else []
        if (cen and cen["waiters"]) or len(hs) > 1 or any(h["depth"] != 1 for h in hs):
            continue
        if any(int(w[11]) != 0 or int(w[12]) != 0 or int(w[4]) != 0 or int(w[7]) != 0 or int(w[9]) != 0 for w in kws):
            continue
        if any(w[2] == "L" and int(w[10]) == 0 for w in kws):
            continue
        followed.add(k)
        state[k] = (hs[0]["lockid"], hs[0]["req"]) if hs else None
    cnt = collections.Counter()
    for w in ws:
        if db_missing(w, 2):
            cnt["nodb"] += 1
            continue
        k, lid = int(w[6]), int(w[5])
        if k not in followed:
            continue
        cur = state[k]
        if w[2] == "L":
            if cur is None:
                state[k] = (lid, w[3]); cnt["L"] += 1
            elif cur[0] == lid:
                followed.discard(k)            # re-lock of the same lock id: not followed
            elif int(w[8]) == 0:
                cnt["T"] += 1                  # held by another lock id, no waiting: TIMEOUT, nothing changes
            else:
                followed.discard(k)            # queues: not followed from here on
        else:
            if cur is not None and cur[0] == lid:
                state[k] = None; cnt["U"] += 1
            else:
                cnt["UE"] += 1
    complete = all(int(w[6]) in followed for w in ws if not db_missing(w, 2))
    return {k: state[k] for k in followed}, (cnt if complete else None)


MON = collections.Counter()        # what the monitor got to judge (evidence)


def monitor(case, lines):
    """returns list of (signature, description, step index)"""
    viol = []
    steps = parse_steps(lines)
    acts = [l.split() for l in case[1:] if l != "end"]
    kinds, issuer, announced, wills, closed_at, ever = {}, {}, {}, collections.defaultdict(list), {}, {}
    table = {}          # client id -> the connection that announced it last and has neither closed nor re-INITed since
    key_mentions = collections.Counter()
    for a in acts:
        if a[0] == "raceclose":
            a = a[3:]
        if a[0] in ("req", "will"):
            key_mentions[int(a[6])] += 1
    prev = None
    racy = any(x[0] == "raceclose" for x in acts)
    for i, s in enumerate(steps):
        a = s.act
        race_closed = None
        if a[0] == "raceclose":
            # raceclose <conn> <yield point> <action...>: <conn> was closed by its client inside <action>, at the moment a
            # goroutine passed the yield point (harness); `racemiss`: the point was not passed, only <action> happened
            if not s.ignored and not any(o and o[0] == "racemiss" for o in s.other):
                race_closed = int(a[1])
            a = a[3:]
        c = int(a[1]) if a[0] in ("open", "init", "req", "will", "close") else None
        if s.crash:
            viol.append(("close-crash:" + s.crash if a[0] == "close" else "crash:%s:%s" % (a[0], s.crash),
                         "the server process died (%s) while handling `%s`%s" % (s.crash, " ".join(a),
                         " -- connection %d had announced client id %s and registered %d will(s)" % (c, announced.get(c), len(wills[c])) if a[0] == "close" else ""), i))
            break
        if a[0] == "open":
            kinds[c] = a[2]
        elif s.ignored:
            pass
        elif a[0] == "init":
            if c in announced and table.get(announced[c]) == c:
                del table[announced[c]]
            announced[c] = int(a[2])
            table[int(a[2])] = c
            ever.setdefault(c, set()).add(int(a[2]))
        elif a[0] == "req":
            if kinds[c] == "B":
                issuer[a[3]] = c
        elif a[0] == "will":
            wills[c].append(a)
            if kinds[c] == "B":
                issuer[a[3]] = c
        elif a[0] == "close":
            closed_at[c] = i
        # ---- routing: every frame reaches the issuer of its request, or a connection registered under the id the issuer announced
        for fr in s.frames:
            to = fr["to"]
            if fr["req"] == "T":
                if kinds.get(to) != "T":
                    viol.append(("misroute:text-origin-to-binary:zero-client-id",
                                 "connection %d (binary, registered client id %s) received the answer (result %d, lock id %d) to a request of a text connection, which never announces a client id"
                                 % (to, announced.get(to), fr["res"], fr["lockid"]), i))
                continue
            src = issuer.get(fr["req"])
            if src is None:
                viol.append(("misroute:unknown-request", "connection %d received a frame for request %s nobody sent" % (to, fr["req"]), i))
            elif src != to:
                if src not in closed_at:
                    viol.append(("misroute:owner-still-open", "frame for request %s of open connection %d delivered to %d" % (fr["req"], src, to), i))
                elif src not in announced:
                    viol.append(("misroute:zero-client-id",
                                 "connection %d (registered client id %s) received the answer (result %d) to request %s of connection %d, which never sent INIT and was closed at step %d"
                                 % (to, announced.get(to), fr["res"], fr["req"], src, closed_at[src]), i))
                elif announced[src] not in ever.get(to, ()):
                    viol.append(("misroute:other-client-id", "frame for request %s of closed connection %d (client id %s) delivered to %d (client id %s)"
                                 % (fr["req"], src, announced[src], to, announced.get(to)), i))
        # ---- replies that fall due: a queued request left the wait queue (granted or timed out) -> exactly one answer,
        #      delivered to its open owner or, the owner being closed, to a connection of the same client id; lost only
        #      when no open connection currently announces that id
        closing = c if a[0] == "close" and not s.ignored else None
        if race_closed is not None:
            closed_at[race_closed] = i
            closing = race_closed
        if prev is not None and s.snap is not None:
            for (k, lid, req, owner) in sorted(waiters_of(prev) - waiters_of(s)):
                if not owner.isdigit():
                    continue
                o = int(owner)
                if req == "T":
                    got = [fr for fr in s.frames if fr["req"] == "T" and fr["to"] == o and fr["lockid"] == lid]
                else:
                    got = [fr for fr in s.frames if fr["req"] == req]
                MON["replies_due"] += 1
                if o in closed_at or o == closing:
                    MON["replies_due_owner_closed"] += 1
                    if closing is not None and o != closing:
                        MON["replies_due_inside_close_of_another_connection"] += 1
                        if announced.get(o) is not None and announced.get(o) == announced.get(closing):
                            MON["replies_due_inside_close_of_same_client_id"] += 1
                    if got:
                        MON["replies_of_closed_owner_delivered_to_same_client_id"] += 1
                    else:
                        MON["replies_of_closed_owner_dropped"] += 1
                if len(got) > 1:
                    viol.append(("reply-duplicated", "request %s of connection %d (key %d) was answered %d times in one step (to %s)" % (req, o, k, len(got), [fr["to"] for fr in got]), i))
                if got:
                    continue            # (whether the receiver is a legitimate one is judged above)
                if o not in closed_at and o != closing:
                    if kinds.get(o) == "B" or req == "T":
                        viol.append(("reply-lost:owner-open", "request %s of OPEN connection %d (key %d, lock id %d) left the wait queue but no answer reached the connection" % (req, o, k, lid), i))
                    continue
                if kinds.get(o) != "B" or o not in announced:
                    continue            # a closed connection that never announced a client id: nobody to deliver to
                X = announced[o]
                live = [d for d in sorted(kinds) if d not in closed_at and d != closing and announced.get(d) == X]
                reg = table.get(X)
                if reg is not None and reg in live:
                    viol.append(("reply-lost:registered-live" + (":adopt-race" if racy else ""),
                                 "the answer to request %s (key %d, lock id %d) of closed connection %d (client id %d) was dropped although connection %d, open, "
                                 "is the one that announced client id %d last -- the reply must be delivered to it" % (req, k, lid, o, X, reg, X), i))
                elif live:
                    viol.append(("reply-lost:live-same-id:shadowed",
                                 "the answer to request %s (key %d, lock id %d) of closed connection %d (client id %d) was dropped although connection(s) %s, open, announce "
                                 "client id %d: the registration of that id was erased when a younger connection of the same id ended or re-INITed" % (req, k, lid, o, X, live, X), i))
        # ---- wills: never before the close
        if prev is not None and s.snap is not None:
            for cc, ws in wills.items():
                if cc in closed_at or cc == closing:
                    continue
                wreqs = {w[3] for w in ws if w[3] != "T"} if kinds.get(cc) == "B" else set()
                early = [fr for fr in s.frames if fr["req"] in wreqs]
                if early:
                    viol.append(("will-early", "will request %s of connection %d was answered (result %d, to connection %d) before the connection closed" % (early[0]["req"], cc, early[0]["res"], early[0]["to"]), i))
                wq = [w for w in waiters_of(s) if w[2] in wreqs]
                if wq:
                    viol.append(("will-early", "will request %s of connection %d shows up as a queued request before the connection closed" % (wq[0][2], cc), i))
        if prev is not None and s.snap is not None:
            now_h = holders_of(s)
            for cc, ws in wills.items():
                if kinds.get(cc) != "B" or cc in closed_at:
                    continue
                wreqs = {w[3] for w in ws}
                early = [h for h in now_h if h[2] in wreqs]
                if early:
                    viol.append(("will-early", "will request %s of connection %d shows up as a hold before the connection closed" % (early[0][2], cc), i))
        # ---- the close action itself
        if a[0] == "close" and not s.ignored and s.snap is not None and prev is not None:
            st = s.conns.get(c, {})
            if st.get("stuck") == "1":
                viol.append(("close-blocked:lockwaiter", "Close of text connection %d never returns: will answers filled lockWaiter (capacity 4) and nobody reads it (chan=%s, %d wills)" % (c, st.get("chan"), len(wills[c])), i))
            elif st.get("open") != "0":
                viol.append(("close-not-closed", "connection %d still open after close" % c, i))
            else:
                before, after = holders_of(prev), holders_of(s)
                dL = int(s.snap["L"]) - int(prev.snap["L"])
                dU = int(s.snap["U"]) - int(prev.snap["U"])
                nL = sum(1 for w in wills[c] if w[2] == "L" and not db_missing(w, 2))
                nU = sum(1 for w in wills[c] if w[2] == "U" and not db_missing(w, 2))
                wb = {(k, w["lockid"], w["req"]) for k, v in prev.keys.items() for w in v["waiters"]}
                wa = {(k, w["lockid"], w["req"]) for k, v in s.keys.items() for w in v["waiters"]}
                if dL > nL + len(wb - wa) or dU > nU:       # (waiters woken by a will's release count in LockCount too)
                    viol.append(("will-more-than-once", "close of %d: LockCount +%d / UnLockCount +%d with only %d lock / %d unlock wills" % (c, dL, dU, nL, nU), i))
                if st.get("wills", "0") != "0":
                    viol.append(("will-not-executed:%s" % ("text" if kinds[c] == "T" else "binary"),
                                 "%s connection %d closed with %d will(s) registered; none ran: the will queue still holds %s command(s) after Close (LockCount +%d, UnLockCount +%d)"
                                 % ("text" if kinds[c] == "T" else "binary", c, len(wills[c]), st.get("wills"), dL, dU), i))
                else:
                    kd = "text" if kinds[c] == "T" else "binary"
                    # every will once, in order: replay them against the census before the Close
                    exp, cnt = replay_wills(wills[c], prev)
                    treqs = {w[3] for w in wills[c]}
                    if wills[c]:
                        MON["closes_with_wills_replayed"] += 1
                        MON["will_keys_followed"] += len(exp)
                        MON["closes_with_failing_will_before_ordinary_will"] += any(db_missing(w, 2) and any(not db_missing(w2, 2) for w2 in wills[c][n + 1:]) for n, w in enumerate(wills[c]))
                        MON["closes_with_counters_checked"] += cnt is not None
                    for k in sorted(exp):
                        obs = sorted((h[1], h[2]) for h in after if h[0] == k)
                        want = [exp[k]] if exp[k] is not None else []
                        if kinds[c] == "T":         # (the server generates the request ids of text commands: printed as T)
                            want = [(w0[0], "T" if w0[1] in treqs else w0[1]) for w0 in want]
                        if obs != want:
                            on_k = ["%s(lock id %s, request %s)" % ("LOCK" if w[2] == "L" else "UNLOCK", w[5], w[3]) for w in wills[c] if int(w[6]) == k and not db_missing(w, 2)]
                            first_missing = next((n for n, w in enumerate(wills[c]) if db_missing(w, 2)), None)
                            by_will = bool(obs) and any(int(w[5]) == obs[0][0] and w[3] == obs[0][1] and int(w[6]) == k for w in wills[c])
                            sig = "will-order" if want and by_will else "will-not-executed:%s" % kd
                            viol.append((sig, "wills of %s connection %d on key %d, in registration order: %s%s -- executed once each, in order, they leave holder %s; after Close the key has %s"
                                         % (kd, c, k, ", ".join(on_k), "" if first_missing is None else " (will #%d names a missing database and fails; %d will(s) follow it)" % (first_missing + 1, len(wills[c]) - first_missing - 1),
                                            want or "none", obs or "no holder"), i))
                    if cnt is not None:
                        dUE = int(s.snap["UE"]) - int(prev.snap["UE"])
                        got = {"L": dL, "U": dU, "UE": dUE}      # (a LOCK refused at once is not counted anywhere)
                        want = {x: cnt[x] for x in got}
                        if got != want:
                            fewer = any(got[x] < want[x] for x in got)
                            viol.append(("will-not-executed:%s" % kd if fewer else "will-more-than-once",
                                         "close of %s connection %d with %d will(s) (%d of them naming a missing database): executed once each they make grants/unlocks/unlock errors %s, the counters moved by %s"
                                         % (kd, c, len(wills[c]), cnt["nodb"], [want[x] for x in ("L", "U", "UE")], [got[x] for x in ("L", "U", "UE")]), i))
                    # answers of the wills forwarded to the connection that took the client id over: one per will, in order
                    #   (a LOCK will that may queue is answered whenever it is granted: only the immediate answers are ordered)
                    wreq = [w[3] for w in wills[c]] if kinds[c] == "B" else []
                    imm = [w[3] for w in wills[c] if db_missing(w, 2) or w[2] == "U" or int(w[8]) == 0] if kinds[c] == "B" else []
                    seen = [fr for fr in s.frames if fr["req"] in wreq and fr["req"] != "T"]
                    order = [imm.index(fr["req"]) for fr in seen if fr["req"] in imm]
                    if order != sorted(order):
                        viol.append(("will-reply-order", "answers of the wills of connection %d arrived as requests %s; registered order is %s" % (c, [fr["req"] for fr in seen], wreq), i))
                    fwd_to = table.get(announced.get(c)) if c in announced else None
                    if fwd_to is not None and fwd_to != c and fwd_to not in closed_at and kinds.get(fwd_to) == "B":
                        MON["closes_with_will_answers_forwarded"] += bool(wills[c])
                        for w in wills[c]:
                            immediate = db_missing(w, 2) or w[2] == "U" or int(w[8]) == 0
                            n = sum(1 for fr in seen if fr["req"] == w[3])
                            if immediate and n != 1:
                                viol.append(("will-reply-missing" if n == 0 else "reply-duplicated",
                                             "will request %s of connection %d (client id %s, taken over by open connection %d) was answered %d times at Close" % (w[3], c, announced[c], fwd_to, n), i))
                # holds of the closed connection stay unless a will released them
                gone = [h for h in before - after if h[3] == str(c)]
                for h in gone:
                    if not any(int(w[6]) == h[0] and not db_missing(w, 2) for w in wills[c]):
                        viol.append(("hold-lost-at-close", "hold (key %d, lock id %d) of connection %d vanished at its Close without a will touching the key" % (h[0], h[1], c), i))
        if closing is not None and closing in announced and table.get(announced[closing]) == closing:
            del table[announced[closing]]
        if s.snap is not None:
            prev = s
    # ---- drained
    if steps and not steps[-1].crash and steps[-1].snap is not None:
        s = steps[-1]
        stuck = [c for c, d in s.conns.items() if d.get("stuck") == "1"]
        if not stuck:
            if int(s.snap["LD"]) != 0 or int(s.snap["W"]) != 0 or int(s.snap["K"]) != 0 or s.keys:
                viol.append(("leak:engine", "after every connection closed and every deadline passed: LockedCount=%s WaitCount=%s KeyCount=%s keys=%s" % (s.snap["LD"], s.snap["W"], s.snap["K"], sorted(s.keys)), len(steps) - 1))
            if int(s.snap.get("sessions", "0")) != 0:
                viol.append(("leak:sessions", "%s protocol sessions left" % s.snap["sessions"], len(steps) - 1))
            if s.clients:
                viol.append(("leak:clients", "clients table not empty after all connections closed: %s" % s.clients, len(steps) - 1))
            for c, d in s.conns.items():
                if d.get("open") == "0" and d.get("wills", "0") != "0" and not any(v[0].startswith("will-not-executed") for v in viol):
                    viol.append(("leak:will-queue", "closed connection %d keeps %s queued will command(s)" % (c, d["wills"]), len(steps) - 1))
    return viol


# ------------------------------------------------------------------ shrinking on the implementation
def shrink(runner, case, sig, budget=60):
    head, acts = case[0], [l for l in case[1:] if l != "end"]

    def still(a2):
        c2 = [head] + a2 + ["end"]
        out = runner.run_impl([c2])
        cid = head.split()[1]
        if cid not in out:
            return False
        return any(s == sig for s, _, _ in monitor(c2, out[cid]))
    i = 0
    while i < len(acts) and budget > 0:
        trial = acts[:i] + acts[i + 1:]
        budget -= 1
        if still(trial):
            acts = trial
        else:
            i += 1
    return [head] + acts + ["end"]


def load_corpus():
    res = []
    for f in sorted(glob.glob(os.path.join(VERIF, "corpus", "C18", "*.case"))):
        lines = [l.strip() for l in open(f) if l.strip() and not l.startswith("#")]
        cur = None
        for l in lines:
            if l.startswith("case "):
                cur = ["case c:%s:%s %s" % (os.path.basename(f)[:-5], l.split()[1], " ".join(l.split()[2:]))]
            elif cur is not None:
                cur.append(l)
                if l == "end":
                    res.append(cur); cur = None
    return res


def load_race_corpus():
    """interleavings inside one action (harness action `raceclose`): beyond the model's step granularity, judged by the
    monitor only"""
    res = []
    for f in sorted(glob.glob(os.path.join(VERIF, "corpus", "C18", "*.race"))):
        cur = None
        for l in (l.strip() for l in open(f)):
            if not l or l.startswith("#"):
                continue
            if l.startswith("case "):
                cur = ["case r:%s:%s %s" % (os.path.basename(f)[:-5], l.split()[1], " ".join(l.split()[2:]))]
            elif cur is not None:
                cur.append(l)
                if l == "end":
                    res.append(cur); cur = None
    return res


def run(ctx):
    t0 = time.time()
    thorough = ctx.tier == "thorough"
    repo = vlib.REPO
    flags, problems = derive_flags(repo)
    ctx.obligation("model switches derived from server/protocol.go (%s)" % ", ".join("%s=%d" % kv for kv in sorted(flags.items())), not problems, "; ".join(problems))
    ctx.obligation("hypothesis chk_addproxy of C18_proxy_target_accepting / C18_registered_is_live_announcer / C18_frames_never_to_stranger / "
                   "C18_reply_delivered_or_dropped holds for the source (ProxyServerProtocol.ProcessLockResultCommandLocked assigns the proxy "
                   "target only when AddProxy returned nil)", flags.get("chk_addproxy", False),
                   "" if flags.get("chk_addproxy") else "the AddProxy result is not honoured: C18_refuted_proxy_glued applies")
    MON.clear()
    # ---- 1. proofs
    ok, log = ctx.coq(["Properties/C18.vo"])
    pfile = os.path.join(vlib.COQ, "Properties", "C18.v")
    names = re.findall(r"^Theorem (C18_\w+)", open(pfile).read(), flags=re.M) if os.path.exists(pfile) else []
    if not names:
        ctx.obligation("Properties/C18.v states the property theorems", False, "no theorem file yet")
    for nm in names:
        ctx.obligation(nm, ok and nm in ctx.assumption_report, "" if ok else getattr(ctx, "coq_failure", "")[:300])
    coq_s = round(getattr(ctx, "coq_time", 0), 1)
    if thorough and ok and names:
        okc, outc = ctx.coqchk(["Slock.Properties.C18"])
        ctx.obligation("coqchk -o Slock.Properties.C18 (axioms: none)", okc and "Axioms: <none>" in outc, "" if okc else outc[-600:])
    # ---- 2. builds from the current tree
    impl = ctx.go_build("connrun", os.path.join(VERIF, "harness", "conn"), overlay={"server/zz_verif_conn.go": "harness/conn/inj/zz_verif_conn.go"}, pkg="./cmd/connrun")
    model = ctx.ocaml_model("conn", deps=["Conn/Conn.vo"])
    ctx.obligation("harness builds against %s's working tree" % repo, True)
    runner = Runner(ctx, impl, model, flags)

    # ---- 3. cases: replay / corpus first, then seeded lifetimes
    gen = Gen(ctx.rng, flags)
    if getattr(ctx, "replay", None):
        rp = json.load(open(ctx.replay))
        c = rp.get("replay", {}).get("case") or rp.get("case")
        if not c:
            print("replay file has no case")
            return 2
        cases = [c]
    else:
        cases = load_corpus()
        n = 8000 if thorough else 800
        cases += [gen.case("g%d" % i) for i in range(n)]
    mismatches, hits = [], collections.OrderedDict()
    nsteps = nframes = 0
    shapes = set()
    per = 150
    for b in range(0, len(cases), per):
        batch = cases[b:b + per]
        text = "\n".join("\n".join(c) for c in batch) + "\n"
        pm = runner.run_model(text)
        pi = runner.run_impl(batch)
        for c in batch:
            cid = c[0].split()[1]
            li, lm = pi.get(cid), pm.get(cid)
            if li is None:
                mismatches.append((c, "implementation produced no trace")); continue
            ci, cm = canon_impl(li), canon_model(lm or [])
            if ci != cm:
                k = next((k for k in range(min(len(ci), len(cm))) if ci[k] != cm[k]), min(len(ci), len(cm)))
                act = next((x for x in reversed(ci[:k + 1]) if x.startswith("act ")), "?")
                mismatches.append((c, "first difference at line %d (%s): impl %r model %r" % (k, act, ci[k] if k < len(ci) else None, cm[k] if k < len(cm) else None)))
            nsteps += sum(1 for l in li if l.startswith("act "))
            nframes += sum(1 for l in li if l.startswith("ev frame"))
            shapes.add((tuple(sorted(set(l.split()[1] + ":" + (l.split()[4] if l.startswith("ev frame") else "") for l in li if l.startswith("ev ")))),
                        sum(1 for l in c if l.startswith("will ")), any(l.startswith("ev crash") for l in li)))
            for sig, what, idx in monitor(c, li):
                hits.setdefault(sig, []).append((c, what, idx))
        if time.time() - t0 > (1500 if thorough else 34) and b + per < len(cases):
            ctx.notes.append("time budget reached after %d cases" % (b + per))
            cases = cases[:b + per]
            break

    # ---- 3b. interleavings inside one action (no model counterpart): implementation + monitor only
    race_cases = [] if getattr(ctx, "replay", None) else load_race_corpus()
    race_fired = 0
    if race_cases:
        pr = runner.run_impl(race_cases)
        for c in race_cases:
            li = pr.get(c[0].split()[1]) or []
            fired = not any(l.startswith("ev racemiss") for l in li)
            race_fired += fired
            for sig, what, idx in monitor(c, li):
                hits.setdefault(sig, []).append((c, what, idx))
        if race_fired == 0:
            ctx.notes.append("race scenarios: the tree has no yield point 13 (proposed_fixes/c18_proxy_adopt_yield_point.diff): %d scenario(s) ran without the interleaving" % len(race_cases))
    # ---- 4. verdicts
    for sig, lst in hits.items():
        c, what, idx = min(lst, key=lambda x: len(x[0]))
        known = any(k.get("status") == "known" and re.fullmatch(k["match"], sig) for k in ctx.known)
        if not known and len(c) > 8:
            try:
                c = shrink(runner, c, sig)
                # describe the shrunk input, not the one it came from
                out = runner.run_impl([c]).get(c[0].split()[1])
                again = [(w2, i2) for s2, w2, i2 in monitor(c, out or []) if s2 == sig]
                if again:
                    what, idx = again[0]
            except Exception as ex:
                ctx.notes.append("shrink failed: %s" % ex)
        ctx.violation(sig, what, {"case": c, "step": idx, "occurrences": len(lst), "switches": flags,
                                  "how": "python3 tools/check.py C18 --replay <this file>   (or: build/connrun < case file)"}, found_input=True)
    if not ok or not names:
        ctx.violation("proof:C18", "Properties/C18.v no longer checks: " + getattr(ctx, "coq_failure", "missing")[:500],
                      {"broken": "coq", "theorems": names, "detail": getattr(ctx, "coq_failure", "")[:3000]}, found_input=False)
    if not flags.get("chk_addproxy") and not any(sg.startswith("reply-lost:registered-live") for sg in hits):
        ctx.violation("proof-hypothesis:chk_addproxy", "ProxyServerProtocol.ProcessLockResultCommandLocked no longer guards the proxy assignment by the AddProxy result: "
                      "the routing theorems do not apply to this source (C18_refuted_proxy_glued does); no lost reply was observed in this run",
                      {"broken": "hypothesis chk_addproxy", "witness": "corpus/C18/reconnect_generations.case (= ConnRoute.w_reconnect_twice)"}, found_input=False)
    if problems:
        ctx.violation("source-shape:C18", "server/protocol.go no longer has the shape the model transcribes: " + "; ".join(problems)[:600],
                      {"broken": "source patterns of checks/C18.py:derive_flags", "detail": problems}, found_input=False)
    if mismatches:
        c, why = mismatches[0]
        ctx.obligation("model and implementation agree on every generated lifetime", False, "%d mismatching cases; first: %s" % (len(mismatches), why[:400]))
        ctx.violation("correspondence:conn", "model and implementation disagree (%d cases); first: %s" % (len(mismatches), why[:600]),
                      {"broken": "correspondence Conn.v <-> server/protocol.go", "case": c, "detail": why, "switches": flags}, found_input=False)
    else:
        ctx.obligation("model and implementation agree on every generated lifetime", True)
    ctx.trusted += [
        "Coq 8.16.1 kernel; vm_compute only in the refutation witnesses / examples",
        "hand-written model coq/Conn/Conn.v (on top of coq/Engine/*.v) tied to server/protocol.go, server/server.go by this correspondence check; "
        "switches in force: " + ", ".join("%s=%s" % kv for kv in sorted(flags.items())) + " (derived from the source text by derive_flags)",
        "harness/conn/inj/zz_verif_conn.go: real Server.handle goroutines over an in-memory net.Conn (synchronous Write, flagged Read); quiescence = every "
        "connection goroutine finished, idle in Read, or parked on lockWaiter (goroutine dump); manual clock, sweeps replayed by the harness; "
        "debug.SetMaxStack(4MB) so that unbounded recursion ends quickly; action `raceclose`: VerifPointHook closes a connection (client side) and waits "
        "for its Server.handle to return at the first pass of the given yield point",
        "extraction: ExtrOcamlBasic only; ocaml/conn/driver.ml (parser, printer)",
        "not modelled: true interleaving of Close with an asynchronous reply (step granularity only: a reply is routed before a Close, while it drains its wills -- "
        "closed = true, still in SLock.clients --, or after it; not between two statements of Close), TCP / Stream buffering, binary buffered-write mode, "
        "a second database (only DbId 0 exists; DbId 0xff and UNLOCKs for databases never created are modelled, a LOCK for DbId 1..254 -- which creates one -- and "
        "SELECT on a text connection are outside the fragment and never generated), value data, ADMIN sub-protocol and transparency (follower) protocols (their will clause: sub-check C18_wills, process-level scenarios only), "
        "client-chosen RequestId 0, close of a text connection that is parked on a waiting request",
        "monitor: a reply is known to be due when a queued request leaves the wait queue between two census snapshots (grant or timeout); expiry notices and the "
        "immediate answers of a closed connection's own wills are judged only when they are seen (routing) or through their engine effect; `replay_wills` "
        "follows a key only where plain exclusive-lock semantics decides the outcome (no queue on the key, one holder at most, Count = Rcount = 0, flags 0, Expried > 0)",
        "classification of a reply as synchronous (requester's own answer) uses (connection, RequestId): request ids are unique per case in the generator",
    ]
    cov = {
        "evaluations": len(cases), "samples": [c[0].split()[1] for c in cases[:3]],
        "distinct_nontrivial": len(shapes),
        "rule": "distinct (set of event kinds and result codes, number of wills, crashed?) per lifetime case",
        "actions": nsteps, "frames_observed": nframes, "input_distribution": dict(sorted(gen.stats.items())),
        "process_crashes_observed": runner.crashes, "mismatches": len(mismatches),
        "monitor_signatures": {k: len(v) for k, v in hits.items()},
        "monitor_judged": dict(sorted(MON.items())),
        "race_scenarios": len(race_cases), "race_scenarios_with_the_interleaving_taken": race_fired,
        "switches_in_force": flags, "coq_seconds": coq_s, "impl_seconds": round(runner.impl_s, 1), "model_seconds": round(runner.model_s, 1),
    }
    if not getattr(ctx, "replay", None):
        from checks import C18_wills
        vlib.run_sub(ctx, "C18_wills", C18_wills)
        vlib.merge_sub_evidence(cov, ["C18_wills"])
    return ctx.finish(cov, assumptions=[
        "atomicity: one client command / one sweep / one Close (including its will loop) is one step; the goroutine race between Close and a concurrent asynchronous reply is explored at that granularity only",
        "single shard, one database (DbId 0), leader role (sub-check C18_wills: ADMIN-nested sessions and a follower that becomes leader, fixed scenarios on real processes)",
    ])
