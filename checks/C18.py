"""C18 -- disconnect semantics: wills run once, nothing leaks or misroutes.

1. Coq: Properties/C18.vo (model coq/Conn/Conn.v on top of the engine model coq/Engine/*.v; proofs coq/Conn/ConnProofs.v).
   The model carries three source-derived switches (text will-lock / will-unlock type rewrite, closed-result
   self-forward guard); they are recomputed from server/protocol.go on every run, handed to the extracted model and
   named in the evidence.  The theorems are stated for every value of the switches.
2. Source tie, re-run every time: REAL Server.handle goroutines (checkProtocol -> BinaryServerProtocol /
   TextServerProtocol .Process -> Close) over in-memory net.Conn pairs, one real LockDB with the manual clock
   (harness/conn, injected in package server by go build -overlay).  Seeded connection lifetimes (0..6 wills, holds and
   queued requests left behind, close by client / protocol error / server, reconnect under the same or another client
   id, binary and text, timeouts and expiries swept before and after the close) run on the Go code and on the OCaml
   extraction of Conn.v; every frame received by every connection, the engine census (counters, holders, waiters with
   owner and request id), the per-connection state (open, inited, client id, will queue length, proxy target, text
   lockWaiter occupancy) and the clients table are compared after every action.
3. Monitor = the property statement evaluated on the Go observations only: will effects exactly at the close action
   (fresh-key LOCK wills become holders exactly then; UNLOCK wills of own holds release exactly then; in order; not
   earlier; counters bound "at most once"), holds of the closed connection stay until unlocked/expired, every frame is
   received by the issuer of its RequestId or by a connection that registered the client id the issuer had announced,
   the census and the session table drain to zero, Close terminates.
"""
import collections, glob, json, os, re, shutil, subprocess, sys, tempfile, time
from tools import vlib

MANIFEST = {
    "property": "C18",
    "theorems": "coq/Properties/C18.v",
    "model": ["coq/Conn/Conn.v", "coq/Conn/ConnProofs.v", "coq/Engine/Engine2.v"],
    "harness": "harness/conn",
    "ocaml": "ocaml/conn",
    "engine": "coq",
    "category": "proof",
    "text": "Connection layer (will queues, Close, INIT/clients table, proxy re-routing, text lockWaiter) modelled on top "
            "of the lock-engine model and proved for all action lists; the property as stated is refuted by the faithful "
            "model (text wills never run; a replying will of an INITed binary connection recurses without bound; replies "
            "of connections that never sent INIT go to whoever registered the all-zero client id) with witnesses replayed "
            "on the Go code; the guarded theorems are what does hold.",
    "note": "partial: goroutine interleaving of Close with asynchronous replies only at step granularity; TCP and the "
            "stream buffers are replaced by an in-memory net.Conn; the tie is a per-run correspondence check.",
    "technique": "executable Gallina model + induction over action lists; extraction to OCaml; in-package Go harness driving "
                 "real Server.handle goroutines; monitor.",
}

VERIF = vlib.VERIF
FLAGS = ("fix_will_lock", "fix_will_unlock", "fix_closed_rec", "fix_text_closed")
T0 = 1000000
TEXTREQ = 1000000


# ------------------------------------------------------------------ source-derived model switches
def func_body(src, recv, name):
    m = re.search(r"^func \(self \*%s\) %s\(.*?^}\n" % (recv, name), src, flags=re.S | re.M)
    return m.group(0) if m else None


def derive_flags(repo):
    """returns (flags dict, problems list)"""
    src = open(os.path.join(repo, "server", "protocol.go")).read()
    problems = []
    flags = {}
    for key, fn, will, plain in (("fix_will_lock", "commandHandlerLock", "COMMAND_WILL_LOCK", "COMMAND_LOCK"),
                                 ("fix_will_unlock", "commandHandlerUnlock", "COMMAND_WILL_UNLOCK", "COMMAND_UNLOCK")):
        b = func_body(src, "TextServerProtocol", fn)
        if b is None:
            problems.append("TextServerProtocol.%s not found" % fn)
            flags[key] = False
            continue
        m = re.search(r"if lockCommand\.CommandType == protocol\.%s \{(.*?)self\.willCommands\.Push\(lockCommand\)" % will, b, flags=re.S)
        if not m:
            problems.append("%s: will registration block not recognised" % fn)
            flags[key] = False
            continue
        flags[key] = re.search(r"lockCommand\.CommandType\s*=\s*protocol\.%s\b" % plain, m.group(1)) is not None
    b = func_body(src, "BinaryServerProtocol", "ProcessLockResultCommand")
    if b is None:
        problems.append("BinaryServerProtocol.ProcessLockResultCommand not found")
        flags["fix_closed_rec"] = False
    else:
        m = re.search(r"if self\.closed \{(.*?)\n\t\}\n", b, flags=re.S)
        if not m or "self.slock.clients[self.proxys[0].clientId]" not in m.group(1):
            problems.append("ProcessLockResultCommand: closed branch not recognised")
            flags["fix_closed_rec"] = False
        else:
            flags["fix_closed_rec"] = re.search(r"serverProtocol\s*(!=|==)\s*(ServerProtocol\()?self\b", m.group(1)) is not None
    b = func_body(src, "TextServerProtocol", "ProcessLockResultCommand")
    if b is None or "self.lockWaiter <-" not in b:
        problems.append("TextServerProtocol.ProcessLockResultCommand not recognised")
        flags["fix_text_closed"] = False
    else:
        flags["fix_text_closed"] = re.search(r"if self\.closed \{\s*return", b[:b.index("self.lockWaiter <-")]) is not None
    # shape of the pieces the model transcribes (a refactor must be looked at by a human: the tie is then reported broken)
    for recv, fn, needles in (
            ("BinaryServerProtocol", "Close", ["self.closed = true", "proxy.serverProtocol = defaultServerProtocol", "willCommands.Pop()", "self.ProcessCommad(command)", "delete(self.slock.clients, self.proxys[0].clientId)"]),
            ("TextServerProtocol", "Close", ["self.closed = true", "proxy.serverProtocol = defaultServerProtocol", "willCommands.Pop()", "self.ProcessCommad(command)"]),
            ("ProxyServerProtocol", "ProcessLockResultCommandLocked", ["self.serverProtocol == defaultServerProtocol", "slock.clients[self.clientId]", "serverProtocol.AddProxy(self)"]),
            ("TextServerProtocol", "ProcessLockResultCommandLocked", ["command.RequestId != self.lockRequestId"]),
            ("TextServerProtocol", "ProcessLockResultCommand", ["self.lockWaiter <- lockResultCommad"]),
            ("BinaryServerProtocol", "Init", ["self.proxys[0].clientId = clientId", "self.inited = true"])):
        b = func_body(src, recv, fn)
        if b is None:
            problems.append("%s.%s not found" % (recv, fn))
            continue
        for n in needles:
            if n not in b:
                problems.append("%s.%s: expected statement %r not found" % (recv, fn, n))
    i = src.find("func NewTextServerProtocol")
    m = re.search(r"make\(chan \*protocol\.LockResultCommand, (\d+)\)", src[i:i + 1500]) if i >= 0 else None
    if not m or m.group(1) != "4":
        problems.append("NewTextServerProtocol: lockWaiter capacity is not 4 (model constant LOCKWAITER_CAP)")
    return flags, problems


# ------------------------------------------------------------------ case generation
class Gen:
    def __init__(self, rng):
        self.rng = rng
        self.stats = collections.Counter()

    def case(self, cid):
        r = self.rng
        self.req = 0
        self.treq = TEXTREQ
        lines = ["case %s %d %d" % (cid, T0 + r.choice([0, 0, 3, 7, 13]), r.choice([1, 1, 0, 2]))]
        profile = r.choices(["will", "route", "mixed", "many"], [40, 25, 25, 10])[0]
        self.stats["profile_" + profile] += 1
        nconn = r.choice([2, 3, 3, 4, 5])
        kinds = {}
        for c in range(1, nconn + 1):
            kinds[c] = "T" if r.random() < (0.35 if profile != "route" else 0.3) else "B"
        kinds[nconn] = "B"                   # at least one binary observer
        subject = 1
        open_, inited, busy_possible = set(), {}, set()
        keys = [r.choice([3, 7, 11, 19, 258, 70000]) + 10 * i for i in range(r.choice([2, 3, 3]))]
        fresh = iter(range(5000, 5100))
        ids = list(range(101, 110))
        wills = collections.defaultdict(list)
        holds = collections.defaultdict(list)    # conn -> [(key, lockid)] taken with a synchronous SUCCED hoped for
        for c in kinds:
            lines.append("open %d %s" % (c, kinds[c])); open_.add(c)
        cids = [0, 0, 5, 5, 9]

        def lock(c, key=None, lockid=None, timeout=None, expried=None, count=None):
            key = r.choice(keys) if key is None else key
            lockid = r.choice(ids) if lockid is None else lockid
            timeout = r.choice([0, 0, 3, 5, 10]) if timeout is None else timeout
            if kinds[c] == "T" and timeout > 0 and r.random() < 0.6:
                timeout = 0                  # a waiting text request parks the connection: keep those rarer
            expried = r.choice([0, 2, 5, 10, 30, 30]) if expried is None else expried
            count = r.choice([0, 0, 0, 1, 2]) if count is None else count
            return "L %d 0 %d %d 0 %d 0 %d %d 0" % (self.nreq(c, kinds), lockid, key, timeout, expried, count)

        def unlock(c, key=None, lockid=None):
            key = r.choice(keys) if key is None else key
            lockid = r.choice(ids) if lockid is None else lockid
            return "U %d 0 %d %d 0 0 0 0 0 0" % (self.nreq(c, kinds), lockid, key)

        def tick():
            k = r.choices([1, 1, 2, 3, 6, 11], [40, 20, 15, 10, 10, 5])[0]
            sw = ["sweept", "sweepe"]
            r.shuffle(sw)
            return ["adv %d" % k] + sw

        # ---- INITs
        for c in kinds:
            # (an INITed binary connection with a replying will kills the unrepaired server at Close: keep that a minority)
            p_init = (0.45 if profile != "route" else 0.6) if c != subject else (0.12 if profile in ("will", "many") else 0.4)
            if kinds[c] == "B" and r.random() < p_init:
                x = r.choice(cids) if c != subject else r.choice([0, 5, 5, 9])
                lines.append("init %d %d" % (c, x)); inited[c] = x
        # ---- body
        n = r.randint(6, 26) if profile != "many" else r.randint(20, 45)
        nw_target = r.choice([0, 1, 2, 3, 5, 6, 6]) if profile in ("will", "many") else r.choice([0, 0, 1, 2])
        closed = set()
        for step in range(n):
            live = [c for c in open_ if c not in closed]
            if not live:
                break
            x = r.random()
            c = r.choice(live) if r.random() < 0.5 else (subject if subject in live else r.choice(live))
            if x < 0.18 and len(wills[subject]) < nw_target and subject in live:
                c = subject
                kind = r.random()
                if kind < 0.45:
                    k = next(fresh)
                    w = lock(c, key=k, lockid=r.choice(ids), timeout=0, expried=r.choice([30, 30, 10]), count=0)
                elif kind < 0.65 and holds[c]:
                    k, lid = r.choice(holds[c])
                    w = unlock(c, key=k, lockid=lid)
                elif kind < 0.85:
                    w = lock(c, timeout=r.choice([0, 0, 5]))
                else:
                    w = unlock(c)
                lines.append("will %d %s" % (c, w)); wills[c].append(w); self.stats["wills"] += 1
                self.stats["will_text" if kinds[c] == "T" else "will_bin"] += 1
            elif x < 0.25 and len(wills[c]) < 3 and c != subject and (c not in inited or r.random() < 0.1):
                w = lock(c, key=next(fresh), timeout=0, expried=30, count=0) if r.random() < 0.6 else unlock(c)
                lines.append("will %d %s" % (c, w)); wills[c].append(w); self.stats["wills"] += 1
            elif x < 0.55:
                ln = lock(c)
                f = ln.split()
                if int(f[8]) > 0:
                    holds[c].append((int(f[4]), int(f[3])))
                lines.append("req %d %s" % (c, ln)); self.stats["lock"] += 1
            elif x < 0.68:
                if holds[c] and r.random() < 0.7:
                    k, lid = r.choice(holds[c])
                    lines.append("req %d %s" % (c, unlock(c, k, lid)))
                else:
                    lines.append("req %d %s" % (c, unlock(c)))
                self.stats["unlock"] += 1
            elif x < 0.82:
                lines += tick(); self.stats["tick"] += 1
            elif x < 0.92:
                how = r.choice(["client", "client", "error", "server"])
                lines.append("close %d %s" % (c, how)); closed.add(c)
                self.stats["close_" + how] += 1
                self.stats["close_text" if kinds[c] == "T" else "close_bin"] += 1
                self.stats["close_with_%d_wills" % min(len(wills[c]), 6)] += 1
                # reconnect under the same / another client id
                if r.random() < 0.5:
                    nc = max(kinds) + 1
                    kinds[nc] = "B"; open_.add(nc)
                    lines.append("open %d B" % nc)
                    if r.random() < 0.8:
                        same = inited.get(c, 0)
                        x2 = same if r.random() < 0.7 else r.choice([0, 5, 9, 12])
                        lines.append("init %d %d" % (nc, x2)); inited[nc] = x2
                        self.stats["reconnect_same_id" if x2 == same else "reconnect_other_id"] += 1
            else:
                cb = [d for d in live if kinds[d] == "B" and (not wills[d] or r.random() < 0.1)]
                if cb:
                    d = r.choice(cb)
                    x2 = r.choice(cids)
                    lines.append("init %d %d" % (d, x2)); inited[d] = x2
        # ---- close the subject if still open (every lifetime ends), watch, drain
        live = [c for c in open_ if c not in closed]
        if subject in live:
            how = r.choice(["client", "client", "error", "server"])
            lines.append("close %d %s" % (subject, how)); closed.add(subject)
            self.stats["close_" + how] += 1
            self.stats["close_text" if kinds[subject] == "T" else "close_bin"] += 1
            self.stats["close_with_%d_wills" % min(len(wills[subject]), 6)] += 1
        obs = [c for c in open_ if c not in closed and kinds[c] == "B"]
        if obs:
            o = r.choice(obs)
            for w in wills[subject][:3]:
                f = w.split()
                lines.append("req %d %s" % (o, lock(o, key=int(f[4]), lockid=r.choice(ids), timeout=0, expried=2, count=0)))
        for _ in range(r.choice([1, 2, 3])):
            lines += tick()
        lines += ["adv 40", "sweept", "sweepe"]
        # (a close sent to a text connection parked on a waiting request was ignored: by now it has its answer)
        for c in sorted(open_):
            lines.append("close %d client" % c)
        lines += ["adv 40", "sweept", "sweepe", "adv 40", "sweepe", "sweept"]
        lines.append("end")
        return lines

    def nreq(self, c, kinds):
        if kinds[c] == "T":
            self.treq += 1
            return self.treq
        self.req += 1
        return self.req


# ------------------------------------------------------------------ running both sides
class Runner:
    def __init__(self, ctx, impl, model, flags):
        self.ctx, self.impl, self.model, self.flags = ctx, impl, model, flags
        self.crashes = 0
        self.impl_s = self.model_s = 0.0

    def run_model(self, text):
        t = time.time()
        args = [self.model] + ["1" if self.flags[k] else "0" for k in FLAGS]
        p = subprocess.run(args, input=text.encode(), stdout=subprocess.PIPE, stderr=subprocess.PIPE, timeout=600)
        self.model_s += time.time() - t
        if p.returncode != 0:
            raise vlib.BuildError("modelrun failed: " + p.stderr.decode()[-800:])
        return parse_out(p.stdout.decode())

    def run_impl(self, cases):
        """cases: list of line lists.  A fatal error of the Go process ends that case with `ev crash <kind>`; the remaining
        cases run in a fresh process.  returns {case id: [lines]}"""
        t = time.time()
        res = {}
        todo = list(cases)
        while todo:
            text = "\n".join("\n".join(c) for c in todo) + "\n"
            # scratch dir of the harness process (it chdirs into a temp dir; a process that dies cannot remove it itself)
            scratch = tempfile.mkdtemp(prefix="c18-run-")
            try:
                p = subprocess.run([self.impl], input=text.encode(), stdout=subprocess.PIPE, stderr=subprocess.PIPE, timeout=900,
                                   cwd=scratch, env=dict(os.environ, TMPDIR=scratch))
                out, err, rc = p.stdout.decode("utf-8", "replace"), p.stderr.decode("utf-8", "replace"), p.returncode
            except subprocess.TimeoutExpired as ex:
                out, err, rc = (ex.stdout or b"").decode("utf-8", "replace"), "timeout", 124
            finally:
                shutil.rmtree(scratch, ignore_errors=True)
            po = parse_out(out, complete_only=False)
            if rc == 0:
                res.update(po)
                break
            # the process died inside the last case it printed
            ids = [c[0].split()[1] for c in todo]
            last = None
            for i in ids:
                if i in po:
                    last = i
            if last is None:
                raise vlib.BuildError("connrun died before the first case: " + err[-600:])
            kind = "stack-overflow" if "stack overflow" in err or "goroutine stack exceeds" in err else \
                   ("timeout" if rc == 124 else "fatal:" + (re.findall(r"^(?:fatal error|panic): .*", err, flags=re.M) or ["?"])[0].replace(" ", "_")[:80])
            for i in ids:
                if i == last:
                    break
                res[i] = po[i]
            lines = po[last]
            # drop the observations of the action during which it died (nothing after `act` is complete)
            k = max((j for j, l in enumerate(lines) if l.startswith("act ")), default=0)
            res[last] = lines[:k + 1] + ["ev crash " + kind]
            self.crashes += 1
            todo = todo[ids.index(last) + 1:]
        self.impl_s += time.time() - t
        return res


def parse_out(text, complete_only=True):
    res, cur, cid = {}, None, None
    for l in text.splitlines():
        if l.startswith("case "):
            if cid is not None:
                res[cid] = cur      # no `end`: the model stops printing after a crash; the implementation died
            cid, cur = l.split()[1], []
        elif l == "end":
            if cid is not None:
                res[cid] = cur + ["end"]
            cid, cur = None, None
        elif cur is not None:
            cur.append(l)
    if cid is not None:
        res[cid] = cur
    return res


def canon_impl(lines):
    out = []
    for l in lines:
        if l.startswith("#") or l.startswith("ev other "):
            continue
        if l.startswith("snap "):
            l = re.sub(r" sessions=\d+", "", l)
        if l.startswith("ev crash"):
            l = "ev crash"
        out.append(l)
    return out


def canon_model(lines):
    return [l for l in lines if not l.startswith("#")]


# ------------------------------------------------------------------ monitor: the property on implementation observations
class Step:
    def __init__(self, act):
        self.act = act.split()
        self.frames, self.keys, self.conns, self.clients = [], {}, {}, {}
        self.snap = None
        self.ignored = self.crash = False
        self.other = []


LOCKREC = re.compile(r"(\d+):(\d+):(\d+):([01]):([01]):(-?\d+):(-?\d+):(\w+):(\w+|\?)")


def parse_steps(lines):
    steps = []
    for l in lines:
        f = l.split()
        if not f:
            continue
        if f[0] == "act":
            steps.append(Step(l[4:]))
        elif not steps:
            continue
        elif f[0] == "ev":
            s = steps[-1]
            if f[1] == "frame":
                s.frames.append(dict(to=int(f[2]), req=f[3], res=int(f[4]), lc=int(f[5]), lrc=int(f[6]), lockid=int(f[7])))
            elif f[1] == "ignored":
                s.ignored = True
            elif f[1] == "crash":
                s.crash = f[2] if len(f) > 2 else "?"
            else:
                s.other.append(f[1:])
        elif f[0] == "snap":
            steps[-1].snap = dict(kv.split("=") for kv in f[1:])
        elif f[0] == "key":
            m = re.match(r"key (\d+) locked=(\d+) waited=(\d) ref=(\d+) cur=(\S+) holders=\[(.*?)\] waiters=\[(.*?)\]", l)
            recs = lambda s: [dict(lockid=int(a[0]), depth=int(a[1]), req=a[7], owner=a[8], dead_t=a[3] == "1", dead_e=a[4] == "1") for a in LOCKREC.findall(s)]
            cur = recs(m.group(5))
            hs = recs(m.group(6))
            steps[-1].keys[int(m.group(1))] = dict(locked=int(m.group(2)), holders=[h for h in cur + hs if not h["dead_e"] and h["depth"] > 0],
                                                   waiters=[w for w in recs(m.group(7)) if not w["dead_t"]])
        elif f[0] == "conn":
            d = dict(kv.split("=") for kv in f[3:])
            d["kind"] = f[2]
            steps[-1].conns[int(f[1])] = d
        elif f[0] == "clients":
            steps[-1].clients = {int(a.split(">")[0]): a.split(">")[1] for a in f[1:]}
    return steps


def holders_of(step):
    """set of (key, lockid, req, owner) of live holds"""
    return {(k, h["lockid"], h["req"], h["owner"]) for k, v in step.keys.items() for h in v["holders"]}


def monitor(case, lines):
    """returns list of (signature, description, step index)"""
    viol = []
    steps = parse_steps(lines)
    acts = [l.split() for l in case[1:] if l != "end"]
    kinds, issuer, announced, wills, closed_at, ever = {}, {}, {}, collections.defaultdict(list), {}, {}
    key_mentions = collections.Counter()
    for a in acts:
        if a[0] in ("req", "will"):
            key_mentions[int(a[6])] += 1
    prev = None
    for i, s in enumerate(steps):
        a = s.act
        c = int(a[1]) if a[0] in ("open", "init", "req", "will", "close") else None
        if s.crash:
            viol.append(("close-crash:" + s.crash if a[0] == "close" else "crash:%s:%s" % (a[0], s.crash),
                         "the server process died (%s) while handling `%s`%s" % (s.crash, " ".join(a),
                         " -- connection %d had announced client id %s and registered %d will(s)" % (c, announced.get(c), len(wills[c])) if a[0] == "close" else ""), i))
            break
        if a[0] == "open":
            kinds[c] = a[2]
        elif s.ignored:
            pass
        elif a[0] == "init":
            announced[c] = int(a[2])
            ever.setdefault(c, set()).add(int(a[2]))
        elif a[0] == "req":
            if kinds[c] == "B":
                issuer[a[3]] = c
        elif a[0] == "will":
            wills[c].append(a)
            if kinds[c] == "B":
                issuer[a[3]] = c
        elif a[0] == "close":
            closed_at[c] = i
        # ---- routing: every frame reaches the issuer of its request, or a connection registered under the id the issuer announced
        for fr in s.frames:
            to = fr["to"]
            if fr["req"] == "T":
                if kinds.get(to) != "T":
                    viol.append(("misroute:text-origin-to-binary:zero-client-id",
                                 "connection %d (binary, registered client id %s) received the answer (result %d, lock id %d) to a request of a text connection, which never announces a client id"
                                 % (to, announced.get(to), fr["res"], fr["lockid"]), i))
                continue
            src = issuer.get(fr["req"])
            if src is None:
                viol.append(("misroute:unknown-request", "connection %d received a frame for request %s nobody sent" % (to, fr["req"]), i))
            elif src != to:
                if src not in closed_at:
                    viol.append(("misroute:owner-still-open", "frame for request %s of open connection %d delivered to %d" % (fr["req"], src, to), i))
                elif src not in announced:
                    viol.append(("misroute:zero-client-id",
                                 "connection %d (registered client id %s) received the answer (result %d) to request %s of connection %d, which never sent INIT and was closed at step %d"
                                 % (to, announced.get(to), fr["res"], fr["req"], src, closed_at[src]), i))
                elif announced[src] not in ever.get(to, ()):
                    viol.append(("misroute:other-client-id", "frame for request %s of closed connection %d (client id %s) delivered to %d (client id %s)"
                                 % (fr["req"], src, announced[src], to, announced.get(to)), i))
        # ---- wills: never before the close
        if prev is not None and s.snap is not None:
            now_h = holders_of(s)
            for cc, ws in wills.items():
                if kinds.get(cc) != "B" or cc in closed_at:
                    continue
                wreqs = {w[3] for w in ws}
                early = [h for h in now_h if h[2] in wreqs]
                if early:
                    viol.append(("will-early", "will request %s of connection %d shows up as a hold before the connection closed" % (early[0][2], cc), i))
        # ---- the close action itself
        if a[0] == "close" and not s.ignored and s.snap is not None and prev is not None:
            st = s.conns.get(c, {})
            if st.get("stuck") == "1":
                viol.append(("close-blocked:lockwaiter", "Close of text connection %d never returns: will answers filled lockWaiter (capacity 4) and nobody reads it (chan=%s, %d wills)" % (c, st.get("chan"), len(wills[c])), i))
            elif st.get("open") != "0":
                viol.append(("close-not-closed", "connection %d still open after close" % c, i))
            else:
                before, after = holders_of(prev), holders_of(s)
                dL = int(s.snap["L"]) - int(prev.snap["L"])
                dU = int(s.snap["U"]) - int(prev.snap["U"])
                nL = sum(1 for w in wills[c] if w[2] == "L")
                nU = sum(1 for w in wills[c] if w[2] == "U")
                wb = {(k, w["lockid"], w["req"]) for k, v in prev.keys.items() for w in v["waiters"]}
                wa = {(k, w["lockid"], w["req"]) for k, v in s.keys.items() for w in v["waiters"]}
                if dL > nL + len(wb - wa) or dU > nU:       # (waiters woken by a will's release count in LockCount too)
                    viol.append(("will-more-than-once", "close of %d: LockCount +%d / UnLockCount +%d with only %d lock / %d unlock wills" % (c, dL, dU, nL, nU), i))
                if st.get("wills", "0") != "0":
                    viol.append(("will-not-executed:%s" % ("text" if kinds[c] == "T" else "binary"),
                                 "%s connection %d closed with %d will(s) registered; none ran: the will queue still holds %s command(s) after Close (LockCount +%d, UnLockCount +%d)"
                                 % ("text" if kinds[c] == "T" else "binary", c, len(wills[c]), st.get("wills"), dL, dU), i))
                else:
                    # fresh-key LOCK wills must hold their key now; UNLOCK wills of own live holds must have released them
                    seen_key = set()
                    for w in wills[c]:
                        k, lid = int(w[6]), int(w[5])
                        if w[2] == "L" and key_mentions[k] == 1 and int(w[10]) > 0:      # (Expried 0 = no hold is kept)
                            hit = [h for h in after if h[0] == k and h[1] == lid]
                            if len(hit) != 1:
                                viol.append(("will-not-executed:%s" % ("text" if kinds[c] == "T" else "binary"),
                                             "will LOCK key %d of connection %d is not held after Close" % (k, c), i))
                        if w[2] == "U" and k not in seen_key:
                            mine = [h for h in before if h[0] == k and h[1] == lid and h[3] == str(c)]
                            if mine and any(h[0] == k and h[1] == lid and h[2] == mine[0][2] for h in after):
                                viol.append(("will-unlock-not-executed", "will UNLOCK key %d lock id %d of connection %d: the hold is still there after Close" % (k, lid, c), i))
                        seen_key.add(k)
                    # order: two LOCK wills (timeout 0, count 0, different lock ids) on a key that was free: the first wins
                    firsts = {}
                    for w in wills[c]:
                        if w[2] == "L":
                            firsts.setdefault(int(w[6]), []).append(w)
                    for k, ws in firsts.items():
                        if len(ws) >= 2 and not any(h[0] == k for h in before) and all(int(w[11]) == 0 for w in ws) and not any(int(w2[6]) == k for w2 in wills[c] if w2[2] == "U"):
                            hs = [h for h in after if h[0] == k]
                            if hs and int(ws[0][10]) > 0 and hs[0][1] != int(ws[0][5]):
                                viol.append(("will-order", "wills of %d on key %d: holder after Close is lock id %d, the first registered will asked for %s" % (c, k, hs[0][1], ws[0][5]), i))
                # holds of the closed connection stay unless a will released them
                gone = [h for h in before - after if h[3] == str(c)]
                for h in gone:
                    if not any(w[2] == "U" and int(w[6]) == h[0] for w in wills[c]) and not any(w[2] == "L" and int(w[6]) == h[0] for w in wills[c]):
                        viol.append(("hold-lost-at-close", "hold (key %d, lock id %d) of connection %d vanished at its Close without a will touching the key" % (h[0], h[1], c), i))
        if s.snap is not None:
            prev = s
    # ---- drained
    if steps and not steps[-1].crash and steps[-1].snap is not None:
        s = steps[-1]
        stuck = [c for c, d in s.conns.items() if d.get("stuck") == "1"]
        if not stuck:
            if int(s.snap["LD"]) != 0 or int(s.snap["W"]) != 0 or int(s.snap["K"]) != 0 or s.keys:
                viol.append(("leak:engine", "after every connection closed and every deadline passed: LockedCount=%s WaitCount=%s KeyCount=%s keys=%s" % (s.snap["LD"], s.snap["W"], s.snap["K"], sorted(s.keys)), len(steps) - 1))
            if int(s.snap.get("sessions", "0")) != 0:
                viol.append(("leak:sessions", "%s protocol sessions left" % s.snap["sessions"], len(steps) - 1))
            if s.clients:
                viol.append(("leak:clients", "clients table not empty after all connections closed: %s" % s.clients, len(steps) - 1))
            for c, d in s.conns.items():
                if d.get("open") == "0" and d.get("wills", "0") != "0" and not any(v[0].startswith("will-not-executed") for v in viol):
                    viol.append(("leak:will-queue", "closed connection %d keeps %s queued will command(s)" % (c, d["wills"]), len(steps) - 1))
    return viol


# ------------------------------------------------------------------ shrinking on the implementation
def shrink(runner, case, sig, budget=60):
    head, acts = case[0], [l for l in case[1:] if l != "end"]

    def still(a2):
        c2 = [head] + a2 + ["end"]
        out = runner.run_impl([c2])
        cid = head.split()[1]
        if cid not in out:
            return False
        return any(s == sig for s, _, _ in monitor(c2, out[cid]))
    i = 0
    while i < len(acts) and budget > 0:
        trial = acts[:i] + acts[i + 1:]
        budget -= 1
        if still(trial):
            acts = trial
        else:
            i += 1
    return [head] + acts + ["end"]


def load_corpus():
    res = []
    for f in sorted(glob.glob(os.path.join(VERIF, "corpus", "C18", "*.case"))):
        lines = [l.strip() for l in open(f) if l.strip() and not l.startswith("#")]
        cur = None
        for l in lines:
            if l.startswith("case "):
                cur = ["case c:%s:%s %s" % (os.path.basename(f)[:-5], l.split()[1], " ".join(l.split()[2:]))]
            elif cur is not None:
                cur.append(l)
                if l == "end":
                    res.append(cur); cur = None
    return res


def run(ctx):
    t0 = time.time()
    thorough = ctx.tier == "thorough"
    repo = vlib.REPO
    flags, problems = derive_flags(repo)
    ctx.obligation("model switches derived from server/protocol.go (%s)" % ", ".join("%s=%d" % kv for kv in sorted(flags.items())), not problems, "; ".join(problems))
    # ---- 1. proofs
    ok, log = ctx.coq(["Properties/C18.vo"])
    pfile = os.path.join(vlib.COQ, "Properties", "C18.v")
    names = re.findall(r"^Theorem (C18_\w+)", open(pfile).read(), flags=re.M) if os.path.exists(pfile) else []
    if not names:
        ctx.obligation("Properties/C18.v states the property theorems", False, "no theorem file yet")
    for nm in names:
        ctx.obligation(nm, ok and nm in ctx.assumption_report, "" if ok else getattr(ctx, "coq_failure", "")[:300])
    coq_s = round(getattr(ctx, "coq_time", 0), 1)
    if thorough and ok and names:
        okc, outc = ctx.coqchk(["Slock.Properties.C18"])
        ctx.obligation("coqchk -o Slock.Properties.C18 (axioms: none)", okc and "Axioms: <none>" in outc, "" if okc else outc[-600:])
    # ---- 2. builds from the current tree
    impl = ctx.go_build("connrun", os.path.join(VERIF, "harness", "conn"), overlay={"server/zz_verif_conn.go": "harness/conn/inj/zz_verif_conn.go"}, pkg="./cmd/connrun")
    model = ctx.ocaml_model("conn", deps=["Conn/Conn.vo"])
    ctx.obligation("harness builds against %s's working tree" % repo, True)
    runner = Runner(ctx, impl, model, flags)

    # ---- 3. cases: replay / corpus first, then seeded lifetimes
    gen = Gen(ctx.rng)
    if getattr(ctx, "replay", None):
        rp = json.load(open(ctx.replay))
        c = rp.get("replay", {}).get("case") or rp.get("case")
        if not c:
            print("replay file has no case")
            return 2
        cases = [c]
    else:
        cases = load_corpus()
        n = 6000 if thorough else 300
        cases += [gen.case("g%d" % i) for i in range(n)]
    mismatches, hits = [], collections.OrderedDict()
    nsteps = nframes = 0
    shapes = set()
    per = 150
    for b in range(0, len(cases), per):
        batch = cases[b:b + per]
        text = "\n".join("\n".join(c) for c in batch) + "\n"
        pm = runner.run_model(text)
        pi = runner.run_impl(batch)
        for c in batch:
            cid = c[0].split()[1]
            li, lm = pi.get(cid), pm.get(cid)
            if li is None:
                mismatches.append((c, "implementation produced no trace")); continue
            ci, cm = canon_impl(li), canon_model(lm or [])
            if ci != cm:
                k = next((k for k in range(min(len(ci), len(cm))) if ci[k] != cm[k]), min(len(ci), len(cm)))
                act = next((x for x in reversed(ci[:k + 1]) if x.startswith("act ")), "?")
                mismatches.append((c, "first difference at line %d (%s): impl %r model %r" % (k, act, ci[k] if k < len(ci) else None, cm[k] if k < len(cm) else None)))
            nsteps += sum(1 for l in li if l.startswith("act "))
            nframes += sum(1 for l in li if l.startswith("ev frame"))
            shapes.add((tuple(sorted(set(l.split()[1] + ":" + (l.split()[4] if l.startswith("ev frame") else "") for l in li if l.startswith("ev ")))),
                        sum(1 for l in c if l.startswith("will ")), any(l.startswith("ev crash") for l in li)))
            for sig, what, idx in monitor(c, li):
                hits.setdefault(sig, []).append((c, what, idx))
        if time.time() - t0 > (1500 if thorough else 48) and b + per < len(cases):
            ctx.notes.append("time budget reached after %d cases" % (b + per))
            cases = cases[:b + per]
            break

    # ---- 4. verdicts
    for sig, lst in hits.items():
        c, what, idx = min(lst, key=lambda x: len(x[0]))
        known = any(k.get("status") == "known" and re.fullmatch(k["match"], sig) for k in ctx.known)
        if not known and len(c) > 8:
            try:
                c = shrink(runner, c, sig)
            except Exception as ex:
                ctx.notes.append("shrink failed: %s" % ex)
        ctx.violation(sig, what, {"case": c, "step": idx, "occurrences": len(lst), "switches": flags,
                                  "how": "python3 tools/check.py C18 --replay <this file>   (or: build/connrun < case file)"}, found_input=True)
    if not ok or not names:
        ctx.violation("proof:C18", "Properties/C18.v no longer checks: " + getattr(ctx, "coq_failure", "missing")[:500],
                      {"broken": "coq", "theorems": names, "detail": getattr(ctx, "coq_failure", "")[:3000]}, found_input=False)
    if problems:
        ctx.violation("source-shape:C18", "server/protocol.go no longer has the shape the model transcribes: " + "; ".join(problems)[:600],
                      {"broken": "source patterns of checks/C18.py:derive_flags", "detail": problems}, found_input=False)
    if mismatches:
        c, why = mismatches[0]
        ctx.obligation("model and implementation agree on every generated lifetime", False, "%d mismatching cases; first: %s" % (len(mismatches), why[:400]))
        ctx.violation("correspondence:conn", "model and implementation disagree (%d cases); first: %s" % (len(mismatches), why[:600]),
                      {"broken": "correspondence Conn.v <-> server/protocol.go", "case": c, "detail": why, "switches": flags}, found_input=False)
    else:
        ctx.obligation("model and implementation agree on every generated lifetime", True)
    ctx.trusted += [
        "Coq 8.16.1 kernel; vm_compute only in the refutation witnesses / examples",
        "hand-written model coq/Conn/Conn.v (on top of coq/Engine/*.v) tied to server/protocol.go, server/server.go by this correspondence check; "
        "switches in force: " + ", ".join("%s=%s" % kv for kv in sorted(flags.items())) + " (derived from the source text by derive_flags)",
        "harness/conn/inj/zz_verif_conn.go: real Server.handle goroutines over an in-memory net.Conn (synchronous Write, flagged Read); quiescence = every "
        "connection goroutine finished, idle in Read, or parked on lockWaiter (goroutine dump); manual clock, sweeps replayed by the harness; "
        "debug.SetMaxStack(4MB) so that unbounded recursion ends quickly",
        "extraction: ExtrOcamlBasic only; ocaml/conn/driver.ml (parser, printer)",
        "not modelled: true interleaving of Close with an asynchronous reply (step granularity only), TCP / Stream buffering, binary buffered-write mode, "
        "DbId other than 0, value data, ADMIN sub-protocol, transparency (follower) protocols, client-chosen RequestId 0, close of a text connection that is parked on a waiting request",
        "classification of a reply as synchronous (requester's own answer) uses (connection, RequestId): request ids are unique per case in the generator",
    ]
    cov = {
        "evaluations": len(cases), "samples": [c[0].split()[1] for c in cases[:3]],
        "distinct_nontrivial": len(shapes),
        "rule": "distinct (set of event kinds and result codes, number of wills, crashed?) per lifetime case",
        "actions": nsteps, "frames_observed": nframes, "input_distribution": dict(sorted(gen.stats.items())),
        "process_crashes_observed": runner.crashes, "mismatches": len(mismatches),
        "monitor_signatures": {k: len(v) for k, v in hits.items()},
        "switches_in_force": flags, "coq_seconds": coq_s, "impl_seconds": round(runner.impl_s, 1), "model_seconds": round(runner.model_s, 1),
    }
    return ctx.finish(cov, assumptions=[
        "atomicity: one client command / one sweep / one Close (including its will loop) is one step; the goroutine race between Close and a concurrent asynchronous reply is explored at that granularity only",
        "single shard, one database (DbId 0), leader role",
    ])
