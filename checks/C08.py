"""C08 — crash at any byte of the log recovers a clean record prefix.

Obligations : coq/Properties/C08.v (theorems over the byte-exact model coq/Aof/*.v, both source variants).
Tie         : (1) the model variant (`fixes` record) is derived from the TEXT of <repo>/server/aof.go (four switches);
              (2) differential run: the same command script (write a workload with the real AofFile, cut the files at
              EVERY offset of the append file with the consistent value-file length, load with the real
              Aof.LoadAofFiles; second restart: Open in append mode, append, reload) is executed by the Go harness
              (harness/aof, injected in-package by overlay) and by the extracted model (ocaml/aof/modelrun); outputs are
              compared line by line;
              (3) monitor on the Go observations: start succeeds and the delivered list is the (expiry-filtered) list
              of a PREFIX of the complete records written; second restart delivers first-restart-list ++ new records;
              (4) replay of finding witnesses on a full in-process node (census of holds);
              (5) values of the .dat side file that straddle the buffer of its bufio reader (bufSize*64 bytes): `big*`
              workloads laid out against the simulated reader state (length prefix and/or payload across the chunk
              boundary, values larger than the chunk: direct reads), cut around record / value / chunk boundaries.
"""
import json, os, re, shutil, subprocess, tempfile, time
import vlib

MANIFEST = {
    "engine": "coq",
    "category": "proof",
    "text": "Coq theorems over a byte-exact executable model of AofFile/LoadAofFiles (bufio refill, stale lock buffer, "
            "two-write flush, append-mode open; ReadLockData through the bufio reader of the value file with its two "
            "continuation loops, proved equal to 'the next 4+len bytes or EOF' for every reader state, buffer size and "
            "value length): for the repaired source variant every consistent crash image loads to an "
            "expiry-filtered prefix of the written records and a second restart recovers prefix ++ new records; for the "
            "source as it is today the same statements are refuted by concrete byte images (proved by vm_compute, replayed "
            "on the real code) and the guarded theorem (cuts at record boundaries) is proved.",
    "note": "Model tied to the source by source-derived switches + exhaustive-offset differential run against the real "
            "AofFile/LoadAofFiles; OS model (byte-list files, no reordering of completed writes, fsync not modelled) trusted.",
    "technique": "interactive proof (Coq) + extraction-based differential testing + runtime monitor",
    "design_ref": "DESIGN.md section 5 C08",
}

NOW = 1_700_000_000


# ----------------------------------------------------------------------------------------------- source switches
def func_body(src, name):
    m = re.search(r"\nfunc \(self \*AofFile\) %s\(.*?\n}\n" % name, src, flags=re.S)
    return m.group(0) if m else ""


def source_switches(repo):
    src = open(os.path.join(repo, "server", "aof.go")).read()
    rl = func_body(src, "ReadLock")
    rh = func_body(src, "ReadHeader")
    op = func_body(src, "Open")
    m = re.search(r"nn, nerr := .*?\n\s*if nerr != nil \{\s*\n\s*return ([^\n]+)\n", rl)
    ret = m.group(1).strip() if m else "?"
    rl_nerr = ret in ("nerr", "io.EOF", "io.ErrUnexpectedEOF")
    rl_short = bool(re.search(r"if n < 64 \{\s*\n\s*return io\.EOF", rl))
    hdr = bool(re.search(r"if n != 12 \{\s*\n\s*return io\.EOF", rh))
    trunc = bool(re.search(r"Truncate\(int64\(", op))
    return {"rl_nerr": rl_nerr, "rl_short": rl_short, "hdr": hdr, "trunc": trunc, "readlock_second_read_returns": ret}


# ----------------------------------------------------------------------------------------------- generators
def mkrec(rng, typ, key, lockid, flag=0, eflag=0x4000, et=0, ct=NOW, rcount=0, count=0, idx=1, off=0, db=0):
    b = bytearray(64)
    b[0], b[1], b[2] = 62, 0, typ
    b[3:7] = off.to_bytes(4, "little")
    b[7:11] = idx.to_bytes(4, "little")
    b[11:19] = ct.to_bytes(8, "little")
    b[19], b[20] = 0, db
    b[21:37] = lockid
    b[37:53] = key
    b[53:55] = (0).to_bytes(2, "little")
    b[55:57] = flag.to_bytes(2, "little")
    b[57:59] = et.to_bytes(2, "little")
    b[59:61] = eflag.to_bytes(2, "little")
    b[61:63] = count.to_bytes(2, "little")
    b[63] = rcount
    return bytes(b)


def mkval(payload):
    body = bytes([0, 0]) + payload
    return len(body).to_bytes(4, "little") + body


def gen_workload(rng, n, data_p=0.35, simple=False, small=False):
    """list of ops: ('i', rec, data|None) | ('f',)"""
    ops = []
    keys = [bytes([0xB0 + i]) * 16 for i in range(4)]
    off = 0
    for i in range(n):
        off += 1
        key = rng.choice(keys)
        lockid = bytes([0xA0 + rng.randrange(6)]) * 8 + bytes([rng.randrange(256) for _ in range(8)])
        typ = 1 if rng.random() < 0.7 else 2
        flag = 0
        data = None
        if rng.random() < data_p:
            flag |= 0x2000
            data = mkval(bytes([rng.randrange(256) for _ in range(rng.choice([0, 1, 3, 5] if small else [0, 1, 3, 8, 17, 40, 130]))]))
        if rng.random() < 0.2:
            flag |= 0x0008
        if simple:
            eflag, et, ct = 0x4000, 0, NOW
        else:
            r = rng.random()
            if r < 0.4:
                eflag, et, ct = 0x4000, rng.choice([0, 0xffff]), NOW - rng.randrange(100)
            elif r < 0.7:
                eflag, et, ct = 0x0100, rng.choice([0, 5, 60, 600]), NOW - rng.choice([0, 3, 30, 100, 700])
            elif r < 0.85:
                eflag, et, ct = 0x0140, rng.choice([1, 2, 10]), NOW - rng.choice([0, 30, 90, 700])
            else:
                eflag, et, ct = 0x0500, rng.choice([500, 3000, 60000]), NOW - rng.choice([0, 2, 59, 61])
        rec = mkrec(rng, typ, key, lockid, flag=flag, eflag=eflag, et=et, ct=ct, rcount=rng.choice([0, 0, 1, 2]),
                    count=rng.choice([0, 1, 5]), off=off)
        ops.append(("i", rec, data))
        if rng.random() < 0.25:
            ops.append(("f",))
    return ops


def eff(b):
    return b - b % 64


def frames_of(ops):
    """on-disk sizes (4-byte length prefix included) of the values of a workload, in .dat order"""
    return [len(o[2]) for o in ops if o[0] == "i" and o[2] is not None and (int.from_bytes(o[1][55:57], "little") & 0x2000)]


class DatReader:
    """bufio.Reader over the .dat file at the level of sizes: which reads ReadLockData issues for a sequence of value
    frames (used to LAY OUT the big workloads against the buffer boundary and to MEASURE what a workload exercises)."""

    def __init__(self, D, total=1 << 60):
        self.D, self.total, self.fpos, self.avail, self.refills = D, total, 0, 0, []

    def read(self, n):
        if self.avail == 0:
            rem = self.total - self.fpos
            if rem <= 0:
                return 0, "eof"
            if n >= self.D:
                k = min(n, rem)
                self.fpos += k
                return k, "direct"
            got = min(self.D, rem)
            self.refills.append(self.fpos)
            self.fpos += got
            self.avail = got
            k = min(n, got)
            self.avail -= k
            return k, "refill"
        k = min(n, self.avail)
        self.avail -= k
        return k, "buf"

    def value(self, frame):
        """reads one value frame; returns the description of the reads, or None at EOF"""
        info = {"start": self.fpos - self.avail, "frame": frame, "empty_at_start": self.avail == 0, "prefix_cont": 0,
                "payload_cont": 0, "direct_first": False, "direct_cont": False}
        k, how = self.read(4)
        if how == "eof":
            return None
        n = k
        while n < 4:
            k, how = self.read(4 - n)
            if how == "eof":
                return None
            info["prefix_cont"] += 1
            n += k
        want = frame - 4
        if want <= 0:
            return info
        info["empty_before_payload"] = self.avail == 0
        k, how = self.read(want)
        if how == "eof":
            return None
        info["direct_first"] = how == "direct"
        n = k
        while n < want:
            k, how = self.read(want - n)
            if how == "eof":
                return None
            info["payload_cont"] += 1
            info["direct_cont"] = info["direct_cont"] or how == "direct"
            n += k
        return info


def sim_values(frames, D):
    rd = DatReader(D, sum(frames))
    res = []
    for f in frames:
        v = rd.value(f)
        if v is None:
            break
        res.append(v)
    return res, rd.refills


def big_rec(rng, i, data):
    key = bytes([0xB0 + rng.randrange(4)]) * 16
    lockid = bytes([0xA0 + rng.randrange(6)]) * 8 + bytes([rng.randrange(256) for _ in range(8)])
    flag = 0x2000 if data is not None else 0
    if rng.random() < 0.15:
        eflag, et, ct = 0x0100, 5, NOW - 700            # expired: filtered out of the delivered list, its value is still read
    else:
        eflag, et, ct = 0x4000, rng.choice([0, 0xffff]), NOW - rng.randrange(100)
    return mkrec(rng, 1 if rng.random() < 0.7 else 2, key, lockid, flag=flag, eflag=eflag, et=et, ct=ct,
                 rcount=rng.choice([0, 0, 1]), count=rng.choice([0, 1, 5]), off=i + 1)


def gen_big_workload(rng, rbuf, chunks=3.2, flush_p=0.3, nodata_p=0.3):
    """values laid out against the buffer of the .dat reader (D = rbuf*64 bytes): the generator follows the simulated
    reader and places the END of a value (= the start of the next one) within -8..+8 bytes of the end of the chunk that is
    buffered at that moment, uses values of exactly D (+-8) bytes, values larger than D (direct reads) and several
    consecutive large values, mixed with small ones, records without data and flushes."""
    D = eff(rbuf) * 64
    rd = DatReader(D)
    ops, total, i = [], 0, 0
    while total < chunks * D and i < 40:
        if rng.random() < nodata_p:
            ops.append(("i", big_rec(rng, i, None), None))
            i += 1
        pos = rd.fpos - rd.avail
        chunk_end = rd.fpos if rd.avail > 0 else pos + D      # an empty buffer is refilled at the next prefix read
        r = rng.random()
        if r < 0.46:
            frame = chunk_end + rng.choice([-8, -5, -4, -3, -3, -2, -2, -1, -1, 0, 0, 1, 2, 3, 4, 5, 8]) - pos
            if frame < 6:
                frame += D
        elif r < 0.56:
            frame = 6 + rng.choice([0, 1, 3, 17, 40])
        elif r < 0.70:
            frame = 6 + rng.randrange(1500, 3001)
        elif r < 0.82:
            frame = D + rng.randrange(-8, 9)
        else:
            frame = D + rng.randrange(100, D + 200)
        data = mkval(bytes([rng.randrange(256) for _ in range(frame - 6)]))
        ops.append(("i", big_rec(rng, i, data), data))
        i += 1
        total += frame
        rd.value(frame)
        if rng.random() < flush_p:
            ops.append(("f",))
    return ops


def directed_big_workload():
    """deterministic: reader buffer 64 (chunk 4096).  Two 3000-byte values (the second one across offset 4096: the layout of
    the demonstration of a wrong continuation-read offset), then a value that ends 2 bytes before the end of the chunk
    buffered at that moment (the next LENGTH PREFIX straddles), a record without data, a value ending exactly at the
    chunk end, a value larger than the chunk read on an EMPTY buffer (direct first read), a small one, a value larger
    than the chunk read on a NON-empty buffer (direct continuation read), a final small value."""
    import random
    rng = random.Random(0xC08)
    D = 4096
    rd = DatReader(D)
    ops, i = [], 0

    def add(frame, flush=False):
        nonlocal i
        data = mkval(bytes([(7 * j + 13 * i + 1) % 251 for j in range(frame - 6)]))
        lockid = bytes([0xA0 + i]) * 16
        ops.append(("i", mkrec(None, 1, bytes([0xB0 + i % 4]) * 16, lockid, flag=0x2000, off=i + 1), data))
        i += 1
        rd.value(frame)
        if flush:
            ops.append(("f",))

    def to_chunk_end(delta):
        pos = rd.fpos - rd.avail
        end = rd.fpos if rd.avail > 0 else pos + D
        f = end + delta - pos
        return f if f >= 6 else f + D

    add(3006)
    add(3006, flush=True)
    add(to_chunk_end(-2))
    ops.append(("i", mkrec(None, 1, bytes([0xB7]) * 16, bytes([0xAF]) * 16, off=40), None))
    add(40)                               # its length prefix straddles
    add(to_chunk_end(0), flush=True)      # ends exactly at the chunk end: the next value starts on an empty buffer...
    add(10)                               # ... refill; small
    add(to_chunk_end(-4))                 # the next prefix ends exactly at the chunk end
    add(D + 300)                          # payload read on an EMPTY buffer, >= D: direct read
    add(6 + 17)
    add(2 * D + 100, flush=True)          # non-empty buffer, remainder >= D: direct continuation read
    add(6 + 3)
    return ops


def expired(rec, now):
    ct = int.from_bytes(rec[11:19], "little")
    et = int.from_bytes(rec[57:59], "little")
    ef = int.from_bytes(rec[59:61], "little")

    def i64(x):
        x &= (1 << 64) - 1
        return x if x < (1 << 63) else x - (1 << 64)
    if ef & 0x0400:
        return i64(ct + et // 1000) <= now
    if ef & 0x0040:
        return i64(ct + et * 60) <= now
    if not ef & 0x4000:
        return et > 0 and i64(ct + et) <= now
    return False


def hx(b):
    if b is None:
        return "-"
    return b.hex() if len(b) else "e"


def item_str(rec, data):
    return hx(rec) + ":" + hx(data)


# ----------------------------------------------------------------------------------------------- running both sides
def run_script(exe, args, script, timeout=600):
    p = subprocess.run([exe] + args, input=script.encode(), stdout=subprocess.PIPE, stderr=subprocess.PIPE, timeout=timeout)
    return p.returncode, p.stdout.decode(), p.stderr.decode()


def canon(line):
    # file-open errors carry the scratch path
    return re.sub(r"err:open_\S+", "err:nofile", line)


def consistent_cuts(sizes, near=None, rng=None, sample=0):
    """sizes: [(a,d)] after open and after every op (and close). Within one op the append file is written first, then the
    value file.  Returns the list of (a, d, kind) crash images, kind in {'aof','dat'}; includes the header write.
    near = (aof_marks, dat_marks, radius): keep only the cuts within `radius` bytes of a mark (op boundaries are always
    marks), plus `sample` random ones per file (big workloads: an exhaustive cut of 12 KB values is not affordable)."""
    cuts = [(a, 0, "aof") for a in range(0, 13)]
    pa, pd = sizes[0]
    for (a, d) in sizes[1:]:
        for x in range(pa + 1, a + 1):
            cuts.append((x, pd, "aof"))
        for y in range(pd + 1, d + 1):
            cuts.append((a, y, "dat"))
        pa, pd = a, d
    if near is None:
        return cuts
    am, dm, rad = near
    am = set(am) | set(a for a, _ in sizes)
    dm = set(dm) | set(d for _, d in sizes)
    amn = set(m + e for m in am for e in range(-rad, rad + 1))
    dmn = set(m + e for m in dm for e in range(-rad, rad + 1))
    keep, rest = [], []
    for c in cuts:
        if c[0] < 13 and c[2] == "aof":
            keep.append(c)
        elif (c[2] == "aof" and c[0] in amn) or (c[2] == "dat" and c[1] in dmn):
            keep.append(c)
        else:
            rest.append(c)
    if rng is not None and sample and rest:
        ra = [c for c in rest if c[2] == "aof"]
        rdd = [c for c in rest if c[2] == "dat"]
        extra = set(rng.sample(ra, min(sample, len(ra))) + rng.sample(rdd, min(sample, len(rdd))))
        keep = [c for c in cuts if c in extra or c in set(keep)]
    return keep


def big_marks(p):
    """marks for the cut selection of a big workload: record boundaries of the append file; value boundaries (and the
    end of every length prefix), multiples of the reader chunk and the simulated refill offsets of the .dat file"""
    D = eff(p["rbuf"]) * 64
    frames = frames_of(p["ops"])
    am = [12 + 64 * k for k in range(len([o for o in p["ops"] if o[0] == "i"]) + 1)]
    dm, off = [], 0
    for f in frames:
        dm += [off, off + 4]
        off += f
    dm.append(off)
    dm += [k * D for k in range(1, off // D + 2)]
    dm += sim_values(frames, D)[1]
    return am, dm


def run(ctx):
    repo = vlib.REPO
    sw = source_switches(repo)
    ctx.notes.append("source switches derived from %s/server/aof.go: %s" % (repo, json.dumps(sw)))
    fully_fixed = sw["rl_nerr"] and sw["rl_short"] and sw["hdr"] and sw["trunc"]

    # ---- 1. proofs
    ok, log = ctx.coq(["Properties/C08.vo"])
    theorems = ["C08_writer_crash_shape", "C08_crash_any_byte_repaired", "C08_first_restart_repaired",
                "C08_second_restart_repaired", "C08_second_restart_writer", "C08_first_restart_today_record_boundary",
                "C08_refuted_torn_tail", "C08_refuted_straddle_start_fails", "C08_refuted_torn_header_start_fails",
                "C08_refuted_misaligned_append", "C08_refuted_value_stolen",
                "C08_value_straddles_buffer", "C08_value_reader_is_stream_reader", "C08_value_truncated_is_eof",
                "C08_executable_caps_unobservable"]
    for th in theorems:
        present = th in ctx.assumption_report
        ctx.obligation(th, ok and present, "" if (ok and present) else getattr(ctx, "coq_failure", "not compiled"))
    if not ok:
        ctx.violation("proof:C08", "a C08 theorem no longer checks", {"broken": "coq", "log": getattr(ctx, "coq_failure", log[-2000:])}, found_input=False)

    # ---- 2. builds
    aofh = ctx.go_build("aofh", os.path.join(vlib.VERIF, "harness", "aof"),
                        overlay={"server/zz_verif_aof.go": "harness/aof/inj/zz_verif_aof.go"})
    modelrun = ctx.ocaml_model("aof")

    thorough = ctx.tier == "thorough"
    rng = ctx.rng
    fxline = "fx %d %d %d %d" % (sw["rl_nerr"], sw["rl_short"], sw["hdr"], sw["trunc"])

    # ---- 3. workloads: (wbuf, rbuf, ops)
    workloads = []
    cdir = os.path.join(vlib.VERIF, "corpus", "C08")
    for f in sorted(os.listdir(cdir)) if os.path.isdir(cdir) else []:
        if f.endswith(".json"):
            c = json.load(open(os.path.join(cdir, f)))
            ops = [("i", bytes.fromhex(o[1]), None if o[2] == "-" else bytes.fromhex(o[2])) if o[0] == "i" else ("f",) for o in c["ops"]]
            workloads.append((c["wbuf"], c["rbuf"], ops, "corpus:" + f))
    nw = 400 if thorough else 38
    for i in range(nw):
        wbuf = rng.choice([64, 128, 256, 4096])
        rbuf = rng.choice([64, 128, 192, 256, 4096])
        n = rng.choice([1, 2, 3, 4, 5, 6, 8, 10, 12]) if not thorough else rng.choice([1, 2, 3, 5, 8, 12, 20, 30])
        workloads.append((wbuf, rbuf, gen_workload(rng, n), "gen%d" % i))
    # long workloads crossing the default 4096-byte reader buffer (12-byte header misaligns 64-byte records)
    for i in range(6 if thorough else 1):
        workloads.append((4096, 4096, gen_workload(rng, 66 + rng.randrange(4), data_p=0.05), "long%d" % i))

    # values that straddle the buffer of the .dat reader (rbuf*64 bytes): directed layout + random layouts that follow
    # the simulated reader; writer buffers 64/128 (value buffer 4096/8192: larger values are written directly) and 4096
    workloads.append((64, 64, directed_big_workload(), "big-directed"))
    for i in range(24 if thorough else 3):
        rbuf = 128 if (i % 3 == 2) else 64
        workloads.append((rng.choice([64, 128, 4096]), rbuf, gen_big_workload(rng, rbuf, chunks=(2.1 if rbuf == 128 else rng.choice([2.2, 3.2]))), "big%d" % i))

    # ---- 4. script
    lines = [fxline]
    plan = []   # per workload: dict
    for (wbuf, rbuf, ops, name) in workloads:
        lines.append("new %d" % wbuf)
        for o in ops:
            lines.append("w %s %s" % (hx(o[1]), hx(o[2])) if o[0] == "i" else "f")
        lines.append("close")
        lines.append("mdump")
        plan.append({"name": name, "wbuf": wbuf, "rbuf": rbuf, "ops": ops, "nlines": 3 + len(ops)})
    # pass 1: obtain sizes from the real code (needed to enumerate the consistent cuts)
    rc, out1, err1 = run_script(aofh, ["file"], "\n".join(l for l in lines if not l.startswith("fx")) + "\n")
    if rc != 0:
        raise vlib.BuildError("aofh file (pass 1) failed rc=%d: %s" % (rc, err1[-1500:]))
    o1 = out1.strip().split("\n")
    pos = 0
    for p in plan:
        seg = o1[pos:pos + p["nlines"]]
        pos += p["nlines"]
        p["sizes"] = [tuple(int(x) for x in l.split()[1:3]) for l in seg[:-1]]
        d = seg[-1].split()
        p["aof"] = bytes.fromhex(d[1]) if d[1] not in ("e", "-") else b""
        p["dat"] = bytes.fromhex(d[2]) if d[2] not in ("e", "-") else b""
        p["big"] = len(p["dat"]) > 2000

    # pass 2: full script with cuts and second restarts
    lines = [fxline]
    expect = []     # (kind, workload index, info) per output line
    stats_garbage = []
    for wi, p in enumerate(plan):
        lines.append("new %d" % p["wbuf"])
        expect.append(("sz", wi, None))
        for o in p["ops"]:
            lines.append("w %s %s" % (hx(o[1]), hx(o[2])) if o[0] == "i" else "f")
            expect.append(("sz", wi, None))
        lines.append("close")
        expect.append(("sz", wi, None))
        lines.append("mdump")
        expect.append(("dump", wi, None))
        if p["big"]:
            am, dm = big_marks(p)
            cuts = consistent_cuts(p["sizes"], near=(am, dm, 2), rng=rng, sample=(40 if thorough else 10))
        else:
            cuts = consistent_cuts(p["sizes"])
        p["cuts"] = cuts
        for (a, d, kind) in cuts:
            lines.append("image %d %d" % (a, d))
            expect.append(("ok", wi, None))
            lines.append("load %d %d" % (NOW, p["rbuf"]))
            expect.append(("load1", wi, (a, d, kind)))
        # inconsistent / unusual images: differential only (no monitor)
        for _ in range(6):
            a = rng.randrange(-1, len(p["aof"]) + 1)
            d = rng.randrange(-1, len(p["dat"]) + 1)
            lines.append("image %d %d" % (a, d))
            expect.append(("ok", wi, None))
            lines.append("load %d %d" % (NOW, rng.choice([64, 128, 4096])))
            expect.append(("loadx", wi, (a, d, "any")))
        # a length prefix of the value file replaced by a length that reaches beyond the end of the file (garbage lengths up
        # to 2^32-1: the model caps the requested length, the code allocates it): differential only
        if p["big"] or (p["dat"] and rng.random() < 0.2):
            frames = frames_of(p["ops"])
            if len(p["dat"]) == sum(frames) and frames:
                j = rng.randrange(len(frames))
                offj = sum(frames[:j])
                rem = len(p["dat"]) - offj - 4
                glens = [rem + 1, rem + rng.randrange(2, 5000), 1 << 24]
                if p["name"] == "big-directed":
                    # a 2..4 GiB allocation costs the real code seconds (page zeroing): only in the thorough tier
                    glens += [(1 << 31) - 1, (1 << 32) - 1] if thorough else [(1 << 28) + 5]
                for gl in glens:
                    bad = p["dat"][:offj] + gl.to_bytes(4, "little") + p["dat"][offj + 4:]
                    lines.append("image %d %d" % (len(p["aof"]), len(p["dat"])))
                    expect.append(("ok", wi, None))
                    lines.append("put append.aof.1.dat %s" % hx(bad))
                    expect.append(("ok", wi, None))
                    lines.append("load %d %d" % (NOW, p["rbuf"]))
                    expect.append(("loadx", wi, (len(p["aof"]), len(p["dat"]), "garbage-length")))
                    stats_garbage.append(gl)
        # second restart on a sample of cuts: all residue kinds
        sample = [c for c in cuts if c[0] >= 12]
        rng.shuffle(sample)
        sample = sample[:(30 if thorough else 10)]
        if p["name"].startswith("long"):
            sample = sample[:3]
        if p["big"]:
            sample = sample[:(6 if thorough else 2)]
        # a crash inside the 12-byte header of a new file: the append-mode Open must start the file afresh
        torn_hdr = [c for c in cuts if 0 < c[0] < 12]
        sample += torn_hdr if (thorough or wi < 3) else torn_hdr[:2]
        for (a, d, kind) in sample:
            ops2 = [o for o in gen_workload(rng, rng.choice([1, 2, 3]), data_p=0.5, small=True) if o[0] == "i"]
            lines.append("image %d %d" % (a, d))
            expect.append(("ok", wi, None))
            lines.append("load %d %d" % (NOW, p["rbuf"]))
            expect.append(("load2a", wi, (a, d, kind)))
            lines.append("append %d append.aof.1 %s" % (p["wbuf"], " ".join("%s %s" % (hx(o[1]), hx(o[2])) for o in ops2)))
            expect.append(("sz", wi, None))
            lines.append("load %d %d" % (NOW, p["rbuf"]))
            expect.append(("load2b", wi, (a, d, kind, ops2)))
            lines.append("dump append.aof.1")
            expect.append(("dump", wi, None))
    script = "\n".join(lines) + "\n"
    open(os.path.join(vlib.BUILD, "c08_script.txt"), "w").write(script)
    t0 = time.time()
    rc, gout, gerr = run_script(aofh, ["file"], "\n".join(l for l in lines if not l.startswith("fx")) + "\n")
    tgo = time.time() - t0
    if rc != 0:
        raise vlib.BuildError("aofh file failed rc=%d: %s" % (rc, gerr[-1500:]))
    t0 = time.time()
    rc, mout, merr = run_script(modelrun, [], script)
    tmodel = time.time() - t0
    if rc != 0:
        raise vlib.BuildError("modelrun failed rc=%d: %s" % (rc, merr[-1500:]))
    G = [canon(l) for l in gout.strip().split("\n")]
    M = [canon(l) for l in mout.strip().split("\n")]

    # ---- 5. differential + monitor
    stats = {"loads": 0, "mismatch": 0, "first_restart_cuts": 0, "second_restart_cases": 0, "residues": set(),
             "outcomes": {}, "monitor_violations": {}}
    distinct = set()
    mism = []
    if len(G) != len(expect) or len(M) != len(expect):
        mism.append(("length", len(G), len(M), len(expect)))
    load1 = {}
    witnesses = {}

    def written_of(ops):
        return [(b"\x3e\x00" + o[1][2:], o[2] if (int.from_bytes(o[1][55:57], "little") & 0x2000) else None) for o in ops if o[0] == "i"]

    def written_items(p):
        return written_of(p["ops"])

    def live(items):
        return [item_str(r, v) for (r, v) in items if not expired(r, NOW)]

    def wl_info(ops, rbuf):
        """what a load of (a crash image of) this workload may deliver: the live items in order, with the index in the
        .dat file of every value and the simulated reads of the .dat reader"""
        W = written_of(ops)
        strs = [(None if expired(r, NOW) else item_str(r, v)) for (r, v) in W]
        L = [x for x in strs if x is not None]
        pref = [0]
        for x in strs:
            pref.append(pref[-1] + (x is not None))
        didx, c = [], 0
        for (r, v), x in zip(W, strs):
            if x is not None:
                didx.append(c if v is not None else None)
            if v is not None:
                c += 1
        sim, refills = sim_values(frames_of(ops), eff(rbuf) * 64)
        return {"W": W, "L": L, "Lr": [x.split(":", 1)[0] for x in L], "pref": pref, "didx": didx, "sim": sim, "refills": refills}

    def prefix_k(info, items):
        n = len(items)
        if n <= len(info["L"]) and items == info["L"][:n]:
            return info["pref"].index(n)
        return None

    def value_corruption(info, items):
        """the delivered RECORDS are a live prefix of the written ones but a delivered VALUE differs from the written one"""
        n = len(items)
        if n == 0 or n > len(info["L"]) or [x.split(":", 1)[0] for x in items] != info["Lr"][:n]:
            return None
        for j in range(n):
            if items[j] != info["L"][j]:
                got, want = items[j].split(":", 1)[1], info["L"][j].split(":", 1)[1]
                k = 0
                while k < min(len(got), len(want)) and got[k] == want[k]:
                    k += 1
                di = info["didx"][j]
                cont = di is not None and any(v["payload_cont"] or v["prefix_cont"] for v in info["sim"][:di + 1])
                return {"item": j, "value_index_in_dat": di, "first_differing_byte": k // 2,
                        "delivered_bytes": len(got) // 2, "written_bytes": len(want) // 2,
                        "delivered_around": got[max(0, k - 16):k + 24], "written_around": want[max(0, k - 16):k + 24],
                        "needed_continuation_read": bool(cont),
                        "reads_of_that_value": info["sim"][di] if (di is not None and di < len(info["sim"])) else None}
        return None

    def probe(ops, wbuf, rbuf):
        """write the workload completely with the real AofFile, load the complete files: the value corruption, if any"""
        sc = ["new %d" % wbuf] + ["w %s %s" % (hx(o[1]), hx(o[2])) if o[0] == "i" else "f" for o in ops]
        sc += ["close", "imagefull", "load %d %d" % (NOW, rbuf)]
        try:
            rc, out, err = run_script(aofh, ["file"], "\n".join(sc) + "\n", timeout=60)
        except subprocess.TimeoutExpired:
            return None, ""
        if rc != 0:
            return None, ""
        line = canon(out.strip().split("\n")[-1])
        t = line.split()
        if len(t) < 3 or t[1] != "ok":
            return None, line
        return value_corruption(wl_info(ops, rbuf), t[3:]), line

    def shrink_value_corruption(p, sig):
        """smaller failing input for a corrupted value: the complete files (no cut) if they show it too, then every op
        that is not needed is dropped (one pass, from the end)"""
        ops = list(p["ops"])
        vc, line = probe(ops, p["wbuf"], p["rbuf"])
        if vc is None:
            return None
        cls = vc["needed_continuation_read"]
        i, tries = len(ops) - 1, 0
        while i >= 0 and tries < 80:
            cand = ops[:i] + ops[i + 1:]
            tries += 1
            v2, l2 = probe(cand, p["wbuf"], p["rbuf"])
            if v2 is not None and v2["needed_continuation_read"] == cls:
                ops, vc, line = cand, v2, l2
            i -= 1
        return {"wbuf": p["wbuf"], "rbuf": p["rbuf"], "now": NOW, "cut": "none: both files complete (writer closed)",
                "ops": [["i", hx(o[1]), hx(o[2])] if o[0] == "i" else ["f"] for o in ops],
                "value_frames_in_dat": frames_of(ops), "first_difference": vc, "observed": line[:1500], "harness_runs": tries + 1}

    def note(sig, what, replay):
        stats["monitor_violations"][sig] = stats["monitor_violations"].get(sig, 0) + 1
        if sig not in witnesses:
            witnesses[sig] = (what, replay)

    for i, (kind, wi, info) in enumerate(expect):
        if i >= len(G) or i >= len(M):
            break
        g, m = G[i], M[i]
        if g != m:
            stats["mismatch"] += 1
            if len(mism) < 5:
                mism.append((i, kind, plan[wi]["name"], info[:3] if info else None, g[:300], m[:300]))
        if not kind.startswith("load"):
            continue
        stats["loads"] += 1
        p = plan[wi]
        t = g.split()
        status, items = t[1], t[3:]
        stats["outcomes"][status] = stats["outcomes"].get(status, 0) + 1
        a, d, ck = info[0], info[1], info[2]
        if kind == "loadx":
            continue
        if "info" not in p:
            p["info"] = wl_info(p["ops"], p["rbuf"])
        winfo = p["info"]
        W = winfo["W"]
        base = {"workload": p["name"], "wbuf": p["wbuf"], "rbuf": p["rbuf"], "now": NOW,
                "ops": [["i", hx(o[1]), hx(o[2])] if o[0] == "i" else ["f"] for o in p["ops"]],
                "cut": {"aof": a, "dat": d}, "observed": g[:2000]}
        res = (a - 12) % 64 if a >= 12 else -(12 - a)
        if kind in ("load1", "load2a"):
            if kind == "load1" and p["big"]:
                fr = frames_of(p["ops"])
                ends = [sum(fr[:k + 1]) for k in range(len(fr))]
                nv = len([e for e in ends if e <= d])
                nrec = (a - 12) // 64 if a >= 12 else 0
                nr = len([1 for (r_, v_) in W[:nrec] if v_ is not None])
                if any(v["payload_cont"] or v["prefix_cont"] for v in winfo["sim"][:min(nv, nr)]):
                    stats["straddle_loads"] = stats.get("straddle_loads", 0) + 1
            if kind == "load1":
                stats["first_restart_cuts"] += 1
                stats["residues"].add(res)
                distinct.add((p["name"], res, ck, status, len(items)))
            good = prefix_k(winfo, items) if status == "ok" else None
            load1[(wi, a, d)] = (status, items, good)
            if status != "ok":
                if a < 12:
                    note("start-fails:torn-header", "a crash inside the 12-byte header write makes the next start fail (%s)" % status,
                         dict(base, expected="start succeeds with an empty log"))
                elif "Lock_Len" in status:
                    note("start-fails:torn-record-straddles-read-buffer",
                         "a torn final record whose bytes straddle a bufio refill makes the next start fail (%s)" % status,
                         dict(base, expected="start succeeds with a record prefix"))
                else:
                    note("start-fails:" + status, "next start fails: " + status, dict(base, expected="start succeeds"))
            elif good is None and value_corruption(winfo, items) is not None:
                vc = value_corruption(winfo, items)
                sig = "value-corrupted:continuation-read" if vc["needed_continuation_read"] else "value-corrupted:other"
                if sig not in witnesses:
                    small = shrink_value_corruption(p, sig)
                    note(sig, "a value of the .dat side file is delivered to the lock engine with other bytes than were written "
                              "(records are a prefix of the written ones; item %d differs from byte %d%s)"
                         % (vc["item"], vc["first_differing_byte"],
                            "; the value was not wholly inside the buffered chunk of the value reader: continuation read" if vc["needed_continuation_read"] else ""),
                         dict(base, expected="a prefix of the %d written records with their values byte for byte" % len(W),
                              first_difference=vc, shrunk=small))
                else:
                    note(sig, "", None)
                stats["value_corruptions"] = stats.get("value_corruptions", 0) + 1
            elif good is None:
                # classify
                pref = prefix_k(winfo, items[:-1])
                if pref is not None and res > 0:
                    note("torn-tail-record-padded-from-stale-buffer",
                         "a torn final record is delivered to the lock engine, padded with bytes of the previous record (ReadLock returns nil when its second read fails)",
                         dict(base, expected="a prefix of the %d written records" % len(W)))
                else:
                    note("not-a-prefix:first-restart", "delivered list is not a prefix of the written records",
                         dict(base, expected="a prefix of the written records"))
        elif kind == "load2b":
            stats["second_restart_cases"] += 1
            ops2 = info[3]
            st1, items1, good1 = load1.get((wi, a, d), ("?", [], None))
            W2 = [(b"\x3e\x00" + o[1][2:], o[2] if (int.from_bytes(o[1][55:57], "little") & 0x2000) else None) for o in ops2]
            want = items1 + live(W2)
            distinct.add((p["name"], "second", res, ck, status))
            if st1 == "ok" and good1 is not None:
                if status != "ok" or items != want:
                    torn = a > 12 and res != 0
                    # did the crash lose value bytes of a complete record?
                    nrec = (a - 12) // 64 if a >= 12 else 0
                    need = sum(len(v) for (r, v) in W[:nrec] if v is not None)
                    b2 = dict(base, second_workload=[["i", hx(o[1]), hx(o[2])] for o in ops2], first_restart=items1, expected=want)
                    lost = d < need or good1 < nrec
                    if torn and not (lost and sw["trunc"]):
                        note("second-restart:misaligned-append-after-torn-tail",
                             "records appended after a torn tail are mis-aligned: the second restart %s" % ("fails (%s)" % status if status != "ok" else "delivers garbage"),
                             b2)
                    elif lost:
                        note("second-restart:value-stolen-after-lost-value-write",
                             "a record whose value bytes were lost in the crash takes the bytes of a later value at the second restart (%s)" % status, b2)
                    else:
                        note("second-restart:other", "second restart does not deliver first-restart list ++ new records (%s)" % status, b2)

    # ---- measured distribution of the value reads (simulated bufio reader of the .dat file with the workload's rbuf)
    vstats = {"values": 0, "max_value_bytes_on_disk": 0, "payload_straddles_buffered_chunk": 0, "length_prefix_straddles_buffered_chunk": 0,
              "direct_first_payload_read_on_empty_buffer": 0, "direct_continuation_read": 0, "value_starts_on_empty_buffer": 0,
              "values_of_at_least_one_chunk": 0, "values_larger_than_writer_value_buffer": 0, "big_workloads": 0,
              "big_workload_first_restart_loads": 0, "first_restart_loads_reading_a_straddling_value": stats.get("straddle_loads", 0),
              "garbage_length_images": len(stats_garbage), "max_garbage_length": max(stats_garbage or [0]),
              "dat_bytes_max": 0, "chunk_bytes": sorted(set(eff(p["rbuf"]) * 64 for p in plan if p["big"]))}
    for p in plan:
        if "info" not in p:
            p["info"] = wl_info(p["ops"], p["rbuf"])
        D = eff(p["rbuf"]) * 64
        vstats["big_workloads"] += 1 if p["big"] else 0
        vstats["big_workload_first_restart_loads"] += len(p["cuts"]) if p["big"] else 0
        vstats["dat_bytes_max"] = max(vstats["dat_bytes_max"], len(p["dat"]))
        for v in p["info"]["sim"]:
            vstats["values"] += 1
            vstats["max_value_bytes_on_disk"] = max(vstats["max_value_bytes_on_disk"], v["frame"])
            vstats["payload_straddles_buffered_chunk"] += 1 if v["payload_cont"] else 0
            vstats["length_prefix_straddles_buffered_chunk"] += 1 if v["prefix_cont"] else 0
            vstats["direct_first_payload_read_on_empty_buffer"] += 1 if v["direct_first"] else 0
            vstats["direct_continuation_read"] += 1 if v["direct_cont"] else 0
            vstats["value_starts_on_empty_buffer"] += 1 if v["empty_at_start"] else 0
            vstats["values_of_at_least_one_chunk"] += 1 if v["frame"] - 4 >= D else 0
            vstats["values_larger_than_writer_value_buffer"] += 1 if v["frame"] > eff(p["wbuf"]) * 64 else 0

    if mism:
        ctx.obligation("model = implementation on every generated crash image (line-by-line)", False, json.dumps(mism)[:1500])
    else:
        ctx.obligation("model = implementation on every generated crash image (line-by-line)", True)

    # report monitor hits (property violations on the real code)
    for sig, (what, replay) in witnesses.items():
        ctx.violation(sig, what, replay, found_input=True)
    if mism and not witnesses:
        ctx.violation("correspondence:C08", "model and implementation disagree and the monitor found no failing input",
                      {"broken": "correspondence coq/Aof vs server/aof.go", "first": mism}, found_input=False)
    elif mism:
        ctx.notes.append("model/implementation disagreement: %s" % json.dumps(mism)[:600])
        ctx.violation("correspondence:C08", "model and implementation disagree (model variant derived from the source text does not describe the code)",
                      {"broken": "correspondence coq/Aof vs server/aof.go", "first": mism, "switches": sw}, found_input=False)

    # ---- 6. instance-level replays of the witnesses (full node on the crash image)
    inst = instance_replays(ctx, aofh, sw, witnesses)

    cov = {
        "evaluations": stats["loads"],
        "distinct_nontrivial": len(distinct),
        "rule": "distinct (workload, cut residue modulo 64 / header offset, cut kind, load status, #items) tuples; second restarts keyed separately",
        "samples": [plan[0]["name"], "cut %s" % (plan[0]["cuts"][len(plan[0]["cuts"]) // 2],)],
        "workloads": len(plan),
        "first_restart_cuts": stats["first_restart_cuts"],
        "second_restart_cases": stats["second_restart_cases"],
        "residues_covered": len(stats["residues"]),
        "load_outcomes": stats["outcomes"],
        "monitor_hits": stats["monitor_violations"],
        "value_reader": vstats,
        "model_impl_mismatches": stats["mismatch"],
        "source_switches": sw,
        "instance_replays": inst,
        "time_go_s": round(tgo, 2), "time_model_s": round(tmodel, 2),
    }
    ctx.trusted += [
        "source switches (rl_nerr, rl_short, hdr, trunc) read from the text of server/aof.go by regular expressions; cross-checked by the line-by-line differential run",
        "extraction: ExtrOcamlBasic only; ocaml/aof/driver.ml (hex/nat conversions, command loop)",
        "OS model: file = byte list; regular-file read returns min(len, remaining); a write may be cut at any byte; completed writes are not reordered; rename/remove atomic; fsync not modelled",
        "ReadLockData modelled byte-exactly through the bufio reader of the value file (bufSize*64 bytes), including both continuation loops with explicit write offsets; the stream-level reader ('next 4+len bytes or EOF') is the PROVED specification (C08_value_reader_is_stream_reader, every reader state and value length); the two caps of the executable model (requested length, buffer size: unary nat) are proved unobservable (C08_executable_caps_unobservable); allocation of a garbage dataLen+4 buffer (up to 4 GiB) not modelled",
        "bufio.Reader.Read modelled exactly for regular files (hand model AofFile.rd_read: buffered part only / one refill / direct read when len(p) >= buffer size), tied to the code by the differential run only",
        "hand-written 64-byte record layout coq/Aof/AofRec.v (to be replaced by the generated codec)",
        "AofChannel hand-off (LoadLock -> HandleLoad) modelled as an order-preserving list; lock engine replay not part of C08 (see C07)",
    ]
    assumptions = ["crash = prefix of the write(2) sequence with the last write cut at any byte",
                   "well-formed workload: 64-byte records, AOF_FLAG_CONTAINS_DATA iff a value with a correct 4-byte length prefix is written"]
    return ctx.finish(cov, assumptions)


def instance_replays(ctx, aofh, sw, witnesses):
    """Start a real node (LoadAndInit) on fixed crash images and check the census of holds; one process per image."""
    res = []
    base = tempfile.mkdtemp(prefix="aof-inst-", dir="/tmp")
    try:
        now = int(time.time())
        k1, k2, k3 = bytes([0xC1]) * 16, bytes([0xC2]) * 16, bytes([0xC3]) * 16
        l1, l2, l3 = bytes([0xD1]) * 16, bytes([0xD2]) * 16, bytes([0xD3]) * 16
        recs = [mkrec(None, 1, k1, l1, eflag=0x4100, et=0xffff, ct=now, off=1), mkrec(None, 1, k2, l2, eflag=0x4100, et=0xffff, ct=now, off=2),
                mkrec(None, 1, k3, l3, eflag=0x4100, et=0xffff, ct=now, off=3)]
        hdr = b"SLOCKAOF\x01\x00\x00\x00"
        full = hdr + b"".join(recs)

        def start(name, aof, dat=b"", ops=(), bufsize=4096):
            d = os.path.join(base, name)
            os.makedirs(os.path.join(d, "data"))
            open(os.path.join(d, "data", "append.aof.1"), "wb").write(aof)
            open(os.path.join(d, "data", "append.aof.1.dat"), "wb").write(dat)
            p = subprocess.run([aofh, "inst", os.path.join(d, "data"), os.path.join(d, "log"), str(bufsize)] + list(ops),
                               stdout=subprocess.PIPE, stderr=subprocess.STDOUT, timeout=60)
            return p.returncode, p.stdout.decode()

        # (i) whole-record cut: exactly the two complete holds
        rc, out = start("boundary", full[:12 + 128])
        held = sorted(re.findall(r"hold db=0 key=(\w+) lockid=(\w+) depth=(\d+)", out))
        okb = "init ok" in out and held == sorted([(k1.hex(), l1.hex(), "1"), (k2.hex(), l2.hex(), "1")])
        res.append({"case": "cut at record boundary", "ok": okb})
        if not okb:
            ctx.violation("instance:record-boundary", "a node started on a log cut at a record boundary does not hold exactly the complete records' locks",
                          {"image_hex": full[:140].hex(), "output": out[-1500:]}, found_input=True)
        # (ii) torn tail: 55 bytes into the third record (type, id, time, LockId and LockKey are on disk; the flags,
        #      lifetime, Count and Rcount are not: they are taken from the stale bytes of the second record)
        rc, out = start("torn", full[:12 + 128 + 55])
        held = sorted(re.findall(r"hold db=0 key=(\w+) lockid=(\w+) depth=(\d+)", out))
        ghost = [h for h in held if h[0] not in (k1.hex(), k2.hex())] or len(held) > 2 or any(h[2] != "1" for h in held)
        repl = "replinit true" in out
        res.append({"case": "cut 55 bytes into the last record", "init_ok": "init ok" in out, "holds": held, "replication_initialised": repl,
                    "log": re.findall(r"log (\S+)", out)})
        if "init ok" not in out:
            ctx.violation("instance:torn-tail:start-fails", "node does not start on a torn tail", {"image_hex": full[:195].hex(), "output": out[-1500:]}, True)
        elif ghost:
            ctx.violation("torn-tail-record-padded-from-stale-buffer",
                          "a node started on a log cut 55 bytes into its last record holds a lock reconstructed from the torn bytes (census: %s)" % held,
                          {"image_hex": full[:195].hex(), "census": held, "output": out[-1500:]}, True)
        # (iii) torn header
        rc, out = start("hdr", full[:5])
        res.append({"case": "cut inside the 12-byte header", "init_ok": "init ok" in out, "log": re.findall(r"log (\S+)", out)})
        if "init ok" not in out:
            ctx.violation("start-fails:torn-header", "a node does not start on an append file cut inside its 12-byte header",
                          {"image_hex": full[:5].hex(), "output": out[-1500:]}, True)
        # (iv) two persisted holds with 3000-byte values, aof_file_buffer_size 64: the value reader buffers 4096 bytes, the
        #      second value lies across offset 4096 (continuation read of ReadLockData); the node must hold both values
        vrecs = [mkrec(None, 1, k1, l1, flag=0x2000, eflag=0x4100, et=0xffff, ct=now, off=1),
                 mkrec(None, 1, k2, l2, flag=0x2000, eflag=0x4100, et=0xffff, ct=now, off=2)]
        vals = [mkval(bytes([97 + (j * 7 + i * 3) % 26 for j in range(3000)])) for i in range(2)]
        rc, out = start("bigvalues", hdr + b"".join(vrecs), b"".join(vals), bufsize=64)
        got = dict((k, v) for (k, v) in re.findall(r"hold db=0 key=(\w+) lockid=\w+ depth=1 .*? val=(\S+)", out))
        okv = "init ok" in out and got == {k1.hex(): vals[0].hex(), k2.hex(): vals[1].hex()}
        res.append({"case": "two holds with 3000-byte values, buffer size 64 (second value across the 4096-byte chunk of the value reader)",
                    "ok": okv, "init_ok": "init ok" in out, "holds": len(got)})
        if "init ok" not in out:
            ctx.violation("instance:big-values:start-fails", "a node does not start on two complete records with 3000-byte values (aof_file_buffer_size 64)",
                          {"aof_hex": (hdr + b"".join(vrecs)).hex(), "dat_frames": [len(v) for v in vals], "output": out[-1500:]}, True)
        elif not okv:
            bad = [k for k in (k1.hex(), k2.hex()) if got.get(k) != dict(zip((k1.hex(), k2.hex()), (vals[0].hex(), vals[1].hex())))[k]]
            diff = {}
            for k, v in zip((k1.hex(), k2.hex()), vals):
                g = got.get(k)
                if g is not None and g != v.hex():
                    j = next((x for x in range(min(len(g), len(v.hex()))) if g[x] != v.hex()[x]), min(len(g), len(v.hex())))
                    diff[k] = {"first_differing_byte": j // 2, "held_bytes": len(g) // 2, "written_bytes": len(v), "held_tail": g[-16:], "written_tail": v.hex()[-16:]}
            ctx.violation("value-corrupted:continuation-read",
                          "a node started (aof_file_buffer_size 64) on two complete records with 3000-byte values holds a value with other bytes than were persisted (keys %s)" % bad,
                          {"aof_hex": (hdr + b"".join(vrecs)).hex(), "dat": "two frames of 4+2+3000 bytes: mkval(bytes(97 + (j*7 + i*3) % 26 for j in range(3000))), i = 0, 1",
                           "aof_file_buffer_size": 64, "differences": diff, "census": [l[:200] for l in out.split("\n") if l.startswith("hold")]}, True)
    finally:
        shutil.rmtree(base, ignore_errors=True)
    return res
