"""C08 — crash at any byte of the log recovers a clean record prefix.

Obligations : coq/Properties/C08.v (theorems over the byte-exact model coq/Aof/*.v, both source variants).
Tie         : (1) the model variant (`fixes` record) is derived from the TEXT of <repo>/server/aof.go (four switches);
              (2) differential run: the same command script (write a workload with the real AofFile, cut the files at
              EVERY offset of the append file with the consistent value-file length, load with the real
              Aof.LoadAofFiles; second restart: Open in append mode, append, reload) is executed by the Go harness
              (harness/aof, injected in-package by overlay) and by the extracted model (ocaml/aof/modelrun); outputs are
              compared line by line;
              (3) monitor on the Go observations: start succeeds and the delivered list is the (expiry-filtered) list
              of a PREFIX of the complete records written; second restart delivers first-restart-list ++ new records;
              (4) replay of finding witnesses on a full in-process node (census of holds).
"""
import json, os, re, shutil, subprocess, tempfile, time
import vlib

MANIFEST = {
    "engine": "coq",
    "category": "proof",
    "text": "Coq theorems over a byte-exact executable model of AofFile/LoadAofFiles (bufio refill, stale lock buffer, "
            "two-write flush, append-mode open): for the repaired source variant every consistent crash image loads to an "
            "expiry-filtered prefix of the written records and a second restart recovers prefix ++ new records; for the "
            "source as it is today the same statements are refuted by concrete byte images (proved by vm_compute, replayed "
            "on the real code) and the guarded theorem (cuts at record boundaries) is proved.",
    "note": "Model tied to the source by source-derived switches + exhaustive-offset differential run against the real "
            "AofFile/LoadAofFiles; OS model (byte-list files, no reordering of completed writes, fsync not modelled) trusted.",
    "technique": "interactive proof (Coq) + extraction-based differential testing + runtime monitor",
    "design_ref": "DESIGN.md section 5 C08",
}

NOW = 1_700_000_000


# ----------------------------------------------------------------------------------------------- source switches
def func_body(src, name):
    m = re.search(r"\nfunc \(self \*AofFile\) %s\(.*?\n}\n" % name, src, flags=re.S)
    return m.group(0) if m else ""


def source_switches(repo):
    src = open(os.path.join(repo, "server", "aof.go")).read()
    rl = func_body(src, "ReadLock")
    rh = func_body(src, "ReadHeader")
    op = func_body(src, "Open")
    m = re.search(r"nn, nerr := .*?\n\s*if nerr != nil \{\s*\n\s*return ([^\n]+)\n", rl)
    ret = m.group(1).strip() if m else "?"
    rl_nerr = ret in ("nerr", "io.EOF", "io.ErrUnexpectedEOF")
    rl_short = bool(re.search(r"if n < 64 \{\s*\n\s*return io\.EOF", rl))
    hdr = bool(re.search(r"if n != 12 \{\s*\n\s*return io\.EOF", rh))
    trunc = bool(re.search(r"Truncate\(int64\(", op))
    return {"rl_nerr": rl_nerr, "rl_short": rl_short, "hdr": hdr, "trunc": trunc, "readlock_second_read_returns": ret}


# ----------------------------------------------------------------------------------------------- generators
def mkrec(rng, typ, key, lockid, flag=0, eflag=0x4000, et=0, ct=NOW, rcount=0, count=0, idx=1, off=0, db=0):
    b = bytearray(64)
    b[0], b[1], b[2] = 62, 0, typ
    b[3:7] = off.to_bytes(4, "little")
    b[7:11] = idx.to_bytes(4, "little")
    b[11:19] = ct.to_bytes(8, "little")
    b[19], b[20] = 0, db
    b[21:37] = lockid
    b[37:53] = key
    b[53:55] = (0).to_bytes(2, "little")
    b[55:57] = flag.to_bytes(2, "little")
    b[57:59] = et.to_bytes(2, "little")
    b[59:61] = eflag.to_bytes(2, "little")
    b[61:63] = count.to_bytes(2, "little")
    b[63] = rcount
    return bytes(b)


def mkval(payload):
    body = bytes([0, 0]) + payload
    return len(body).to_bytes(4, "little") + body


def gen_workload(rng, n, data_p=0.35, simple=False, small=False):
    """list of ops: ('i', rec, data|None) | ('f',)"""
    ops = []
    keys = [bytes([0xB0 + i]) * 16 for i in range(4)]
    off = 0
    for i in range(n):
        off += 1
        key = rng.choice(keys)
        lockid = bytes([0xA0 + rng.randrange(6)]) * 8 + bytes([rng.randrange(256) for _ in range(8)])
        typ = 1 if rng.random() < 0.7 else 2
        flag = 0
        data = None
        if rng.random() < data_p:
            flag |= 0x2000
            data = mkval(bytes([rng.randrange(256) for _ in range(rng.choice([0, 1, 3, 5] if small else [0, 1, 3, 8, 17, 40, 130]))]))
        if rng.random() < 0.2:
            flag |= 0x0008
        if simple:
            eflag, et, ct = 0x4000, 0, NOW
        else:
            r = rng.random()
            if r < 0.4:
                eflag, et, ct = 0x4000, rng.choice([0, 0xffff]), NOW - rng.randrange(100)
            elif r < 0.7:
                eflag, et, ct = 0x0100, rng.choice([0, 5, 60, 600]), NOW - rng.choice([0, 3, 30, 100, 700])
            elif r < 0.85:
                eflag, et, ct = 0x0140, rng.choice([1, 2, 10]), NOW - rng.choice([0, 30, 90, 700])
            else:
                eflag, et, ct = 0x0500, rng.choice([500, 3000, 60000]), NOW - rng.choice([0, 2, 59, 61])
        rec = mkrec(rng, typ, key, lockid, flag=flag, eflag=eflag, et=et, ct=ct, rcount=rng.choice([0, 0, 1, 2]),
                    count=rng.choice([0, 1, 5]), off=off)
        ops.append(("i", rec, data))
        if rng.random() < 0.25:
            ops.append(("f",))
    return ops


def expired(rec, now):
    ct = int.from_bytes(rec[11:19], "little")
    et = int.from_bytes(rec[57:59], "little")
    ef = int.from_bytes(rec[59:61], "little")

    def i64(x):
        x &= (1 << 64) - 1
        return x if x < (1 << 63) else x - (1 << 64)
    if ef & 0x0400:
        return i64(ct + et // 1000) <= now
    if ef & 0x0040:
        return i64(ct + et * 60) <= now
    if not ef & 0x4000:
        return et > 0 and i64(ct + et) <= now
    return False


def hx(b):
    if b is None:
        return "-"
    return b.hex() if len(b) else "e"


def item_str(rec, data):
    return hx(rec) + ":" + hx(data)


# ----------------------------------------------------------------------------------------------- running both sides
def run_script(exe, args, script, timeout=600):
    p = subprocess.run([exe] + args, input=script.encode(), stdout=subprocess.PIPE, stderr=subprocess.PIPE, timeout=timeout)
    return p.returncode, p.stdout.decode(), p.stderr.decode()


def canon(line):
    # file-open errors carry the scratch path
    return re.sub(r"err:open_\S+", "err:nofile", line)


def consistent_cuts(sizes):
    """sizes: [(a,d)] after open and after every op (and close). Within one op the append file is written first, then the
    value file.  Returns the list of (a, d, kind) crash images, kind in {'aof','dat'}; includes the header write."""
    cuts = [(a, 0, "aof") for a in range(0, 13)]
    pa, pd = sizes[0]
    for (a, d) in sizes[1:]:
        for x in range(pa + 1, a + 1):
            cuts.append((x, pd, "aof"))
        for y in range(pd + 1, d + 1):
            cuts.append((a, y, "dat"))
        pa, pd = a, d
    return cuts


def run(ctx):
    repo = vlib.REPO
    sw = source_switches(repo)
    ctx.notes.append("source switches derived from %s/server/aof.go: %s" % (repo, json.dumps(sw)))
    fully_fixed = sw["rl_nerr"] and sw["rl_short"] and sw["hdr"] and sw["trunc"]

    # ---- 1. proofs
    ok, log = ctx.coq(["Properties/C08.vo"])
    theorems = ["C08_writer_crash_shape", "C08_crash_any_byte_repaired", "C08_first_restart_repaired",
                "C08_second_restart_repaired", "C08_second_restart_writer", "C08_first_restart_today_record_boundary",
                "C08_refuted_torn_tail", "C08_refuted_straddle_start_fails", "C08_refuted_torn_header_start_fails",
                "C08_refuted_misaligned_append", "C08_refuted_value_stolen"]
    for th in theorems:
        present = th in ctx.assumption_report
        ctx.obligation(th, ok and present, "" if (ok and present) else getattr(ctx, "coq_failure", "not compiled"))
    if not ok:
        ctx.violation("proof:C08", "a C08 theorem no longer checks", {"broken": "coq", "log": getattr(ctx, "coq_failure", log[-2000:])}, found_input=False)

    # ---- 2. builds
    aofh = ctx.go_build("aofh", os.path.join(vlib.VERIF, "harness", "aof"),
                        overlay={"server/zz_verif_aof.go": "harness/aof/inj/zz_verif_aof.go"})
    modelrun = ctx.ocaml_model("aof")

    thorough = ctx.tier == "thorough"
    rng = ctx.rng
    fxline = "fx %d %d %d %d" % (sw["rl_nerr"], sw["rl_short"], sw["hdr"], sw["trunc"])

    # ---- 3. workloads: (wbuf, rbuf, ops)
    workloads = []
    cdir = os.path.join(vlib.VERIF, "corpus", "C08")
    for f in sorted(os.listdir(cdir)) if os.path.isdir(cdir) else []:
        if f.endswith(".json"):
            c = json.load(open(os.path.join(cdir, f)))
            ops = [("i", bytes.fromhex(o[1]), None if o[2] == "-" else bytes.fromhex(o[2])) if o[0] == "i" else ("f",) for o in c["ops"]]
            workloads.append((c["wbuf"], c["rbuf"], ops, "corpus:" + f))
    nw = 400 if thorough else 38
    for i in range(nw):
        wbuf = rng.choice([64, 128, 256, 4096])
        rbuf = rng.choice([64, 128, 192, 256, 4096])
        n = rng.choice([1, 2, 3, 4, 5, 6, 8, 10, 12]) if not thorough else rng.choice([1, 2, 3, 5, 8, 12, 20, 30])
        workloads.append((wbuf, rbuf, gen_workload(rng, n), "gen%d" % i))
    # long workloads crossing the default 4096-byte reader buffer (12-byte header misaligns 64-byte records)
    for i in range(6 if thorough else 1):
        workloads.append((4096, 4096, gen_workload(rng, 66 + rng.randrange(4), data_p=0.05), "long%d" % i))

    # ---- 4. script
    lines = [fxline]
    plan = []   # per workload: dict
    for (wbuf, rbuf, ops, name) in workloads:
        lines.append("new %d" % wbuf)
        for o in ops:
            lines.append("w %s %s" % (hx(o[1]), hx(o[2])) if o[0] == "i" else "f")
        lines.append("close")
        lines.append("mdump")
        plan.append({"name": name, "wbuf": wbuf, "rbuf": rbuf, "ops": ops, "nlines": 3 + len(ops)})
    # pass 1: obtain sizes from the real code (needed to enumerate the consistent cuts)
    rc, out1, err1 = run_script(aofh, ["file"], "\n".join(l for l in lines if not l.startswith("fx")) + "\n")
    if rc != 0:
        raise vlib.BuildError("aofh file (pass 1) failed rc=%d: %s" % (rc, err1[-1500:]))
    o1 = out1.strip().split("\n")
    pos = 0
    for p in plan:
        seg = o1[pos:pos + p["nlines"]]
        pos += p["nlines"]
        p["sizes"] = [tuple(int(x) for x in l.split()[1:3]) for l in seg[:-1]]
        d = seg[-1].split()
        p["aof"] = bytes.fromhex(d[1]) if d[1] not in ("e", "-") else b""
        p["dat"] = bytes.fromhex(d[2]) if d[2] not in ("e", "-") else b""

    # pass 2: full script with cuts and second restarts
    lines = [fxline]
    expect = []     # (kind, workload index, info) per output line
    for wi, p in enumerate(plan):
        lines.append("new %d" % p["wbuf"])
        expect.append(("sz", wi, None))
        for o in p["ops"]:
            lines.append("w %s %s" % (hx(o[1]), hx(o[2])) if o[0] == "i" else "f")
            expect.append(("sz", wi, None))
        lines.append("close")
        expect.append(("sz", wi, None))
        lines.append("mdump")
        expect.append(("dump", wi, None))
        cuts = consistent_cuts(p["sizes"])
        p["cuts"] = cuts
        for (a, d, kind) in cuts:
            lines.append("image %d %d" % (a, d))
            expect.append(("ok", wi, None))
            lines.append("load %d %d" % (NOW, p["rbuf"]))
            expect.append(("load1", wi, (a, d, kind)))
        # inconsistent / unusual images: differential only (no monitor)
        for _ in range(6):
            a = rng.randrange(-1, len(p["aof"]) + 1)
            d = rng.randrange(-1, len(p["dat"]) + 1)
            lines.append("image %d %d" % (a, d))
            expect.append(("ok", wi, None))
            lines.append("load %d %d" % (NOW, rng.choice([64, 128, 4096])))
            expect.append(("loadx", wi, (a, d, "any")))
        # second restart on a sample of cuts: all residue kinds
        sample = [c for c in cuts if c[0] >= 12]
        rng.shuffle(sample)
        sample = sample[:(30 if thorough else 10)]
        if p["name"].startswith("long"):
            sample = sample[:3]
        # a crash inside the 12-byte header of a new file: the append-mode Open must start the file afresh
        torn_hdr = [c for c in cuts if 0 < c[0] < 12]
        sample += torn_hdr if (thorough or wi < 3) else torn_hdr[:2]
        for (a, d, kind) in sample:
            ops2 = [o for o in gen_workload(rng, rng.choice([1, 2, 3]), data_p=0.5, small=True) if o[0] == "i"]
            lines.append("image %d %d" % (a, d))
            expect.append(("ok", wi, None))
            lines.append("load %d %d" % (NOW, p["rbuf"]))
            expect.append(("load2a", wi, (a, d, kind)))
            lines.append("append %d append.aof.1 %s" % (p["wbuf"], " ".join("%s %s" % (hx(o[1]), hx(o[2])) for o in ops2)))
            expect.append(("sz", wi, None))
            lines.append("load %d %d" % (NOW, p["rbuf"]))
            expect.append(("load2b", wi, (a, d, kind, ops2)))
            lines.append("dump append.aof.1")
            expect.append(("dump", wi, None))
    script = "\n".join(lines) + "\n"
    open(os.path.join(vlib.BUILD, "c08_script.txt"), "w").write(script)
    t0 = time.time()
    rc, gout, gerr = run_script(aofh, ["file"], "\n".join(l for l in lines if not l.startswith("fx")) + "\n")
    tgo = time.time() - t0
    if rc != 0:
        raise vlib.BuildError("aofh file failed rc=%d: %s" % (rc, gerr[-1500:]))
    t0 = time.time()
    rc, mout, merr = run_script(modelrun, [], script)
    tmodel = time.time() - t0
    if rc != 0:
        raise vlib.BuildError("modelrun failed rc=%d: %s" % (rc, merr[-1500:]))
    G = [canon(l) for l in gout.strip().split("\n")]
    M = [canon(l) for l in mout.strip().split("\n")]

    # ---- 5. differential + monitor
    stats = {"loads": 0, "mismatch": 0, "first_restart_cuts": 0, "second_restart_cases": 0, "residues": set(),
             "outcomes": {}, "monitor_violations": {}}
    distinct = set()
    mism = []
    if len(G) != len(expect) or len(M) != len(expect):
        mism.append(("length", len(G), len(M), len(expect)))
    load1 = {}
    witnesses = {}

    def written_items(p):
        return [(b"\x3e\x00" + o[1][2:], o[2] if (int.from_bytes(o[1][55:57], "little") & 0x2000) else None) for o in p["ops"] if o[0] == "i"]

    def live(items):
        return [item_str(r, v) for (r, v) in items if not expired(r, NOW)]

    def note(sig, what, replay):
        stats["monitor_violations"][sig] = stats["monitor_violations"].get(sig, 0) + 1
        if sig not in witnesses:
            witnesses[sig] = (what, replay)

    for i, (kind, wi, info) in enumerate(expect):
        if i >= len(G) or i >= len(M):
            break
        g, m = G[i], M[i]
        if g != m:
            stats["mismatch"] += 1
            if len(mism) < 5:
                mism.append((i, kind, plan[wi]["name"], info[:3] if info else None, g[:300], m[:300]))
        if not kind.startswith("load"):
            continue
        stats["loads"] += 1
        p = plan[wi]
        t = g.split()
        status, items = t[1], t[3:]
        stats["outcomes"][status] = stats["outcomes"].get(status, 0) + 1
        a, d, ck = info[0], info[1], info[2]
        if kind == "loadx":
            continue
        W = written_items(p)
        base = {"workload": p["name"], "wbuf": p["wbuf"], "rbuf": p["rbuf"], "now": NOW,
                "ops": [["i", hx(o[1]), hx(o[2])] if o[0] == "i" else ["f"] for o in p["ops"]],
                "cut": {"aof": a, "dat": d}, "observed": g[:2000]}
        res = (a - 12) % 64 if a >= 12 else -(12 - a)
        if kind in ("load1", "load2a"):
            if kind == "load1":
                stats["first_restart_cuts"] += 1
                stats["residues"].add(res)
                distinct.add((p["name"], res, ck, status, len(items)))
            good = None
            if status == "ok":
                for k in range(len(W) + 1):
                    if live(W[:k]) == items:
                        good = k
                        break
            load1[(wi, a, d)] = (status, items, good)
            if status != "ok":
                if a < 12:
                    note("start-fails:torn-header", "a crash inside the 12-byte header write makes the next start fail (%s)" % status,
                         dict(base, expected="start succeeds with an empty log"))
                elif "Lock_Len" in status:
                    note("start-fails:torn-record-straddles-read-buffer",
                         "a torn final record whose bytes straddle a bufio refill makes the next start fail (%s)" % status,
                         dict(base, expected="start succeeds with a record prefix"))
                else:
                    note("start-fails:" + status, "next start fails: " + status, dict(base, expected="start succeeds"))
            elif good is None:
                # classify
                pref = None
                for k in range(len(W) + 1):
                    if live(W[:k]) == items[:-1]:
                        pref = k
                if pref is not None and res > 0:
                    note("torn-tail-record-padded-from-stale-buffer",
                         "a torn final record is delivered to the lock engine, padded with bytes of the previous record (ReadLock returns nil when its second read fails)",
                         dict(base, expected="a prefix of the %d written records" % len(W)))
                else:
                    note("not-a-prefix:first-restart", "delivered list is not a prefix of the written records",
                         dict(base, expected="a prefix of the written records"))
        elif kind == "load2b":
            stats["second_restart_cases"] += 1
            ops2 = info[3]
            st1, items1, good1 = load1.get((wi, a, d), ("?", [], None))
            W2 = [(b"\x3e\x00" + o[1][2:], o[2] if (int.from_bytes(o[1][55:57], "little") & 0x2000) else None) for o in ops2]
            want = items1 + live(W2)
            distinct.add((p["name"], "second", res, ck, status))
            if st1 == "ok" and good1 is not None:
                if status != "ok" or items != want:
                    torn = a > 12 and res != 0
                    # did the crash lose value bytes of a complete record?
                    nrec = (a - 12) // 64 if a >= 12 else 0
                    need = sum(len(v) for (r, v) in W[:nrec] if v is not None)
                    b2 = dict(base, second_workload=[["i", hx(o[1]), hx(o[2])] for o in ops2], first_restart=items1, expected=want)
                    lost = d < need or good1 < nrec
                    if torn and not (lost and sw["trunc"]):
                        note("second-restart:misaligned-append-after-torn-tail",
                             "records appended after a torn tail are mis-aligned: the second restart %s" % ("fails (%s)" % status if status != "ok" else "delivers garbage"),
                             b2)
                    elif lost:
                        note("second-restart:value-stolen-after-lost-value-write",
                             "a record whose value bytes were lost in the crash takes the bytes of a later value at the second restart (%s)" % status, b2)
                    else:
                        note("second-restart:other", "second restart does not deliver first-restart list ++ new records (%s)" % status, b2)

    if mism:
        ctx.obligation("model = implementation on every generated crash image (line-by-line)", False, json.dumps(mism)[:1500])
    else:
        ctx.obligation("model = implementation on every generated crash image (line-by-line)", True)

    # report monitor hits (property violations on the real code)
    for sig, (what, replay) in witnesses.items():
        ctx.violation(sig, what, replay, found_input=True)
    if mism and not witnesses:
        ctx.violation("correspondence:C08", "model and implementation disagree and the monitor found no failing input",
                      {"broken": "correspondence coq/Aof vs server/aof.go", "first": mism}, found_input=False)
    elif mism:
        ctx.notes.append("model/implementation disagreement: %s" % json.dumps(mism)[:600])
        ctx.violation("correspondence:C08", "model and implementation disagree (model variant derived from the source text does not describe the code)",
                      {"broken": "correspondence coq/Aof vs server/aof.go", "first": mism, "switches": sw}, found_input=False)

    # ---- 6. instance-level replays of the witnesses (full node on the crash image)
    inst = instance_replays(ctx, aofh, sw, witnesses)

    cov = {
        "evaluations": stats["loads"],
        "distinct_nontrivial": len(distinct),
        "rule": "distinct (workload, cut residue modulo 64 / header offset, cut kind, load status, #items) tuples; second restarts keyed separately",
        "samples": [plan[0]["name"], "cut %s" % (plan[0]["cuts"][len(plan[0]["cuts"]) // 2],)],
        "workloads": len(plan),
        "first_restart_cuts": stats["first_restart_cuts"],
        "second_restart_cases": stats["second_restart_cases"],
        "residues_covered": len(stats["residues"]),
        "load_outcomes": stats["outcomes"],
        "monitor_hits": stats["monitor_violations"],
        "model_impl_mismatches": stats["mismatch"],
        "source_switches": sw,
        "instance_replays": inst,
        "time_go_s": round(tgo, 2), "time_model_s": round(tmodel, 2),
    }
    ctx.trusted += [
        "source switches (rl_nerr, rl_short, hdr, trunc) read from the text of server/aof.go by regular expressions; cross-checked by the line-by-line differential run",
        "extraction: ExtrOcamlBasic only; ocaml/aof/driver.ml (hex/nat conversions, command loop)",
        "OS model: file = byte list; regular-file read returns min(len, remaining); a write may be cut at any byte; completed writes are not reordered; rename/remove atomic; fsync not modelled",
        "ReadLockData modelled at stream level (both reads loop until complete or EOF); bufio modelled exactly for the record file",
        "hand-written 64-byte record layout coq/Aof/AofRec.v (to be replaced by the generated codec)",
        "AofChannel hand-off (LoadLock -> HandleLoad) modelled as an order-preserving list; lock engine replay not part of C08 (see C07)",
    ]
    assumptions = ["crash = prefix of the write(2) sequence with the last write cut at any byte",
                   "well-formed workload: 64-byte records, AOF_FLAG_CONTAINS_DATA iff a value with a correct 4-byte length prefix is written"]
    return ctx.finish(cov, assumptions)


def instance_replays(ctx, aofh, sw, witnesses):
    """Start a real node (LoadAndInit) on fixed crash images and check the census of holds; one process per image."""
    res = []
    base = tempfile.mkdtemp(prefix="aof-inst-", dir="/tmp")
    try:
        now = int(time.time())
        k1, k2, k3 = bytes([0xC1]) * 16, bytes([0xC2]) * 16, bytes([0xC3]) * 16
        l1, l2, l3 = bytes([0xD1]) * 16, bytes([0xD2]) * 16, bytes([0xD3]) * 16
        recs = [mkrec(None, 1, k1, l1, eflag=0x4100, et=0xffff, ct=now, off=1), mkrec(None, 1, k2, l2, eflag=0x4100, et=0xffff, ct=now, off=2),
                mkrec(None, 1, k3, l3, eflag=0x4100, et=0xffff, ct=now, off=3)]
        hdr = b"SLOCKAOF\x01\x00\x00\x00"
        full = hdr + b"".join(recs)

        def start(name, aof, dat=b"", ops=()):
            d = os.path.join(base, name)
            os.makedirs(os.path.join(d, "data"))
            open(os.path.join(d, "data", "append.aof.1"), "wb").write(aof)
            open(os.path.join(d, "data", "append.aof.1.dat"), "wb").write(dat)
            p = subprocess.run([aofh, "inst", os.path.join(d, "data"), os.path.join(d, "log"), "4096"] + list(ops),
                               stdout=subprocess.PIPE, stderr=subprocess.STDOUT, timeout=60)
            return p.returncode, p.stdout.decode()

        # (i) whole-record cut: exactly the two complete holds
        rc, out = start("boundary", full[:12 + 128])
        held = sorted(re.findall(r"hold db=0 key=(\w+) lockid=(\w+) depth=(\d+)", out))
        okb = "init ok" in out and held == sorted([(k1.hex(), l1.hex(), "1"), (k2.hex(), l2.hex(), "1")])
        res.append({"case": "cut at record boundary", "ok": okb})
        if not okb:
            ctx.violation("instance:record-boundary", "a node started on a log cut at a record boundary does not hold exactly the complete records' locks",
                          {"image_hex": full[:140].hex(), "output": out[-1500:]}, found_input=True)
        # (ii) torn tail: 55 bytes into the third record (type, id, time, LockId and LockKey are on disk; the flags,
        #      lifetime, Count and Rcount are not: they are taken from the stale bytes of the second record)
        rc, out = start("torn", full[:12 + 128 + 55])
        held = sorted(re.findall(r"hold db=0 key=(\w+) lockid=(\w+) depth=(\d+)", out))
        ghost = [h for h in held if h[0] not in (k1.hex(), k2.hex())] or len(held) > 2 or any(h[2] != "1" for h in held)
        repl = "replinit true" in out
        res.append({"case": "cut 55 bytes into the last record", "init_ok": "init ok" in out, "holds": held, "replication_initialised": repl,
                    "log": re.findall(r"log (\S+)", out)})
        if "init ok" not in out:
            ctx.violation("instance:torn-tail:start-fails", "node does not start on a torn tail", {"image_hex": full[:195].hex(), "output": out[-1500:]}, True)
        elif ghost:
            ctx.violation("torn-tail-record-padded-from-stale-buffer",
                          "a node started on a log cut 55 bytes into its last record holds a lock reconstructed from the torn bytes (census: %s)" % held,
                          {"image_hex": full[:195].hex(), "census": held, "output": out[-1500:]}, True)
        # (iii) torn header
        rc, out = start("hdr", full[:5])
        res.append({"case": "cut inside the 12-byte header", "init_ok": "init ok" in out, "log": re.findall(r"log (\S+)", out)})
        if "init ok" not in out:
            ctx.violation("start-fails:torn-header", "a node does not start on an append file cut inside its 12-byte header",
                          {"image_hex": full[:5].hex(), "output": out[-1500:]}, True)
    finally:
        shutil.rmtree(base, ignore_errors=True)
    return res
