"""C10_proc -- the FORWARDING half of C10 over real processes (DESIGN.md section 5, C10, tie T2 process level).

1. Coq: Properties/C10_proc.vo (coq/Forward/Relay.v): the request-id matching state machine that decides which result a
   text client of a non-leader is handed -- exact for every sequence of forwards, leader results and link drops; the
   same machine on the leader's own text connection is refuted (PUSH) unless ProcessLockResultCommand guards by request
   id; the binary roll-back (latest command only) is refuted.  Which of the leader-side statements applies is derived
   from the source (source_flags).
2. Real processes built from $VERIF_REPO: leader + follower (--slaveof through harness/forward/cmd/linkproxy, which logs
   every forwarded frame).  The SAME seeded request scripts (binary and text connections, LOCK/UNLOCK/PUSH/SET/DEL/INCR,
   queued and timed-out requests, pipelined bursts, short first commands, probes) run directly against the leader and
   through the follower's port on fresh keys.  MONITOR = the property: reply by reply equal, nothing missing / extra /
   shifted; every command reached the leader exactly once and the client got the leader's bytes; the follower answers
   on its own only with a refusal; the follower's lock table holds nothing but replicated holds.
3. Fixed scenarios: replay of the Coq witnesses (PUSH x1 / x6), link cut with commands in flight, promotion of the
   follower and demotion of a leader between two requests of open connections.
4. Tie: the wire events of every attributable text connection are run through Relay.run by vm_compute in coqc and the
   prediction is compared with what the client received.
"""
import glob, json, os, re, sys, time

from tools import vlib

FWD_DIR = os.path.join(vlib.VERIF, "harness", "forward")
if FWD_DIR not in sys.path:
    sys.path.insert(0, FWD_DIR)

MANIFEST = {
    "property": "C10",
    "part": "forwarding over real processes (called from checks/C10.py via vlib.run_sub)",
    "coq": ["Forward/Relay.v", "Properties/C10_proc.v"],
    "harness": "harness/forward",
    "technique": "Coq proof over an executable model of the relay's request-id matching (all event sequences, induction) + differential "
                 "run of seeded request scripts on real slock processes (leader directly vs. through a follower) + wire-level audit "
                 "through a frame-logging proxy + model replay of the observed wire events by vm_compute",
}

THEOREMS_ALWAYS = ["C10_proc_relay_exact", "C10_proc_relay_reader_never_blocks", "C10_proc_relay_drop_releases"]
THEOREMS_UNGUARDED = ["C10_proc_direct_push_shifts_refuted", "C10_proc_direct_push_blocks_refuted"]
THEOREMS_GUARDED = ["C10_proc_direct_guarded_exact", "C10_proc_direct_guarded_never_blocks"]
THEOREMS_ROLLBACK = ["C10_proc_binary_rollback_refuted"]


def source_flags():
    """model switches derived from the source that is being checked"""
    proto = open(os.path.join(vlib.REPO, "server", "protocol.go")).read()
    m = re.search(r"func \(self \*TextServerProtocol\) ProcessLockResultCommand\(.*?\n}\n", proto, flags=re.S)
    body = m.group(0) if m else ""
    tr = open(os.path.join(vlib.REPO, "server", "transparency.go")).read()
    rb = re.search(r"func \(self \*TransparencyBinaryClientProtocol\) rollbackLatestCommand\(.*?\n}\n", tr, flags=re.S)
    rbody = rb.group(0) if rb else ""
    return {
        # ProcessLockResultCommand drops a result whose RequestId is not the one the connection waits for
        "push_guard": bool(re.search(r"RequestId\s*!=\s*self\.lockRequestId", body)),
        # one (latestRequestId, latestCommandType) pair, no loop over commands in flight
        "rollback_latest_only": bool(rbody) and "latestRequestId" in rbody and not re.search(r"\bfor\b", rbody),
    }


def result_of(reply):
    if reply is None:
        return "none"
    if isinstance(reply, dict):
        if "result" in reply:
            return str(reply["result"])
        import monitor
        f = monitor.text_fields(reply)
        if f:
            return str(f["result"])
        for k in ("s", "e", "i"):
            if k in reply:
                return "%s:%s" % (k, str(reply[k])[:24])
        if "b" in reply:
            return "bulk" if reply["b"] is not None else "nil"
    return "other"


class Run:
    def __init__(self, ctx):
        import cluster, gen, monitor, scenarios, tie
        self.ctx, self.cluster, self.gen, self.monitor, self.scenarios, self.tie = ctx, cluster, gen, monitor, scenarios, tie
        self.thorough = ctx.tier == "thorough"
        self.cov = {"evaluations": 0, "scripts": 0, "families": {}, "commands_compared": 0, "relayed_byte_identical": 0, "text_forwarded": 0,
                    "local_refusals": 0, "local_probe_answers": 0, "masked_steps": 0, "flaky_unconfirmed": 0, "confirm_reruns": 0,
                    "result_classes": {}, "samples": []}
        self.distinct = set()
        self.nprefix = 0
        self.tie_jobs = []
        self.leader_shifts = False      # set by the witness replay at the start of the run (behaviour, not source)

    # ------------------------------------------------------------------ one pair of runs
    def prefix(self, phase):
        self.nprefix += 1
        n = self.nprefix
        digits = "0123456789abcdefghijklmnopqrstuvwxyz"
        s = ""
        for _ in range(4):
            s = digits[n % 36] + s
            n //= 36
        return phase + s + "x"

    def run_pairs(self, cl, scripts):
        """-> list of dict(script, A=(conc, info, out, prefix), B=...)"""
        pa, pb = [], []
        for sc in scripts:
            a, b = self.prefix("A"), self.prefix("B")
            pa.append((sc, a) + self.gen.concretise(sc, a))
            pb.append((sc, b) + self.gen.concretise(sc, b))
        tmax = 1800
        ha = cl.run_plan(cl.lport, [x[2] for x in pa], tmax_ms=tmax)
        hb = cl.run_plan(cl.fport, [x[2] for x in pb], tmax_ms=tmax)
        oa, ob = cl.collect(ha), cl.collect(hb)
        res = []
        for x, y in zip(pa, pb):
            res.append({"script": x[0], "A": {"prefix": x[1], "info": x[3], "out": oa[x[2]["id"]], "conc": x[2]},
                        "B": {"prefix": y[1], "info": y[3], "out": ob[y[2]["id"]], "conc": y[2]}})
        return res

    # ------------------------------------------------------------------ judging one pair
    def judge(self, pair, frames):
        """-> (signatures: list of (sig, what, detail, confirmable), stats)"""
        m = self.monitor
        sc, A, B = pair["script"], pair["A"], pair["B"]
        ia, oa, ib, ob = A["info"], A["out"], B["info"], B["out"]
        sigs = []
        audit = m.forward_audit(ib, ob, frames)
        pair["audit"] = audit
        echo_a, echo_b = m.echo_issues(ia, oa), m.echo_issues(ib, ob)
        diffs = m.compare(ia, oa, A["prefix"], ib, ob, B["prefix"])
        order = m.order_diff(ib, oa, ob)
        masked = set()            # (conn, from position) whose later differences are consequences of a finding already named
        mask_all = False

        # (1) commands that never reached the leader
        for nf in audit["not_forwarded"]:
            op = nf["op"].upper()
            if nf["first_of_connection"] and nf["wire_len"] <= 64:
                sigs.append(("text-first-command-executed-locally:" + op,
                             "the first command of a text connection to a non-leader, when it fits checkProtocol's 64-byte read, is run by the plain handlers: "
                             "%s answered %s without reaching the leader" % (op, result_of(nf["reply"])), {"step": nf}, False))
                mask_all = True   # the leader's state differs from here on
            else:
                sigs.append(("not-forwarded:" + op, "a client command was neither forwarded nor refused", {"step": nf}, True))
        for x in audit["forwarded_twice"]:
            sigs.append(("forwarded-twice", "a client command reached the leader more than once", {"detail": x}, True))
        for x in audit["relay_altered"]:
            sigs.append(("relay-altered", "the client did not get the bytes the leader sent", {"detail": x}, True))
        for x in audit["local_answers"]:
            sigs.append(("follower-answered-on-its-own:%s:result-%s" % (x["op"], x["reply"].get("result")),
                         "a non-leader answered a request itself with something else than a refusal", {"detail": x}, True))

        # (2) the leader's own text connection hands out another command's result after a PUSH
        pushes = {}
        for i, inf in enumerate(ia):
            if inf.get("kind") == "text" and inf["op"] == "push":
                pushes.setdefault(inf["c"], []).append(i)
        for e in echo_a:
            c = e["c"]
            if ia[e["i"]]["kind"] == "text" and any(p < e["i"] for p in pushes.get(c, [])):
                first = min(p for p in pushes[c])
                sigs.append(("leader-text-push-result-shifts-replies",
                             "on a text connection to the LEADER the result of a PUSH stays in the reply channel: every later LOCK/UNLOCK/SET of that "
                             "connection is handed the previous command's result", {"echo": e}, False))
                masked.add((c, ia[first]["pos"]))
            else:
                sigs.append(("leader-reply-names-another-command:" + ia[e["i"]]["op"], "a reply of the leader carries another command's identity", {"echo": e}, True))
        for c, ps in pushes.items():
            un = [i for i in ps if oa["steps"][i].get("reply") is None and not oa["steps"][i].get("err")]
            if un and len([p for p in ps if p < un[0]]) >= 4:
                sigs.append(("leader-text-push-blocks-connection",
                             "the fifth immediately answered PUSH on one text connection to the LEADER blocks that connection for ever (reply channel of capacity 4)",
                             {"step": un[0]}, False))
                masked.add((c, ia[ps[0]]["pos"]))
                mask_all = True   # the commands behind it were never executed on the leader
        for e in echo_b:
            if not any(x["i"] == e["i"] for x in echo_a):
                sigs.append(("follower-reply-names-another-command:" + ib[e["i"]]["op"],
                             "a reply handed out by the non-leader belongs to another command", {"echo": e}, True))

        # (3) reply-by-reply comparison
        ncmp = 0
        for i, inf in enumerate(ia):
            if inf["op"] in m.CMD_OPS:
                ncmp += 1
                ra, rb = oa["steps"][i].get("reply"), ob["steps"][i].get("reply")
                cls = "%s/%s/%s/%s" % (sc["family"], inf["kind"], inf["op"], result_of(rb))
                self.distinct.add(cls)
        nmask = 0
        for d in diffs:
            if d["kind"] == "reply":
                if mask_all or any(d["c"] == c and d["pos"] >= p for c, p in masked):
                    nmask += 1
                    continue
                if self.leader_shifts and d["conn_kind"] == "text" and any(p < d["i"] for p in pushes.get(d["c"], [])):
                    # the witness replay of this run showed that the leader's text connection hands out the previous result
                    # after a PUSH; a shifted result can carry the right LOCK_ID (UNLOCK of the PUSHed lock), so the echo
                    # monitor alone does not see it
                    sigs.append(("leader-text-push-result-shifts-replies",
                                 "on a text connection to the LEADER the result of a PUSH stays in the reply channel: a later command is handed the previous command's result",
                                 {"diff": d}, False))
                    masked.add((d["c"], ia[min(pushes[d["c"]])]["pos"]))
                    nmask += 1
                    continue
                sigs.append(("reply-differs:%s:%s:%s:%s->%s" % (sc["family"], d["conn_kind"], d["op"], result_of(d["leader"]), result_of(d["follower"])),
                             "the reply obtained through the follower differs from the reply the leader gives to the same command", {"diff": d}, True))
            elif d["kind"] == "extras":
                if not mask_all:
                    sigs.append(("unsolicited-frames-differ:" + sc["family"], "frames nobody asked for", {"diff": d}, True))
            elif d["kind"] == "conn":
                if not mask_all and not masked:
                    sigs.append(("connection-ended:" + sc["family"], "a connection ended on one side only", {"diff": d}, True))
        if order and not mask_all and not diffs:
            sigs.append(("reply-order-differs:" + sc["family"], "replies of one binary connection arrive in another order through the follower", {"order": order}, True))
        stats = {"compared": ncmp, "masked": nmask, "audit": {k: (len(v) if isinstance(v, list) else v) for k, v in audit.items()}}
        return sigs, stats

    def sample(self, pair, sig=None):
        A, B = pair["A"], pair["B"]
        return {"script": pair["script"], "prefix_leader": A["prefix"], "prefix_follower": B["prefix"], "signature": sig,
                "replies_leader": [s.get("reply") for s in A["out"]["steps"]], "replies_follower": [s.get("reply") for s in B["out"]["steps"]],
                "extras_leader": A["out"]["extras"], "extras_follower": B["out"]["extras"]}

    # ------------------------------------------------------------------ the differential part
    def differential(self, cl, scripts):
        ctx = self.ctx
        cl.ctl("mark differential")
        pairs = self.run_pairs(cl, scripts)
        time.sleep(0.15)
        frames = cl.link_frames()
        pending = []
        for pair in pairs:
            sigs, stats = self.judge(pair, frames)
            fam = pair["script"]["family"]
            self.cov["scripts"] += 1
            self.cov["families"][fam] = self.cov["families"].get(fam, 0) + 1
            self.cov["commands_compared"] += stats["compared"]
            self.cov["masked_steps"] += stats["masked"]
            self.cov["evaluations"] += stats["compared"]
            a = stats["audit"]
            self.cov["relayed_byte_identical"] += a["relayed_identical"]
            self.cov["text_forwarded"] += a["text_forwarded"]
            self.cov["local_refusals"] += a["local_refusals"]
            self.cov["local_probe_answers"] += a["local_probe_answers"]
            self.tie_jobs.append(pair)
            for sig, what, detail, confirmable in sigs:
                if confirmable:
                    pending.append((pair, sig, what, detail))
                else:
                    r = ctx.violation(sig, what, dict(self.sample(pair, sig), detail=detail))
                    if r == "known" and len(self.cov["samples"]) < 6:
                        self.cov["samples"].append({"known_finding_input": pair["script"]["id"], "signature": sig})
        # a difference must reproduce on fresh keys twice more before it is called a violation (timer races do not)
        done = set()
        for pair, sig, what, detail in pending:
            key = (pair["script"]["id"], sig)
            if key in done:
                continue
            done.add(key)
            hits = 1
            for _ in range(2):
                self.cov["confirm_reruns"] += 1
                p2 = self.run_pairs(cl, [pair["script"]])[0]
                time.sleep(0.1)
                s2, _ = self.judge(p2, cl.link_frames())
                if any(x[0] == sig for x in s2):
                    hits += 1
            if hits == 3:
                ctx.violation(sig, what + " (reproduced 3 of 3 times on fresh keys)", dict(self.sample(pair, sig), detail=detail))
            else:
                self.cov["flaky_unconfirmed"] += 1
                dd = detail.get("diff") or detail
                ctx.notes.append("not reproduced (%d of 3): %s on %s: %s" % (hits, sig, pair["script"]["id"], json.dumps(dd, sort_keys=True)[:700]))
        for pair in pairs[:2]:
            if len(self.cov["samples"]) < 8:
                s = self.sample(pair)
                self.cov["samples"].append({"script": s["script"]["id"], "steps": len(s["script"]["steps"]),
                                            "first_replies_leader": s["replies_leader"][:3], "first_replies_follower": s["replies_follower"][:3]})
        return pairs

    # ------------------------------------------------------------------ follower state
    def follower_state(self, cl):
        """the follower's lock table: only holds that came through the replicated stream, and (eventually) the leader's"""
        ctx = self.ctx
        deadline = time.time() + (8 if self.thorough else 5)
        last = None
        while True:
            L, F = cl.show(cl.lport), cl.show(cl.fport)
            only_f = {k: v for k, v in F.items() if k not in L}
            not_aof = []
            for k in list(F)[:40]:
                for h in cl.show_key(cl.fport, k):
                    if not h["state"] & 0x08:
                        not_aof.append((k, h))
            last = (len(L), len(F), only_f, not_aof)
            if (not only_f and not not_aof) or time.time() > deadline:
                break
            time.sleep(0.4)
        nl, nf, only_f, not_aof = last
        self.cov["follower_state"] = {"leader_keys_held": nl, "follower_keys_held": nf, "follower_only_keys": len(only_f), "follower_holds_not_from_stream": len(not_aof)}
        self.cov["evaluations"] += nf
        if not_aof:
            ctx.violation("follower-hold-not-from-stream", "the follower's lock table contains a hold that did not arrive through the replicated stream (SHOW state bit 0x08 clear)",
                          {"scenario": "follower_state", "holds": not_aof[:5]})
        if only_f:
            ctx.violation("follower-holds-unknown-to-leader", "the follower holds keys that the leader does not hold (after settling)", {"scenario": "follower_state", "keys": dict(list(only_f.items())[:8])})
        # a non-leader never queues and never times anything out on its own
        st = cl.collect(cl.run_plan(cl.fport, [{"id": "state", "conns": [{"kind": "bin"}], "drain_ms": 200,
                                                "steps": [{"c": 0, "op": "state", "rid": "ab" * 16, "wait": "reply"}]}]))["state"]["steps"][0].get("reply") or {}
        s = st.get("state") or {}
        self.cov["follower_counters"] = s
        if s.get("wait", 0) or s.get("timeouted", 0):
            ctx.violation("follower-queued-or-timed-out", "the follower's own counters show queued / timed-out requests", {"scenario": "follower_state", "state": s})

    # ------------------------------------------------------------------ fixed scenarios
    def witnesses(self, cl, flags):
        ctx, sc = self.ctx, self.scenarios
        res = {}
        lead1, foll1 = sc.shift_witness(cl, cl.lport, self.prefix("W")), sc.shift_witness(cl, cl.fport, self.prefix("W"))
        lead6, foll6 = sc.push_witness(cl, cl.lport, self.prefix("W")), sc.push_witness(cl, cl.fport, self.prefix("W"))
        res = {"leader_shifted": lead1["shifted"], "follower_shifted": foll1["shifted"], "leader_pushes_answered_of_6": lead6["pushes_answered"],
               "follower_pushes_answered_of_6": foll6["pushes_answered"], "leader_ping_after_6_pushes": lead6["ping_answered"]}
        self.cov["witness_replays"] = res
        self.leader_shifts = bool(lead1["shifted"])
        self.cov["evaluations"] += 4
        model_shift = not flags["push_guard"]
        ctx.obligation("witness replay: Relay.direct_push_shifts [DPush now; DWait now] on the real leader (model: %s, observed: %s)"
                       % ("shifted" if model_shift else "exact", "shifted" if lead1["shifted"] else "exact"), lead1["shifted"] == model_shift)
        ctx.obligation("witness replay: Relay.direct_push_blocks (5 immediate PUSHes) on the real leader (model: %s, observed: %d of 6 PUSHes answered)"
                       % ("blocks at the 5th" if model_shift else "never blocks", lead6["pushes_answered"]),
                       (lead6["pushes_answered"] == 4 and not lead6["ping_answered"]) == model_shift)
        if lead1["shifted"]:
            ctx.violation("leader-text-push-result-shifts-replies", "PUSH then LOCK on a text connection to the leader: the LOCK is handed the PUSH's result",
                          {"scenario": "witness", "witness": "Relay.direct_push_shifts", "run": lead1})
        if lead6["pushes_answered"] < 6 or not lead6["ping_answered"]:
            ctx.violation("leader-text-push-blocks-connection", "six immediately answered PUSHes on a text connection to the leader: %d answered, the connection hangs"
                          % lead6["pushes_answered"], {"scenario": "witness", "witness": "Relay.direct_push_blocks", "run": lead6})
        if foll1["shifted"] or not foll1["lock_answered"]:
            ctx.violation("follower-text-push-shifts-replies", "PUSH then LOCK through the follower: the LOCK is not handed its own result", {"scenario": "witness", "run": foll1})
        if foll6["pushes_answered"] < 6 or not foll6["ping_answered"] or not foll6["lock_reply_is_own"]:
            ctx.violation("follower-text-push-blocks-or-shifts", "six PUSHes through the follower", {"scenario": "witness", "run": foll6})
        return res

    def stale_probe(self, cl):
        ctx = self.ctx
        r = self.scenarios.stale_probe(cl, self.prefix("S"), self.prefix("S"))
        self.cov["stale_probe"] = {k: r[k] for k in ("leader_probe_result", "follower_probe_result", "probe_forwarded", "leader_unlock", "follower_unlock")}
        self.cov["evaluations"] += 4
        if r["follower_probe_result"] != r["leader_probe_result"]:
            if not r["probe_forwarded"] and r["follower_probe_result"] == 8:
                ctx.violation("follower-probe-answered-from-stale-copy",
                              "UNLOCK and a concurrent-check probe back to back: the leader grants the probe (result %s), the follower answers it itself with TIMEOUT from "
                              "its own copy of the lock table, which has not seen the release yet" % r["leader_probe_result"], {"scenario": "stale_probe", "run": r})
            else:
                ctx.violation("probe-differs:%s->%s" % (r["leader_probe_result"], r["follower_probe_result"]), "probe outcome differs", {"scenario": "stale_probe", "run": r})

    def cut(self, cl, flags, nflight=6, cutafter=None):
        ctx = self.ctx
        r = self.scenarios.cut_scenario(cl, self.prefix("C"), nflight=nflight, cutafter=cutafter)
        lost = [j for j, a in enumerate(r["answered"]) if not a]
        self.cov.setdefault("link_cuts", []).append({"in_flight": r["nflight"], "cutafter": cutafter, "answered": sum(r["answered"])})
        self.cov["link_cut"] = {"in_flight": r["nflight"], "answered": sum(r["answered"]), "results": r["results"], "leader_executed_unanswered": r["leader_holds_for_unanswered"],
                                "text_waiter_released": r["text_inflight_reply"] is not None, "connection_usable_afterwards": r["after_bin"] == 0}
        self.cov["evaluations"] += r["nflight"] + 3
        model_loses = flags["rollback_latest_only"]
        if cutafter is not None and not lost:
            ctx.notes.append("cutafter %d of %d: the cut hit another link, every binary command was answered" % (cutafter, nflight))
        else:
            ctx.obligation("witness replay: Relay.binary_rollback_loses_replies on the real follower (model: %s, observed: %d of %d in-flight commands answered)"
                           % ("only the latest is answered" if model_loses else "all answered", sum(r["answered"]), r["nflight"]), bool(lost) == model_loses)
        if lost:
            ctx.violation("link-drop-unanswered-inflight:binary",
                          "the leader link dropped with %d binary commands in flight: %d never got any answer (the leader executed %d of them)"
                          % (r["nflight"], len(lost), len(r["leader_holds_for_unanswered"])), {"scenario": "cut", "run": r})
        if r["text_inflight_reply"] is None:
            ctx.violation("link-drop-unanswered-inflight:text", "the text client's waiting LOCK was never answered after the link dropped (Relay.relay_drop_releases says it is)",
                          {"scenario": "cut", "run": r})
        if r["after_bin"] != 0:
            ctx.violation("link-drop-connection-unusable", "after the link cut the same client connection cannot reach the leader any more", {"scenario": "cut", "run": r})
        if cutafter is None:
            self.cut_tie(cl, r)
        return r

    def cut_tie(self, cl, r):
        """the text connection of the cut scenario through Relay.run: [EFwdWait 1; EReply 1 _; EFwdWait 2; EDrop] -- the model hands
        the waiting command the roll-back error (relay_drop_releases), the real client must have received RESULT_ERROR"""
        ctx, tie, gen = self.ctx, self.tie, self.gen
        sc, out, steps = r["script"], r["out"], r["text_steps_on_cut_link"]
        info = []
        for st in sc["steps"]:
            if st.get("op") == "text" and st["args"][0] == "LOCK":
                info.append({"op": "lock", "c": st["c"], "kind": "text", "keyhex": gen.key_hex(st["args"][1]), "lidhex": gen.key_hex(st["args"][3])})
            else:
                info.append({"op": "other", "c": st.get("c"), "kind": None})
        frames = cl.link_frames()
        first = [f for f in frames if f.get("dir") == "req" and f.get("lockkey") == info[steps[0]]["keyhex"]]
        if not first:
            ctx.obligation("cut scenario: text connection replayed through Relay.run (EDrop)", False, "forwarded frame not found in the link log")
            return
        l, t0 = first[0]["link"], first[0]["t"]
        lf = [f for f in frames if f.get("link") == l and f["t"] >= t0 and (f.get("dir") in ("req", "rep") or "closed" in f)]
        evs, _ = tie.events(steps, info, lf)
        try:
            pred = tie.run_model(vlib.COQ, os.path.join(vlib.BUILD, "c10proc"), [evs])[0]
            probs = tie.check(info, out, (1, steps, lf), pred)
        except Exception as e:
            probs = ["model replay failed: " + str(e)[-300:]]
            pred = None
        ok = not probs and "EDrop" in evs and pred is not None and any(x[1][0] == "R" for x in pred[1])
        ctx.obligation("cut scenario: wire events of the text connection %s run through Relay.run: the waiting LOCK is handed the roll-back error, as the client observed"
                       % evs, ok, json.dumps(probs)[:600] if probs else "")
        self.cov.setdefault("link_cut_tie", []).append({"events": evs, "model": str(pred), "problems": probs})
        if probs:
            ctx.violation("tie:relay-model-disagrees:cut", "Relay.run and the real relay disagree after a link drop", {"scenario": "cut", "events": evs, "problems": probs}, found_input=True)

    def roles(self, cl):
        ctx, sc = self.ctx, self.scenarios
        np = cl.start_extra()
        d = sc.demote_fresh_scenario(cl, np, self.prefix("D"), self.prefix("D"))
        done = d["admin"] and d["admin"][0][1] is not None
        # a demoted leader flushes its lock table and tells the holders EXPRIED (result 9): unsolicited by design
        def only_flush_notices(x):
            return x["kind"] == "extras" and not x["leader"] and all(isinstance(e["frame"], dict) and e["frame"].get("result") == 9 for e in x["follower"])
        bad = [x for x in d["diffs"] if x["kind"] == "reply" and not sc.is_refusal(x["follower"])] + \
              [x for x in d["diffs"] if x["kind"] != "reply" and not only_flush_notices(x)]
        refused = [x["i"] for x in d["diffs"] if x["kind"] == "reply" and sc.is_refusal(x["follower"])]
        self.cov["role_demote"] = {"slaveof_answered": bool(done), "replies_equal_to_reference": len([i for i in d["info"] if i["op"] in self.monitor.CMD_OPS]) - len(d["diffs"]),
                                   "refused": len(refused), "other_differences": len(bad),
                                   "flush_notices": sum(len(x["follower"]) for x in d["diffs"] if only_flush_notices(x))}
        self.cov["evaluations"] += len(d["info"])
        for x in bad:
            ctx.violation("role-change:demoted-leader:reply-differs:%s" % x.get("op"), "after the leader was made a follower between two requests of one connection, "
                          "a reply is neither the leader's nor a refusal", {"scenario": "roles", "diff": x, "script": d["script"]})
        for e in d["echo"]:
            ctx.violation("role-change:demoted-leader:reply-names-another-command", "shifted reply after demotion", {"scenario": "roles", "echo": e, "script": d["script"]})
        if not done:
            ctx.violation("role-change:leader-to-follower-never-completes",
                          "admin SLAVEOF host port on a running leader never returns: the node stays in the syncing state and refuses every request (%d refusals seen)"
                          % len(refused), {"scenario": "demote", "script": d["script"], "replies": [s.get("reply") for s in d["role"]["steps"]]})
        r = sc.role_scenario(cl, self.prefix("R"), self.prefix("R"))
        promoted = r["admin"] and r["admin"][0][1] == {"s": "OK"}
        self.cov["role_promote"] = {"slaveof_answered": bool(promoted), "strict_differences": len(r["strict_diffs"]), "refused_after_demotion": len(r["refused_after_demotion"]),
                                    "other_differences_after_demotion": len(r["loose_diffs"]),
                                    "flush_notices_of_demoted_old_leader": len(r["flush_notices"])}
        self.cov["evaluations"] += len(r["info"])
        for x in r["strict_diffs"]:
            ctx.violation("role-change:promoted-follower:reply-differs:%s" % x.get("op"), "after the follower was promoted between two requests of one connection, a reply "
                          "differs from what a leader with the same holds answers", {"scenario": "roles", "diff": x, "script": r["script"]})
        for x in r["loose_diffs"]:
            ctx.violation("role-change:demoted-old-leader:reply-differs:%s" % x.get("op"), "reply neither equal nor a refusal", {"scenario": "roles", "diff": x, "script": r["script"]})
        for e in r["echo"]:
            ctx.violation("role-change:reply-names-another-command", "shifted reply after a role change", {"scenario": "roles", "echo": e, "script": r["script"]})

    # ------------------------------------------------------------------ model tie
    def model_tie(self, cl, extra_sessions=None):
        ctx, tie = self.ctx, self.tie
        frames = cl.link_frames()
        jobs = []
        skipped = 0
        for pair in self.tie_jobs:
            B = pair["B"]
            ss, sk = tie.sessions(B["info"], B["out"], frames, pair["audit"])
            skipped += sk
            for s in ss:
                jobs.append((B, s))
        traces = [tie.events(s[1], B["info"], s[2])[0] for B, s in jobs]
        t0 = time.time()
        try:
            pred = tie.run_model(vlib.COQ, os.path.join(vlib.BUILD, "c10proc"), traces)
        except Exception as e:
            ctx.obligation("observed wire events run through Relay.run (vm_compute in coqc)", False, str(e)[-600:])
            ctx.violation("tie:model-replay-failed", "the Coq model could not be run on the observed traces", {"broken": "tie", "detail": str(e)[-1500:]}, found_input=False)
            return
        problems = []
        nev = 0
        for (B, s), p in zip(jobs, pred):
            nev += len(s[2])
            for pr in tie.check(B["info"], B["out"], s, p):
                problems.append({"script": B["conc"]["id"], "conn": s[0], "problem": pr})
        self.cov["model_tie"] = {"text_connections_replayed": len(jobs), "wire_events": nev, "not_attributable": skipped, "mismatches": len(problems),
                                 "coqc_s": round(time.time() - t0, 1)}
        self.cov["evaluations"] += nev
        ctx.obligation("observed wire events of %d text connections (%d events) run through Relay.run by vm_compute: the model's hand-outs equal what the clients received"
                       % (len(jobs), nev), not problems and len(jobs) > 0, json.dumps(problems[:3])[:800] if problems else "")
        if problems:
            ctx.violation("tie:relay-model-disagrees", "Relay.run and the real relay disagree on what a text client is handed", {"scenario": "full", "problems": problems[:5]}, found_input=True)


def replay_kind(j):
    """what a replay file asks for: 'script' (one symbolic script, run against leader and follower), a scenario
    ('witness', 'stale_probe', 'cut', 'roles', 'follower_state') or 'full' (the whole seeded run)"""
    rp = j.get("replay", j) if isinstance(j, dict) else {}
    sc = rp.get("script") if isinstance(rp, dict) else None
    if isinstance(sc, dict) and sc.get("steps") and "family" in sc and all("args" not in st and "rid" not in st for st in sc["steps"]):
        return "script"
    name = (rp.get("scenario") if isinstance(rp, dict) else None) or j.get("scenario")
    alias = {"demote": "roles", "role": "roles", "roles": "roles", "cut": "cut", "stale_probe": "stale_probe", "witness": "witness",
             "follower_state": "follower_state", "full": "full"}
    if name in alias:
        return alias[name]
    sig = j.get("signature", "")
    for pre, k in (("role-change:", "roles"), ("link-drop", "cut"), ("tie:relay-model-disagrees:cut", "cut"), ("follower-probe", "stale_probe"),
                   ("probe-differs", "stale_probe"), ("leader-text-push", "witness"), ("follower-text-push", "witness"),
                   ("follower-hold", "follower_state"), ("follower-queued", "follower_state")):
        if sig.startswith(pre):
            return k
    return "full"


def corpus_scripts():
    res = []
    for p in sorted(glob.glob(os.path.join(vlib.VERIF, "corpus", "C10_proc", "*.json"))):
        try:
            j = json.load(open(p))
        except ValueError:
            continue
        if isinstance(j, dict) and "script" in j and "steps" in j["script"]:
            sc = dict(j["script"])
            sc["id"] = "corpus-" + os.path.basename(p)[:-5]
            sc.setdefault("family", "corpus")
            sc.setdefault("drain_ms", 500)
            res.append(sc)
    return res


def run(ctx):
    R = Run(ctx)
    thorough = R.thorough
    flags = source_flags()
    # ---- 1. Coq
    ok, log = ctx.coq(["Properties/C10_proc.vo"])
    claimed = THEOREMS_ALWAYS + (THEOREMS_GUARDED if flags["push_guard"] else THEOREMS_UNGUARDED) + (THEOREMS_ROLLBACK if flags["rollback_latest_only"] else [])
    for th in claimed:
        rep = ctx.assumption_report.get(th, "")
        ctx.obligation("theorem %s (coq/Properties/C10_proc.v), closed under the global context" % th, ok and rep.startswith("Closed under the global context"),
                       "" if ok else getattr(ctx, "coq_failure", "")[:400])
    if not ok:
        ctx.violation("coq:C10_proc", "Properties/C10_proc.vo does not build", {"broken": "proof", "detail": getattr(ctx, "coq_failure", log[-1500:])}, found_input=False)
    if thorough and ok:
        okc, outc = ctx.coqchk(["Slock.Properties.C10_proc"])
        ctx.obligation("coqchk Slock.Properties.C10_proc", okc, "" if okc else outc[-400:])
    # ---- 2. builds from the tree under check
    mod = os.path.join(vlib.VERIF, "harness", "forward")
    bins = {"slock": ctx.go_build("c10p-slock", mod, pkg="./cmd/slock", tags="",
                                  overlay={os.path.join(vlib.VERIF, "harness/forward/cmd/slock/main.go"): os.path.join(vlib.REPO, "main.go")}),
            "fwdrun": ctx.go_build("c10p-fwdrun", mod, pkg="./cmd/fwdrun", tags=""),
            "linkproxy": ctx.go_build("c10p-linkproxy", mod, pkg="./cmd/linkproxy", tags="")}
    # ---- 3. scripts
    import gen
    kind = None
    if getattr(ctx, "replay", None):
        j = json.load(open(ctx.replay))
        kind = replay_kind(j)
        rp = j.get("replay", j)
        scripts = [rp["script"]] if kind == "script" else []
        n_gen = 0
        if kind == "full":      # the failing input is the whole seeded run
            import random
            ctx.rng = random.Random(int(j.get("seed", ctx.seed)))
            n_gen = 400 if j.get("tier", ctx.tier) == "thorough" else 30
            scripts = corpus_scripts() + gen.generate(ctx.rng, n_gen)
        ctx.notes.append("replay of %s as kind '%s'" % (ctx.replay, kind))
    else:
        n_gen = 400 if thorough else 30
        scripts = corpus_scripts() + gen.generate(ctx.rng, n_gen)
    cl = R.cluster.Cluster(bins, 0, "main")
    t0 = time.time()
    try:
        cl.start()
        R.cov["cluster_start_s"] = round(time.time() - t0, 2)
        if kind in (None, "full", "script", "witness"):
            R.witnesses(cl, flags)
        batch = 40
        for k in range(0, len(scripts), batch):
            R.differential(cl, scripts[k:k + batch])
        if kind == "follower_state":
            R.follower_state(cl)
        elif kind == "stale_probe":
            R.stale_probe(cl)
        elif kind == "cut":
            rr = (j.get("replay", j).get("run") or {}) if isinstance(j.get("replay", j), dict) else {}
            R.cut(cl, flags, nflight=int(rr.get("nflight") or 6), cutafter=rr.get("cutafter"))
        elif kind == "roles":
            R.roles(cl)
        if kind in (None, "full"):
            R.follower_state(cl)
            R.model_tie(cl)
            R.stale_probe(cl)
            R.cut(cl, flags)
            if thorough:
                for _ in range(4):
                    n = ctx.rng.choice([3, 5, 8, 12])
                    R.cut(cl, flags, nflight=n, cutafter=ctx.rng.choice([None, 1, n - 2]))
            R.roles(cl)
        for name in ("leader", "follower"):
            if not cl.alive(name) and name in cl.procs:
                ctx.violation("process-died:" + name, "a slock process died during the run", {"log": open(os.path.join(cl.dir, name + ".out")).read()[-3000:]})
    finally:
        cl.stop(keep=bool(os.environ.get("C10P_KEEP")))     # C10P_KEEP=1: leave /tmp/c10proc-<pid>-main (logs) for inspection
    cov = R.cov
    cov["distinct_nontrivial"] = len(R.distinct)
    cov["rule"] = "distinct (script family, protocol, command, result obtained through the follower) classes"
    cov["result_classes"] = sorted(R.distinct)[:80]
    cov["source_flags"] = flags
    cov["generated_scripts"] = n_gen
    ctx.trusted += [
        "harness/forward: cmd/fwdrun (script runner, reply matching by RequestId / position), cmd/linkproxy (frame cutting and logging between follower and leader), "
        "the real slock command built from <repo>/main.go by overlay; admin command SHOW for the lock tables",
        "coq/Forward/Relay.v is a hand transcription of the request-id matching in server/transparency.go and server/protocol.go (state: lockRequestId, "
        "latestRequestId/latestCommandType, lockWaiter); tied by replaying observed wire events through it (vm_compute) and by replaying its refutation witnesses "
        "on the real processes; the lock engine, bytes and TCP are outside the model",
        "model switches push_guard / rollback_latest_only are read from the source by regular expressions (checks/C10_proc.py source_flags)",
        "timing: scripts keep commands >= 140 ms away from millisecond deadlines; a difference counts only if it reproduces 3 of 3 times on fresh keys",
    ]
    assumptions = ["leader and follower run on one host over loopback; one follower", "request ids produced by GenRequestId are never all-zero (hypothesis ev_nonzero of the theorems)"]
    return ctx.finish(cov, assumptions)
