"""C06 — holds expire in [E, E+2s] (DESIGN.md section 5 C06)."""
from checks import _engine

MANIFEST = dict(
    technique="Coq proof over the executable engine model (induction over action lists / invariants) + differential correspondence check model vs real LockDB",
    text="Theorems in coq/Properties/C06*.v (effect of an expiry: EXPRIED to the holder's connection, capacity freed, wake-up pending; CheckLockedEqual within one unit and equal updates ignored; deadline formulas at grant / update; the wheel scan hands over only due live holds, never an unlimited one, whatever the state (`_partial`: local form); re-check spacing bounds (`_partial`). Run level (C06_run.v, every core run, any tick sizes and sweep lags): every EXPRIED reply of an expiry sweep belongs to a live hold whose deadline has been reached, no earlier than start + E*unit + 1 for its current terms (the unlimited + 0xffff update sentinel excluded explicitly), both for the wheel and the long table (bucket integrity invariant); a hold with deadline MAXT is never handed to doExpried; the effect of every such call (release, EXPRIED, wake-up pending). Upper bound (C06_late.v, regular schedules: one-second ticks, an expiry sweep between two ticks, leader throughout, no un-renew flag): a hold whose deadline was never shortened is handed to doExpried at its deadline second exactly; after a shortening update within 8 s of the new deadline (the property allows 10); no held record stays held more than 8 s past its deadline; wheel and long-table placement invariant; the first sweep of a history and unlimited deadlines are stated separately) are machine-checked over the engine model; tie = differential correspondence with the manual clock incl. updates that lengthen/shorten, re-locks, unlocks racing the sweep at tick granularity; monitor = expiry window on implementation traces (E+2 s, E+10 s after a re-lock/update).",
    note="Trusted: Coq kernel; hand-written model validated by the correspondence check of the same run; extraction (ExtrOcamlBasic only); harness + hooks; sequential schedules at request/sweep granularity, one shard, manual clock (sweeper driver loops replayed by the harness); see evidence trusted_base for the full list of modelled-not-verified parts.",
)
PROFILES = [('expiry', 0.6), ('core', 0.2), ('aof', 0.2), ('schedsweep', 0.12)]
MONITORS = ['C06', 'PANIC']


def realtime(ctx, run):
    """millisecond wheels run on the wall clock and are not modelled: checked on the implementation in real time"""
    from tools import engine_rt
    res, txt = engine_rt.run(run.impl, which=("C06",))
    ctx.notes.append("real-time millisecond scenario: %d reply lines" % txt.count("rt reply"))
    return res


def long_table_holes(rng, cid0):
    """several holds filed in ONE bucket of the long expiry table (same deadline second; long table reached at once with
    the persist-immediately flag and E > 5, or after eight re-checks with E around 40..60), some of them leaving early
    (unlock, update to another deadline) so that the bucket has holes when the sweeper drains it: every remaining hold
    must still be ended at its deadline"""
    cases = []
    for j in range(4):
        key = 61 + j
        n = rng.choice([3, 5, 9])
        E = rng.choice([8, 12, 45, 60])
        eflag = 0x100 if E < 40 or rng.random() < 0.5 else 0
        lines = ["case %d 1000000 %d %d" % (cid0 + j, rng.choice([0, 1]), rng.choice([0, 1]))]
        rid = 790000 + 1000 * j
        for i in range(n):
            lines.append("req %d L %d 0 %d %d 0 0 %d %d 65535 0 -" % (1 + i % 3, rid, 9700 + i, key, eflag, E)); rid += 1
        lines += ["adv 1", "sweept", "sweepe"]
        leave = rng.sample(range(n - 1), rng.randrange(1, n - 1)) if n > 2 else [0]
        for i in sorted(leave):
            if rng.random() < 0.7:
                lines.append("req 1 U %d 0 %d %d 0 0 0 0 0 0 -" % (rid, 9700 + i, key)); rid += 1
            else:
                lines.append("req 1 L %d 2 %d %d 0 0 %d %d 65535 0 -" % (rid, 9700 + i, key, eflag, E + 7)); rid += 1
        for _ in range(E + 20):
            lines += ["adv 1", "sweept", "sweepe"]
        lines += ["adv 0", "role 1"]
        for _ in range(3):
            lines.append("req 1 U %d 1 0 %d 0 0 0 0 0 0 -" % (rid, key)); rid += 1
        lines += ["adv 1", "sweept", "sweepe"] * 10 + ["adv 100", "sweept", "sweepe"] + ["adv 1", "sweept", "sweepe"] * 10
        lines.append("end")
        cases.append(lines)
    return cases


def run(ctx):
    if getattr(ctx, "replay", None):
        return _engine.replay(ctx, 'C06', MONITORS)
    return _engine.run_engine_check(ctx, 'C06', PROFILES, MONITORS, n_quick=450, n_thorough=18000, impl_only=realtime,
                                    extra_cases=long_table_holes)
