"""C06 — holds expire in [E, E+2s] (DESIGN.md section 5 C06)."""
from checks import _engine

MANIFEST = dict(
    technique="Coq proof over the executable engine model (induction over action lists / invariants) + differential correspondence check model vs real LockDB",
    text="Theorems in coq/Properties/C06*.v (effect of an expiry: EXPRIED to the holder's connection, capacity freed, wake-up pending; CheckLockedEqual within one unit and equal updates ignored; deadline formulas at grant / update; the wheel scan hands over only due live holds, never an unlimited one, whatever the state (`_partial`: local form); re-check spacing bounds (`_partial`). The run-level 'never early / at most ~10 s late' for holds that sit in the long table is NOT proved: local lemmas + differential only) are machine-checked over the engine model; tie = differential correspondence with the manual clock incl. updates that lengthen/shorten, re-locks, unlocks racing the sweep at tick granularity; monitor = expiry window on implementation traces (E+2 s, E+10 s after a re-lock/update).",
    note="Trusted: Coq kernel; hand-written model validated by the correspondence check of the same run; extraction (ExtrOcamlBasic only); harness + hooks; sequential schedules at request/sweep granularity, one shard, manual clock (sweeper driver loops replayed by the harness); see evidence trusted_base for the full list of modelled-not-verified parts.",
)
PROFILES = [('expiry', 0.6), ('core', 0.2), ('aof', 0.2)]
MONITORS = ['C06', 'PANIC']


def realtime(ctx, run):
    """millisecond wheels run on the wall clock and are not modelled: checked on the implementation in real time"""
    from tools import engine_rt
    res, txt = engine_rt.run(run.impl, which=("C06",))
    ctx.notes.append("real-time millisecond scenario: %d reply lines" % txt.count("rt reply"))
    return res


def run(ctx):
    if getattr(ctx, "replay", None):
        return _engine.replay(ctx, 'C06', MONITORS)
    return _engine.run_engine_check(ctx, 'C06', PROFILES, MONITORS, n_quick=450, n_thorough=18000, impl_only=realtime)
