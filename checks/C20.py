"""C20 -- internal queues refine a plain deque under every operation mix.

1. Coq: Properties/C20.vo (model coq/Queue/*.v, theorems re-exported).
2. Source tie, re-run every time:
   a. the three queue types of server/queue.go are textually identical modulo type/parameter names
      (normalising diff) -- so the single model SegQueue.v covers all three;
      restructuringLongTimeOutQueue / restructuringLongExpriedQueue of server/db.go likewise;
   b. correspondence: seeded op sequences run on the real Go types (harness/queue, injected in-package by
      go build -overlay) and on the OCaml extraction of the model; every return value, Len, iteration result and
      internal-field dump is compared.
3. Monitor: the property itself (a plain deque / stable priority queue in Python) is evaluated on the Go
   observations; deviations are minimised (delta debugging on the Go harness), classified by a stable signature and
   matched against known_findings/C20.json.
Three families of cases: segmented queues (L/C/M), per-key queues of lock.go (R/Q/W/K; incl. the directed
"wait-states" generator that drives every maintenance operation of LockManagerWaitQueue from every representation
state), long-wait tables of db.go (G: LongWaitLockQueue + LongWaitLockFreeQueue through the real AddTimeOut /
RemoveLongTimeOut / AddExpried / RemoveLongExpried / restructuringLong*Queue, model coq/Queue/LongWait.v).
"""
import difflib, importlib.util, json, os, re, subprocess, sys, time
from concurrent.futures import ThreadPoolExecutor
from tools import vlib

MANIFEST = {
    "property": "C20",
    "theorems": "coq/Properties/C20.v",
    "model": ["coq/Queue/SegQueue.v", "coq/Queue/KeyQueues.v", "coq/Queue/LongWait.v"],
    "harness": "harness/queue",
    "ocaml": "ocaml/queue",
}

VERIF = vlib.VERIF
INJ = "harness/queue/inj/server"
INJ_FILES = ["zz_verif_queue.go", "zz_verif_queue_lockqueue.go", "zz_verif_queue_lockcommandqueue.go",
             "zz_verif_queue_lockmanagerqueue.go", "zz_verif_keyqueue.go", "zz_verif_longwait.go"]

# ------------------------------------------------------------------ source identity of the three queue types
ELEM = {"LockManagerQueue": "LockManager", "LockQueue": "Lock", "LockCommandQueue": "protocol.LockCommand"}


def normalised_queue_types(repo):
    src = open(os.path.join(repo, "server", "queue.go")).read()
    starts = [(m.start(), m.group(1)) for m in re.finditer(r"^type (\w+) struct", src, flags=re.M)]
    blocks = {}
    for i, (pos, name) in enumerate(starts):
        end = starts[i + 1][0] if i + 1 < len(starts) else len(src)
        b = src[pos:end]
        if name not in ELEM:
            blocks[name] = None
            continue
        b = b.replace("New" + name, "NewQ")
        b = re.sub(r"\b%s\b" % re.escape(name), "Q", b)
        b = re.sub(r"\*%s\b" % re.escape(ELEM[name]), "*E", b)
        b = re.sub(r"\blockManager\b", "lock", b)      # parameter / local variable name of the element
        b = "\n".join(l.rstrip() for l in b.splitlines() if l.strip())
        blocks[name] = b
    return blocks


def check_identity(ctx, repo):
    """returns (ok, detail)"""
    blocks = normalised_queue_types(repo)
    missing = [n for n in ELEM if blocks.get(n) is None]
    extra = [n for n in blocks if n not in ELEM]
    if missing or extra:
        return False, "queue.go no longer declares exactly the three queue types: missing %s extra %s" % (missing, extra)
    ref = blocks["LockQueue"]
    for n in ELEM:
        if blocks[n] != ref:
            d = list(difflib.unified_diff(ref.splitlines(), blocks[n].splitlines(), "LockQueue", n, lineterm="", n=0))
            return False, "%s differs from LockQueue after normalisation: %s" % (n, " | ".join(d[:12]))
    # the two restructuringLong*Queue functions of db.go
    db = open(os.path.join(repo, "server", "db.go")).read()
    fs = {}
    for name in ("restructuringLongTimeOutQueue", "restructuringLongExpriedQueue"):
        m = re.search(r"^func \(self \*LockDB\) %s\(.*?^}\n" % name, db, flags=re.S | re.M)
        if not m:
            return False, "db.go: %s not found" % name
        b = m.group(0).replace(name, "F").replace("longTimeoutLocks", "LONG").replace("longExpriedLocks", "LONG")
        fs[name] = "\n".join(l.rstrip() for l in b.splitlines() if l.strip())
    if fs["restructuringLongTimeOutQueue"] != fs["restructuringLongExpriedQueue"]:
        return False, "db.go: restructuringLongTimeOutQueue and restructuringLongExpriedQueue differ"
    # RemoveLongTimeOut / RemoveLongExpried: same Remove + trigger + restructure (one model: LongWait.lw_trigger)
    rs = {}
    for name in ("RemoveLongTimeOut", "RemoveLongExpried"):
        m = re.search(r"^func \(self \*LockDB\) %s\(.*?^}\n" % name, db, flags=re.S | re.M)
        if not m:
            return False, "db.go: %s not found" % name
        b = m.group(0)
        b = re.sub(r"\(lock \*Lock(, expriedTime int64)?\)", "(lock *Lock)", b)
        for a, r in ((name, "F"), ("longTimeoutLocks", "LONG"), ("longExpriedLocks", "LONG"), ("lock.timeoutTime", "TIME"),
                     ("expriedTime", "TIME"), ("restructuringLongTimeOutQueue", "R"), ("restructuringLongExpriedQueue", "R"),
                     ("long timeout", "long x"), ("long expried", "long x")):
            b = b.replace(a, r)
        rs[name] = "\n".join(l.rstrip() for l in b.splitlines() if l.strip())
    if rs["RemoveLongTimeOut"] != rs["RemoveLongExpried"]:
        d = list(difflib.unified_diff(rs["RemoveLongTimeOut"].splitlines(), rs["RemoveLongExpried"].splitlines(), lineterm="", n=0))
        return False, "db.go: RemoveLongTimeOut and RemoveLongExpried differ after normalisation: " + " | ".join(d[:8])
    return True, ""


def dead_code_shrink(repo):
    """Shrink has no caller outside queue.go / tests (recorded in evidence)."""
    hits = []
    for root, _, files in os.walk(repo):
        if "/.git" in root:
            continue
        for f in files:
            if f.endswith(".go") and not f.endswith("_test.go"):
                p = os.path.join(root, f)
                for i, l in enumerate(open(p, errors="replace")):
                    if re.search(r"\.Shrink\(", l):
                        hits.append("%s:%d" % (os.path.relpath(p, repo), i + 1))
    return hits


# ------------------------------------------------------------------ generators (segmented queue)
PROFILES = ["fifo", "deque", "maint", "holes", "drained", "guarded", "shrink", "chaos"]


def gen_params(rng):
    r = rng.random()
    if r < 0.6:
        base = rng.randint(1, 3)
        nodes = base + rng.randint(0, 3)
    elif r < 0.9:
        base = rng.randint(1, 5)
        nodes = rng.randint(1, 6)          # also nodes < base
    else:
        base = rng.randint(1, 8)
        nodes = rng.randint(base, 16)
    size = rng.choice([1, 1, 1, 2, 2, 2, 3, 3, 4, 5, 7, 8, 16])
    return base, nodes, size


class SpecDeque:
    """plain deque over optional ints; `room_lb` = guaranteed left room (lower bound)"""

    def __init__(self):
        self.l = []
        self.room_lb = 0


def gen_ops(rng, profile, n, qtype):
    """mostly-valid op sequence; the generator keeps a plain deque to aim holes / drains sensibly"""
    ops = []
    ln = 0          # spec length (exact unless shrink broke the implementation; only used for aiming)
    nxt = [1]

    def val():
        v = nxt[0]
        nxt[0] += 1
        return v

    W = {
        "fifo": dict(P=50, p=40, h=2, t=2, n=3, i=2, d=1),
        "deque": dict(P=30, L=15, p=25, r=20, h=2, t=2, n=3, i=2, d=1),
        "maint": dict(P=40, L=5, p=25, r=8, h=1, t=1, n=3, i=3, d=2, z=4, c=2, s=2, e=2, f=3),
        "holes": dict(P=45, p=15, x=25, s=4, S=3, n=3, i=3, d=2),
        "drained": dict(P=50, p=30, r=5, n=3, i=2, d=1, DRAIN=4),
        "guarded": dict(P=40, L=5, p=30, x=6, h=1, t=1, n=3, i=3, d=2, z=4, c=1, s=2, S=1, e=1, f=2, DRAIN=2),
        "shrink": dict(P=45, p=25, r=5, n=5, i=5, d=3, k=5, z=2),
        "chaos": dict(P=30, L=8, p=18, r=10, h=2, t=2, n=4, i=4, d=3, z=3, c=3, s=3, S=2, e=2, f=3, x=8, k=1),
    }[profile]
    if qtype != "L":
        W = {k: v for k, v in W.items() if k != "S"}
    if profile == "guarded":
        W = {k: v for k, v in W.items() if k != "r"}
    keys = list(W)
    weights = [W[k] for k in keys]
    phase_push = True
    phase_left = rng.randint(1, 40)
    while len(ops) < n:
        # alternate growth / shrink phases so that node boundaries are crossed in both directions
        phase_left -= 1
        if phase_left <= 0:
            phase_push = not phase_push
            phase_left = rng.randint(1, 60)
        k = rng.choices(keys, weights)[0]
        if k in ("P", "L") and not phase_push and rng.random() < 0.6:
            k = "p" if ("r" not in W or rng.random() < 0.7) else "r"
        elif k in ("p", "r") and phase_push and rng.random() < 0.6:
            k = "P"
        if k == "P":
            if rng.random() < 0.01:
                ops.append("P-")
            else:
                ops.append("P%d" % val())
            ln += 1
        elif k == "L":
            ops.append("L%d" % val())
            ln += 1      # may be 'full'; aiming only
        elif k in ("p", "r"):
            ops.append(k)
            ln = max(0, ln - 1)
        elif k == "x":
            if ln > 0 and rng.random() < 0.95:
                ops.append("x%d" % rng.randrange(ln))
            else:
                ops.append("x%d" % (ln + rng.randint(0, 2)))
        elif k == "k":
            ops.append("k%d" % rng.choice([0, 0, 1, 2, 3, 5, 8, 100]))
        elif k == "DRAIN":
            cnt = ln + rng.randint(0, 2)
            ops.extend(["p"] * cnt)
            ln = 0
            ops.append(rng.choice(["e", "c", "c", "e", "z", "f"]))
            ops.append("n")
        else:
            ops.append(k)
            if k in ("e", "c"):
                ln = 0
    ops.extend(["n", "i", "d"])
    return ops


def gen_case(rng, cid, tier_len):
    qtype = rng.choice(["L", "L", "C", "M"])
    profile = rng.choice(PROFILES)
    base, nodes, size = gen_params(rng)
    r = rng.random()
    if r < 0.5:
        n = rng.randint(5, 120)
    elif r < 0.9:
        n = rng.randint(120, 600)
    else:
        n = rng.randint(600, tier_len)
    ops = gen_ops(rng, profile, n, qtype)
    return dict(id=cid, T=qtype, base=base, nodes=nodes, size=size, ops=ops, profile=profile)


def case_line(c):
    return "%s %s %d %d %d %s" % (c["id"], c["T"], c["base"], c["nodes"], c["size"], " ".join(c["ops"]))


# ------------------------------------------------------------------ the property as a monitor (plain deque)
def parse_iter(tok):
    m = re.fullmatch(r"i(\d+)\[(.*)\]", tok)
    if not m:
        return None
    n = int(m.group(1))
    if n == 0:
        return []
    nodes = m.group(2).split(";")
    out = []
    for nd in nodes:
        if nd == "":
            continue
        for e in nd.split(","):
            out.append(None if e == "-" else int(e))
    return out


def monitor(c, obs):
    """Evaluate the plain-deque property on an observation list.  Returns None or (index, opkind, what)."""
    l = []
    room_lb = 0
    ops = c["ops"]
    for i, op in enumerate(ops):
        if i >= len(obs):
            return (i, op[0], "missing observation")
        o = obs[i]
        if o == "PANIC":
            return (i, op[0], "panic")
        if o == "FUEL":
            return (i, op[0], "fuel")
        k = op[0]
        if k == "P":
            l.append(None if op[1:] == "-" else int(op[1:]))
            exp = "ok"
        elif k == "L":
            if o == "full":
                if room_lb > 0:
                    return (i, k, "PushLeft reports full although %d slots were freed by Pop" % room_lb)
                exp = "full"
            else:
                l.insert(0, None if op[1:] == "-" else int(op[1:]))
                room_lb = max(0, room_lb - 1)
                exp = "ok"
        elif k == "p":
            if l:
                v = l.pop(0)
                room_lb += 1
            else:
                v = None
            exp = "nil" if v is None else "v%d" % v
        elif k == "r":
            v = l.pop() if l else None
            exp = "nil" if v is None else "v%d" % v
        elif k == "h":
            v = l[0] if l else None
            exp = "nil" if v is None else "v%d" % v
        elif k == "t":
            v = l[-1] if l else None
            exp = "nil" if v is None else "v%d" % v
        elif k == "n":
            exp = "n%d" % len(l)
        elif k == "i":
            got = parse_iter(o)
            if got != l:
                return (i, k, "iteration yields %s, deque holds %s" % (o, l if len(l) < 20 else "%d elements" % len(l)))
            continue
        elif k == "x":
            kk = int(op[1:])
            if kk < len(l):
                l[kk] = None
                exp = "ok"
            else:
                exp = "skip"
        elif k in ("z", "f"):
            if k == "z":
                room_lb = 0
            exp = "ok"
        elif k in ("s", "S"):
            l = [v for v in l if v is not None]
            room_lb = 0
            exp = "ok"
        elif k in ("e", "c"):
            # Reset / Rellac: "clear" (their production use is on drained queues)
            l = []
            room_lb = 0
            exp = "ok"
        elif k == "k":
            room_lb = 0
            continue       # return value of Shrink is implementation defined; contents must be preserved
        elif k == "d":
            continue
        else:
            raise RuntimeError("monitor: unknown op " + op)
        if o != exp:
            return (i, k, "returned %s, a plain deque returns %s" % (o, exp))
    return None


# ------------------------------------------------------------------ running both sides
def run_lines(exe, lines, timeout=600):
    p = subprocess.run([exe], input=("\n".join(lines) + "\n").encode(), stdout=subprocess.PIPE, stderr=subprocess.PIPE,
                       timeout=timeout)
    out = {}
    for ln in p.stdout.decode().splitlines():
        f = ln.split()
        if f:
            out[f[0]] = f[1:]
    return out, p.returncode, p.stderr.decode(errors="replace")[-2000:]


def run_lines_par(exe, lines, nproc=6, timeout=3000):
    """run_lines over `nproc` concurrent processes (cases are independent; chunks balanced by line length)"""
    if len(lines) < 2 * nproc:
        return run_lines(exe, lines, timeout)
    order = sorted(range(len(lines)), key=lambda i: -len(lines[i]))
    chunks = [[] for _ in range(nproc)]
    load = [0] * nproc
    for i in order:
        k = load.index(min(load))
        chunks[k].append(lines[i])
        load[k] += len(lines[i])
    out, rc, err = {}, 0, ""
    with ThreadPoolExecutor(max_workers=nproc) as ex:
        for o, r, e in ex.map(lambda ch: run_lines(exe, ch, timeout), chunks):
            out.update(o)
            rc = rc or r
            err = err or e
    return out, rc, err


def minimise_key(c, keygen, goexe, budget=250):
    """delta debugging of a key-queue case on the Go harness; keeps the violation kind (op kind or panic)"""
    def kind_of(v):
        return None if v is None else ("panic" if v[2] == "panic" else v[1])
    v0 = keygen.monitor(c, c["_goobs"])
    want = kind_of(v0)
    ops = list(c["ops"][:v0[0] + 1])
    hdr = "m %s %d " % (c["T"], c["param"])

    def fails(cand):
        out, _, _ = run_lines(goexe, [hdr + " ".join(cand)], timeout=60)
        return kind_of(keygen.monitor(dict(c, ops=cand), out.get("m", []))) == want
    calls, n = 0, 2
    # pre-pass: drop a whole op kind at once (marks, observers): gives the same kind set for the same defect
    for kd in "TAUgxzmhinder":
        cand = [o for o in ops[:-1] if o[0] != kd] + ops[-1:]
        if len(cand) < len(ops):
            calls += 1
            if fails(cand):
                ops = cand
    while len(ops) >= 2 and calls < budget:
        chunk = max(1, len(ops) // n)
        reduced = False
        for s0 in range(0, len(ops), chunk):
            cand = ops[:s0] + ops[s0 + chunk:]
            calls += 1
            if cand and fails(cand):
                ops, n, reduced = cand, max(n - 1, 2), True
                break
            if calls >= budget:
                break
        if not reduced:
            if chunk == 1:
                break
            n = min(n * 2, len(ops))
    res = dict(c, ops=ops, nops=len(ops), line="replay %s %d %s" % (c["T"], c["param"], " ".join(ops)))
    res.pop("_goobs", None)
    return res


def classify(c, viol):
    """stable signature of a (minimised) failing case: root cause (the maintenance method that is needed to make the
    minimised sequence fail) + failure kind.  Anything not involving Shrink / Restructuring / restructuringLong*Queue
    is reported with its full op-kind set."""
    i, k, what = viol
    kind = "panic" if what == "panic" else ("len" if k == "n" else ("iter" if k == "i" else "value"))
    kinds = set(o[0] for o in c["ops"][:i + 1])
    if "k" in kinds:
        cause = "Shrink"
    elif "S" in kinds:
        cause = "restructuringLong"
    elif "s" in kinds:
        cause = "Restructuring"
    else:
        cause = "other-" + "".join(sorted(x for x in kinds if x in "zcefxLr"))
    return "seg:%s:%s" % (cause, kind)


def minimise(c, goexe, pred, budget=400):
    """delta debugging on the op list (and then on parameters); pred(case, obs) -> bool (still failing the same way)"""
    def fails(ops, base=None, nodes=None, size=None):
        cc = dict(c, ops=ops, id="m")
        if base is not None:
            cc.update(base=base, nodes=nodes, size=size)
        out, _, _ = run_lines(goexe, [case_line(cc)], timeout=60)
        return pred(cc, out.get("m", []))
    ops = list(c["ops"])
    viol = monitor(c, c["_goobs"])
    if viol:
        ops = ops[:viol[0] + 1]
    calls = 0
    n = 2
    while len(ops) >= 2 and calls < budget:
        chunk = max(1, len(ops) // n)
        reduced = False
        for s in range(0, len(ops), chunk):
            cand = ops[:s] + ops[s + chunk:]
            calls += 1
            if cand and fails(cand):
                ops = cand
                n = max(n - 1, 2)
                reduced = True
                break
        if not reduced:
            if chunk == 1:
                break
            n = min(n * 2, len(ops))
    res = dict(c, ops=ops)
    res.pop("_goobs", None)
    # renumber pushed values 1..k for readability
    return res


# ------------------------------------------------------------------ main
def run(ctx):
    repo = vlib.REPO
    t0 = time.time()
    ok, log = ctx.coq(["Properties/C20.vo"])
    thms = re.findall(r"^Theorem (C20_\w+)", open(os.path.join(VERIF, "coq/Properties/C20.v")).read(), flags=re.M)
    for t in thms:
        ctx.obligation(t, ok)
    if not ok:
        ctx.violation("proof:C20", "Coq theorems of C20 no longer check", {"log": getattr(ctx, "coq_failure", log[-1500:])},
                      found_input=False)
    ctx.trusted.append("model coq/Queue/SegQueue.v is hand-written; tied to server/queue.go by the correspondence run below "
                       "(all return values + full field dumps) and to all three types by the normalising diff")
    ctx.trusted.append("extraction: ExtrOcamlBasic only; ocaml/queue/driver.ml (parsing/printing) trusted for the correspondence only")
    ctx.trusted.append("key queues: Go append growth of []*Lock is modelled by go_next_cap (go1.23 nextslicecap+roundupsize); "
                       "validated on every run (cap() printed after every push); theorems do not depend on it")
    ctx.trusted.append("int32: only the two multiplications of the code are wrapped in the model; increments assumed < 2^31")

    ident_ok, ident_detail = check_identity(ctx, repo)
    ctx.obligation("queue.go: LockQueue / LockCommandQueue / LockManagerQueue textually identical modulo names", ident_ok, ident_detail)
    if not ident_ok:
        ctx.violation("identity:queue.go", ident_detail, {"broken": "normalising diff of server/queue.go", "detail": ident_detail},
                      found_input=False)
    shrink_callers = dead_code_shrink(repo)

    overlay = {"server/" + f: INJ + "/" + f for f in INJ_FILES}
    goexe = ctx.go_build("queueharness", os.path.join(VERIF, "harness/queue"), overlay=overlay)
    mlexe = ctx.ocaml_model("queue")

    def load(name):
        spec = importlib.util.spec_from_file_location("c20_" + name, os.path.join(VERIF, "harness/queue/%s.py" % name))
        mod = importlib.util.module_from_spec(spec)
        spec.loader.exec_module(mod)
        return mod
    keygen, longgen = load("keygen"), load("longgen")

    thorough = ctx.tier == "thorough"
    ncases = 60000 if thorough else 3000
    maxlen = 4000 if thorough else 2500
    # ---------------- generate the three families (one rng stream, fixed order)
    cases = []
    cdir = os.path.join(VERIF, "corpus", "C20")
    ncorpus = 0
    for f in sorted(os.listdir(cdir)) if os.path.isdir(cdir) else []:
        if f.endswith(".json"):
            c = json.load(open(os.path.join(cdir, f)))
            c["id"] = "corpus-" + f[:-5]
            c.setdefault("profile", "corpus")
            cases.append(c)
            ncorpus += 1
    for i in range(ncases):
        cases.append(gen_case(ctx.rng, "c%d" % i, maxlen))
    nkey = 30000 if thorough else 1500
    kcases = [keygen.gen_case(ctx.rng, "k%d" % i, 4000 if thorough else 1500) for i in range(nkey)]
    for f in sorted(os.listdir(cdir)) if os.path.isdir(cdir) else []:
        if f.endswith(".keyline"):
            ln = open(os.path.join(cdir, f)).read().split()
            kcases.insert(0, dict(id="corpus-" + f, T=ln[1], param=int(ln[2]), ops=ln[3:], profile="corpus", nops=len(ln) - 3,
                                  line="corpus-%s %s" % (f, " ".join(ln[1:]))))
    # directed: every maintenance operation of LockManagerWaitQueue from every representation state
    nwait = 6000 if thorough else 300
    kcases += [keygen.gen_wait_state_case(ctx.rng, "w%d" % i) for i in range(nwait)]
    # long-wait tables
    nlong = 4000 if thorough else 200
    gcases = [longgen.f4_case("f4-drift", 1)]
    gcases += [longgen.gen_case(ctx.rng, "g%d" % i, 3000 if thorough else 1500) for i in range(nlong)]
    for f in sorted(os.listdir(cdir)) if os.path.isdir(cdir) else []:
        if f.endswith(".longline"):
            ln = open(os.path.join(cdir, f)).read().split()
            gcases.insert(0, dict(id="corpus-" + f, T="G", kind=ln[2], base=int(ln[3]), nodes=int(ln[4]), size=int(ln[5]),
                                  maxfree=int(ln[6]), ops=ln[7:], profile="corpus", nops=len(ln) - 7,
                                  line="corpus-%s %s" % (f, " ".join(ln[1:]))))
    # 230k ops: Go only (the extracted interpreter is not tail recursive and the list-based heap is slow at this length)
    gonly = [dict(longgen.f4_case("f4-panic", 70), _goonly=True)]
    if thorough:
        gcases.append(longgen.f4_case("f4-drift3", 3))

    # ---------------- run both sides, all families concurrently
    lines = [case_line(c) for c in cases]
    klines = [c["line"] for c in kcases]
    glines = [c["line"] for c in gcases]
    t1 = time.time()
    with ThreadPoolExecutor(max_workers=7) as ex:
        futs = {
            "go": ex.submit(run_lines_par, goexe, lines, 3),
            "ml": ex.submit(run_lines_par, mlexe, lines, 4),
            "kgo": ex.submit(run_lines_par, goexe, klines, 2),
            "kml": ex.submit(run_lines_par, mlexe, klines, 3),
            "ggo": ex.submit(run_lines_par, goexe, glines + [c["line"] for c in gonly], 2),
            "gml": ex.submit(run_lines_par, mlexe, glines, 6),
        }
        res = {k: f.result() for k, f in futs.items()}
    wall_runs = round(time.time() - t1, 1)
    for k, (_, rc, err) in res.items():
        if rc != 0:
            raise vlib.BuildError("harness/model run %s failed: rc=%s %s" % (k, rc, err[-500:]))
    goout, mlout, kgo, kml, ggo, gml = (res[k][0] for k in ("go", "ml", "kgo", "kml", "ggo", "gml"))

    # ================= segmented queues
    stats = dict(cases=len(cases), corpus=ncorpus, ops=0, by_profile={}, by_type={}, opkinds={}, panics=0,
                 mismatches=0, monitor_violations=0, lens=[], maxlive=0)
    mism = []
    viols = []
    for c in cases:
        g = goout.get(c["id"])
        m = mlout.get(c["id"])
        stats["ops"] += len(c["ops"])
        stats["by_profile"][c["profile"]] = stats["by_profile"].get(c["profile"], 0) + 1
        stats["by_type"][c["T"]] = stats["by_type"].get(c["T"], 0) + 1
        for o in c["ops"]:
            stats["opkinds"][o[0]] = stats["opkinds"].get(o[0], 0) + 1
        if g is None or m is None or g != m:
            mism.append(c)
            continue
        if g and g[-1] == "PANIC":
            stats["panics"] += 1
        v = monitor(c, g)
        if v:
            c["_goobs"] = g
            viols.append((c, v))
    stats["mismatches"] = len(mism)
    stats["monitor_violations"] = len(viols)

    # model / implementation disagreement: the tie is broken; look for a property violation among them, else report
    for c in mism[:5]:
        g = goout.get(c["id"]) or []
        m = mlout.get(c["id"]) or []
        k = 0
        while k < min(len(g), len(m)) and g[k] == m[k]:
            k += 1
        v = monitor(c, g)
        sig = "corr:seg:op=%s" % (c["ops"][k][0] if k < len(c["ops"]) else "?")
        ctx.violation(sig, "model and Go disagree at op #%d (%s): go=%s model=%s" % (
            k, c["ops"][k] if k < len(c["ops"]) else "?", g[k:k + 1], m[k:k + 1]),
            {"case": case_line(dict(c, ops=c["ops"][:k + 1])), "go": g[max(0, k - 3):k + 1], "model": m[max(0, k - 3):k + 1],
             "monitor": v, "run": "echo '<case>' | build/queueharness ; ocaml/queue/modelrun"},
            found_input=v is not None)

    # property violations seen on the Go code: minimise one representative per signature
    seen = {}
    for c, v in viols:
        sig0 = classify(c, v)
        seen.setdefault(sig0, []).append((c, v))
    sigs = {}
    for sig0, lst in sorted(seen.items()):
        c, v = min(lst, key=lambda cv: cv[1][0])
        kindof = lambda vv: None if vv is None else ("panic" if vv[2] == "panic" else vv[1])
        want = kindof(v)
        small = minimise(c, goexe, lambda cc, obs: kindof(monitor(cc, obs)) == want)
        out, _, _ = run_lines(goexe, [case_line(dict(small, id="m"))], timeout=60)
        v2 = monitor(small, out.get("m", []))
        sig = classify(small, v2) if v2 else sig0
        sigs.setdefault(sig, dict(count=0, example=None))
        sigs[sig]["count"] += len(lst)
        if sigs[sig]["example"] is None or len(small["ops"]) < len(sigs[sig]["example"]["ops"]):
            sigs[sig]["example"] = small
            sigs[sig]["what"] = v2[2] if v2 else v[2]
    for sig, info in sorted(sigs.items()):
        ex = info["example"]
        ctx.violation(sig, "queue deviates from a plain deque: %s" % info["what"],
                      {"case": case_line(dict(ex, id="replay")), "count_in_run": info["count"],
                       "run": "echo '<case>' | build/queueharness"}, found_input=True)
    stats["violation_signatures"] = {s: i["count"] for s, i in sigs.items()}

    # ================= per-key queues of lock.go (model coq/Queue/KeyQueues.v, generator/monitor harness/queue/keygen.py)
    kstats = dict(cases=len(kcases), ops=sum(c["nops"] for c in kcases), by_type={}, by_profile={}, mismatches=0,
                  monitor_violations=0, panics=0, wait_state_before={})
    kviol = {}
    ncorr = 0
    for c in kcases:
        kstats["by_type"][c["T"]] = kstats["by_type"].get(c["T"], 0) + 1
        kstats["by_profile"][c["profile"]] = kstats["by_profile"].get(c["profile"], 0) + 1
        g, m = kgo.get(c["id"]) or [], kml.get(c["id"]) or []
        v = keygen.monitor(c, g)
        if c["T"] == "W":
            # which branch of Push ran (growth of the inline array, switch to the ring, compaction of tombstones):
            # from the capacities printed by every push and the Len() observations around it
            prevcaps, lastn, delta = None, None, 0
            wb = kstats.setdefault("wait_push_branches", {"growth": 0, "switch_to_ring": 0, "compaction": 0})
            for op, o in zip(c["ops"], g):
                if op[0] == "P" and o.startswith("ok/"):
                    caps = o[3:].split(",")
                    if prevcaps is not None and len(caps) == 1 and len(prevcaps) == 1 and caps[0] != prevcaps[0] and prevcaps[0] != "-1":
                        wb["growth"] += 1
                    if prevcaps is not None and len(prevcaps) == 1 and len(caps) == 2 and op != "P-":
                        wb["switch_to_ring"] += 1
                    prevcaps = caps
                    delta += 1
                elif op == "p":
                    delta -= 1 if o != "nil" else 0
                elif op in ("e", "y"):
                    prevcaps, lastn, delta = None, None, 0
                elif op == "n" and o[1:].isdigit():
                    if lastn is not None and int(o[1:]) < lastn + delta:
                        wb["compaction"] += 1
                    lastn, delta = int(o[1:]), 0
            # representation state (from the Go dump) in which each maintenance operation was executed
            last = None
            for op, o in zip(c["ops"], g):
                if op == "d":
                    last = keygen.wait_state_of_dump(o)
                elif op in ("y", "e") and last is not None:
                    key = "%s:%s" % ({"y": "RePush", "e": "Reset"}[op], last)
                    kstats["wait_state_before"][key] = kstats["wait_state_before"].get(key, 0) + 1
                    last = None
                elif op[0] != "n":
                    last = None
        if g != m:
            kstats["mismatches"] += 1
            if v is None:
                k = 0
                while k < min(len(g), len(m)) and g[k] == m[k]:
                    k += 1
                ncorr += 1
                if ncorr <= 5:
                    ctx.violation("corr:key:%s:op=%s" % (c["T"], c["ops"][k][0] if k < len(c["ops"]) else "?"),
                                  "key-queue model and Go disagree at op #%d: go=%s model=%s" % (k, g[k:k + 1], m[k:k + 1]),
                                  {"case": " ".join(c["line"].split()[:4 + k]), "go": g[max(0, k - 3):k + 1],
                                   "model": m[max(0, k - 3):k + 1], "monitor": None}, found_input=False)
                continue
        if g and g[-1] == "PANIC":
            kstats["panics"] += 1
        if v:
            kstats["monitor_violations"] += 1
            c["_goobs"] = g
            sig0 = keygen.classify(c, v)
            if sig0 not in kviol or v[0] < kviol[sig0][1][0]:
                kviol[sig0] = (c, v)
    ksigs = {}
    for sig0, (c, v) in sorted(kviol.items())[:12]:
        small = minimise_key(c, keygen, goexe)
        out, _, _ = run_lines(goexe, ["m " + " ".join(small["line"].split()[1:])], timeout=60)
        v2 = keygen.monitor(small, out.get("m", []))
        sig = keygen.classify(small, v2) if v2 else sig0
        if sig not in ksigs or small["nops"] < ksigs[sig][0]["nops"]:
            ksigs[sig] = (small, v2 or v)
    for sig, (c, v) in sorted(ksigs.items()):
        ctx.violation(sig, "key queue deviates from a FIFO / stable priority queue: %s" % (v[2],),
                      {"case": c["line"], "run": "echo '<case>' | build/queueharness"}, found_input=True)
    # the directed generator must have driven RePushPriorityRingQueue / Reset from every representation state
    need = ["RePush:" + s0 for s0 in ("empty", "fast", "fast-popped", "mixed", "mixed-popped", "ring", "prio")] + \
           ["Reset:" + s0 for s0 in ("fast", "mixed", "ring", "prio")]
    missing = [k for k in need if kstats["wait_state_before"].get(k, 0) == 0]
    ctx.obligation("wait queue: RePushPriorityRingQueue / Reset executed from every representation state "
                   "(inline only, inline+ring, ring only, priority ring)", not missing, "not reached: %s" % missing if missing else "")

    # ================= long-wait tables of db.go (model coq/Queue/LongWait.v, generator/monitor harness/queue/longgen.py)
    gstats = dict(cases=len(gcases) + len(gonly), ops=sum(c["nops"] for c in gcases + gonly), by_profile={}, opkinds={},
                  mismatches=0, monitor_violations=0, panics=0, restructures_by_policy=0, go_only_cases=[c["id"] for c in gonly])
    gviol = {}
    ncorr = 0

    def run_go_line(line):
        out, _, _ = run_lines(goexe, [line], timeout=120)
        return out.get(line.split()[0], [])
    for c in gcases + gonly:
        gstats["by_profile"][c["profile"]] = gstats["by_profile"].get(c["profile"], 0) + 1
        for o in c["ops"]:
            gstats["opkinds"][o[0]] = gstats["opkinds"].get(o[0], 0) + 1
        g = ggo.get(c["id"]) or []
        gstats["restructures_by_policy"] += sum(1 for o in g if o == "ok+S")
        v = longgen.monitor(c, g)
        if not c.get("_goonly"):
            m = gml.get(c["id"]) or []
            if g != m:
                gstats["mismatches"] += 1
                if v is None:
                    k = 0
                    while k < min(len(g), len(m)) and g[k] == m[k]:
                        k += 1
                    ncorr += 1
                    if ncorr <= 5:
                        ctx.violation("corr:lw:op=%s" % (c["ops"][k][0] if k < len(c["ops"]) else "?"),
                                      "long-wait model and Go disagree at op #%d (%s): go=%s model=%s" % (
                                          k, c["ops"][k] if k < len(c["ops"]) else "?", g[k:k + 1], m[k:k + 1]),
                                      {"case": " ".join(c["line"].split()[:8 + k]), "go": g[max(0, k - 3):k + 1],
                                       "model": m[max(0, k - 3):k + 1]}, found_input=False)
                    continue
        if g and g[-1] == "PANIC":
            gstats["panics"] += 1
        if v:
            gstats["monitor_violations"] += 1
            c["_goobs"] = g
            sig0 = longgen.classify(c, v)
            if sig0 not in gviol or (not c.get("nominimise") and v[0] < gviol[sig0][1][0]):
                gviol[sig0] = (c, v)
    gsigs = {}
    for sig0, (c, v) in sorted(gviol.items()):
        if c.get("nominimise"):
            small, v2 = c, v
            desc = {"generator": "harness/queue/longgen.py f4_case(%r, %d)" % (c["id"], 70 if c["id"] == "f4-panic" else 1),
                    "ops": c["nops"], "panic_at_op": v[0], "last_ops": c["ops"][max(0, v[0] - 3):v[0] + 1]}
        else:
            small = longgen.minimise(c, run_go_line)
            v2 = longgen.monitor(small, run_go_line("m " + " ".join(small["line"].split()[1:])))
            desc = {"case": small["line"]}
        sig = longgen.classify(small, v2) if v2 else sig0
        if sig not in gsigs or small["nops"] < gsigs[sig][0]["nops"]:
            gsigs[sig] = (small, v2 or v, desc)
    for sig, (c, v, desc) in sorted(gsigs.items()):
        ctx.violation(sig, "long-wait table deviates from a plain sequence with deletions: %s (op #%d %s)" % (v[2], v[0], c["ops"][v[0]]),
                      dict(desc, run="echo '<case>' | build/queueharness"), found_input=True)
    gstats["violation_signatures"] = sorted(gsigs)

    if thorough and ok:
        cok, cout = ctx.coqchk(["Slock.Properties.C20"])
        ctx.obligation("coqchk -o Slock.Properties.C20", cok, "" if cok else cout[-800:])
        ctx.notes.append("coqchk: " + " ".join(cout.split())[-600:])

    ctx.trusted.append("model coq/Queue/LongWait.v is hand-written; tied to db.go by the correspondence run (every return value, Len, "
                       "lockCount, freeCount, longWaitIndex, full field dumps) through the real AddTimeOut/RemoveLongTimeOut/AddExpried/"
                       "RemoveLongExpried/restructuringLong*Queue/FreeLongWaitLockQueue; the consumer idiom (Len() times Pop()) is "
                       "replicated in the harness (zz_verif_longwait.go op C), not called in place")
    ctx.trusted.append("long-wait theorems: one life of a queue (any constructor parameters, any operation mix); LockQueue.Reset inside "
                       "FreeLongWaitLockQueue, recycled lives and the table (map) level are correspondence-only")
    distinct = len(set(tuple(goout.get(c["id"], [])) for c in cases)) + len(set(tuple(ggo.get(c["id"], [])) for c in gcases))
    cov = {
        "evaluations": stats["ops"] + kstats["ops"] + gstats["ops"],
        "distinct_nontrivial": distinct,
        "rule": "distinct observation traces (every op returns a compared observation; final n,i,d dump on every case)",
        "samples": [case_line(c)[:300] for c in cases[ncorpus:ncorpus + 2]] + [gcases[-1]["line"][:300]] + [kcases[-1]["line"][:300]],
        "input_distribution": {k: stats[k] for k in ("cases", "corpus", "ops", "by_profile", "by_type", "opkinds", "panics")},
        "mismatches_model_vs_go": stats["mismatches"],
        "monitor_violations": stats["monitor_violations"],
        "violation_signatures": stats["violation_signatures"],
        "key_queues": kstats,
        "long_wait": gstats,
        "shrink_callers_outside_queue_go": shrink_callers,
        "wall_runs_s": wall_runs,
        "wall_correspondence_s": round(time.time() - t0, 1),
    }
    return ctx.finish(cov, assumptions=[
        "element identity: pointers are compared through an injective tag map kept by the harness",
        "Go append growth of queues/nodeQueueSizes is not observable by the queue's own methods (cap approximated by len)",
        "long-wait: a lock is added to a bucket only while it is not queued and removed only while its longWaitIndex > 0 "
        "(the callers' contract in db.go); int32 counters do not overflow",
    ])
