"""Shared driver for the properties decided on the lock-engine model (C01-C06, C10, C11, C15, C17).

Per run: (1) regenerate source-derived inputs (translator output, data-layer fix flags); (2) build the property's Coq
cone, harvest theorems + Print Assumptions; (3) build implrun (real LockDB, in-package, from /repo's working tree) and
modelrun (extracted model); (4) corpus + seeded histories per profile, run both, diff projected observables
(replies, AOF records, canonical snapshots incl. reference counts); (5) evaluate the property's monitors on the
implementation traces; (6) classify: proof broken / correspondence broken -> failing-input search = monitors over all
generated histories (+ shrink) ; (7) evidence."""
import collections, glob, json, os, re, sys, time
sys.path.insert(0, os.path.join(os.path.dirname(os.path.abspath(__file__)), "..", "tools"))
import vlib
import engine_corr as ec
import engine_monitors as em

ENGINE_TRUSTED = [
    "Coq 8.16.1 kernel (Debian package); vm_compute used inside some proofs (reflection); native_compute not used",
    "hand-written model coq/Engine/{Types,Queues,Timers,Engine,Engine2}.v + coq/Data/Data.v, tied to server/db.go, server/lock.go by the correspondence check of this run (implrun vs modelrun on the same seeded histories)",
    "extraction: Require Import ExtrOcamlBasic only (Extract Inductive for bool, option, unit, list, prod, sumbool, sumor); no Extract Constant; N/Z/positive/string stay Coq datatypes; OCaml 4.13.1 + ocaml/engine/driver.ml trusted for the correspondence only",
    "harness: harness/engine/inj/zz_verif_engine.go injected in package server by go build -overlay -tags verif; hooks verifManualClock/verifPoint (commit c7cc176) assumed behaviour-neutral",
    "modelled-not-verified: single shard (DBConcurrent=1), one database; Go runtime, sync.Mutex/atomics, PriorityMutex lanes; CAS protocol of GetOrNewLockManager/RemoveLockManager (modelled as atomic get-or-create / remove-when-unreferenced); sweeper driver loops checkTimeOut/checkExpried (replayed by the harness) and the millisecond wheels; free-list recycling of Lock objects (modelled as fresh allocation; harness runs with and without recycling); Go slice growth policy (grow_cap, observed via cap()); AofChannel is replaced by an idle channel that the harness drains; excluded by the properties: less-lock-version, unlock-to-wait, tree locks, reverse-key, EXECUTE data, keeplive, subscribe",
    "granularity: each request / sweep / acknowledgement runs to completion (sequential schedules) except in the sched* profiles (step-granular schedules over the verifPoint yield points, model coq/Engine/Sched.v; there a sweep may be a thread too: collection pass, then one doTimeOut / doExpried call per step, yield points 14 / 15; coq/Engine/SchedSweep.v: an un-interleaved sweep thread = the atomic sweep); interleavings inside the wake-up window are exercised by the scheduler variant where a check says so",
]


# signature of a root-cause finding -> short tag appended to the signatures of its downstream symptoms
ROOT_CAUSES = {"ack:reentrant-relock-answered-before-acknowledgement": "reentrant-ack-relock",
               "ack:answered-succed-but-left-ack-pending": "never-persisted-ack-lock",
               "ack:request-id-registered-twice": "duplicate-request-id"}


def theorems_of(pid):
    res = []
    for f in sorted(glob.glob(os.path.join(vlib.COQ, "Properties", pid + "*.v"))):
        txt = open(f).read()
        res += [(os.path.basename(f), m) for m in re.findall(r"^(?:Theorem|Lemma|Corollary)\s+(\w+)", txt, flags=re.M)]
    return res


def file_theorems(relv):
    try:
        txt = open(os.path.join(vlib.COQ, relv)).read()
    except FileNotFoundError:
        return []
    return re.findall(r"^(?:Theorem|Lemma|Corollary)\s+(\w+)", txt, flags=re.M)


def coq_part(ctx, pid, extra_targets=()):
    """build every Properties/<pid>*.v; one obligation per theorem; returns list of broken theorem names"""
    files = sorted(glob.glob(os.path.join(vlib.COQ, "Properties", pid + "*.v")))
    broken = []
    if not files:
        ctx.obligation("Properties/%s.v exists" % pid, False, "no property theorem file yet")
        return ["(no theorem file)"]
    targets = ["Properties/" + os.path.basename(f)[:-2] + ".vo" for f in files] + list(extra_targets)
    for t in targets:       # one make per file so that Print Assumptions output is not interleaved
        ok, log = ctx.coq([t])
        names = [n for f, n in theorems_of(pid) if f[:-2] + ".vo" == os.path.basename(t)]
        if t in extra_targets:
            names = file_theorems(t[:-1])
        for n in names:
            closed = ctx.assumption_report.get(n, "")
            ctx.obligation("theorem %s (%s)" % (n, t), ok, "" if ok else getattr(ctx, "coq_failure", "")[:600])
        if not ok:
            broken += names or [t]
    return broken


def run_engine_check(ctx, pid, profiles, monitors, n_quick, n_thorough, known_ok=(), extra_cases=None, drained=True,
                     with_data=None, case_filter=None, subs=(), extra_targets=(), impl_only=None):
    t0 = time.time()
    n = n_thorough if ctx.tier == "thorough" else n_quick
    for t in ENGINE_TRUSTED:
        ctx.trusted.append(t)
    if os.path.exists(os.path.join(vlib.VERIF, "gen", "go2coq", "main.go")):
        ctx.gen()
    run = ec.Runner(ctx)
    # Runner built Engine/SchedSweep.vo with the model (a failed build is a BuildError = violation)
    ctx.obligation("lemma sweep_thread_alone (Engine/SchedSweep.vo): a sweep thread of Sched.v that is never interleaved computes sweep_timeouts / sweep_expiries of the sequential model", True)
    broken = coq_part(ctx, pid, extra_targets)
    tie = ec.sweeper_tie(vlib.REPO)
    ctx.obligation("source text of the sweeper driver loops (checkTimeOut / checkExpried) is the transcribed one", not tie,
                   "; ".join("%s: %s" % t for t in tie)[:600])
    if tie:
        ctx.violation("tie:sweeper-driver-loop:" + "+".join(t[0] for t in tie),
                      "the per-second driver loop of %s in server/db.go is no longer the loop the harness and the model replay (sweepT/sweepE, ASweepT/ASweepE): timing theorems are no longer tied to the code" % ", ".join(t[0] for t in tie),
                      {"broken": "source-text tie of the sweeper driver loops", "found": tie}, found_input=False)
    # ------------------------------------------------------------------ cases: corpus first
    cases, origin = [], {}
    cid = 0
    for f in sorted(glob.glob(os.path.join(vlib.VERIF, "corpus", pid, "*.case"))) + sorted(glob.glob(os.path.join(vlib.VERIF, "corpus", "engine", "*.case"))):
        lines = [l.rstrip("\n") for l in open(f) if l.strip()]
        lines[0] = "case %d %s" % (cid, " ".join(lines[0].split()[2:]))
        cases.append(lines); origin[str(cid)] = "corpus:" + os.path.basename(f); cid += 1
    stats = collections.Counter()
    per_profile = collections.Counter()
    for prof, weight in profiles:
        g = ec.Gen(ctx.rng, prof, with_data=with_data)
        k = max(1, int(n * weight))
        for _ in range(k):
            c = g.case(cid, drain=drained)
            if case_filter:
                c = case_filter(c)
            cases.append(c); origin[str(cid)] = prof; cid += 1
        stats.update(g.stats)
        per_profile[prof] += k
    if extra_cases:
        for c in extra_cases(ctx.rng, cid):
            cases.append(c); origin[c[0].split()[1]] = "extra"; cid += 1
    ec.CORRUPT.clear()
    bad, pm, pi, errs = run.compare(cases)
    # ------------------------------------------------------------------ monitors on implementation traces
    hits = collections.OrderedDict()
    nontrivial = set()
    samples = []
    for c in cases:
        cid_s = c[0].split()[1]
        if cid_s not in pi:
            continue
        tr = em.Trace(c, pi[cid_s])
        nrep = sum(len(st["replies"]) for st in tr.steps)
        if nrep >= 3:
            nontrivial.add(hash(tuple(c[1:])))
        found = []
        for name in monitors:
            for sig, desc, idx in em.MONITORS[name](tr):
                found.append((sig, desc, idx, name))
        # consequences of a recorded root cause are reported under the root cause's name, so that the same symptom with
        # another cause is still a new violation
        roots = [(idx, sig) for sig, _, idx, _ in found if sig in ROOT_CAUSES]
        for sig, desc, idx, name in found:
            r = [rs for ri, rs in roots if ri <= idx and rs != sig]
            if r and sig not in ROOT_CAUSES:
                sig = sig + "<-" + ROOT_CAUSES[r[0]]
            hits.setdefault(sig, []).append((c, desc, idx, name))
    # ------------------------------------------------------------------ implementation-only scenarios (boundary sizes the model cannot run fast)
    new_inputs = 0
    if impl_only:
        for sig, desc, rep in impl_only(ctx, run):
            if ctx.violation(sig, desc, rep, found_input=True) == "new":
                new_inputs += 1
    # ------------------------------------------------------------------ classification
    for sig, lst in hits.items():
        c, desc, idx, name = min(lst, key=lambda x: len(x[0]))
        short = run.shrink(c, lambda cc: _still(run, cc, name, sig), max_rounds=60) if len(c) > 8 else c
        res = ctx.violation(sig, desc, {"monitor": name, "history": short, "step": idx, "occurrences": len(lst),
                                        "how_to_replay": "python3 tools/check.py %s --replay <this file> (runs the history on implrun and modelrun and re-evaluates the monitors)" % pid},
                            found_input=True)
        if res == "new":
            new_inputs += 1
    if bad:
        c, d = bad[0]
        short = run.shrink(c, lambda cc: bool(run.compare([cc])[0]), max_rounds=80)
        d2 = run.compare([short])[0]
        ctx.obligation("correspondence model == implementation on %d histories" % len(cases), False, "%d histories differ" % len(bad))
        if new_inputs == 0:
            ctx.violation("correspondence:engine:" + d.get("what", "?"),
                          "the engine model and the implementation disagree (%s) and no history violating %s was found by the monitors: the property is no longer shown to hold" % (d.get("what"), pid),
                          {"broken": "correspondence check engine (implrun vs modelrun)", "history": short, "difference": (d2[0][1] if d2 else d), "mismatching_histories": len(bad)},
                          found_input=False)
    else:
        ctx.obligation("correspondence model == implementation on %d histories" % len(cases), True)
    if errs:
        ctx.obligation("both runners terminate normally", False, "; ".join(errs)[:500])
        ctx.violation("correspondence:runner-failed", "implrun/modelrun did not terminate normally", {"errors": errs}, found_input=False)
    if broken and new_inputs == 0:
        ctx.violation("proof:" + ",".join(broken[:4]), "theorem(s) %s no longer check and no history violating %s was found by the monitors" % (broken[:4], pid),
                      {"broken": "Coq theorems " + ", ".join(broken), "detail": getattr(ctx, "coq_failure", "")[:1500]}, found_input=False)
    # ------------------------------------------------------------------ evidence
    for c in cases[:400:97]:
        samples.append({"origin": origin.get(c[0].split()[1]), "history": c[:14] + (["... (%d more lines)" % (len(c) - 14)] if len(c) > 14 else [])})
    cov = {
        "evaluations": len(cases),
        "distinct_nontrivial": len(nontrivial),
        "rule": "seeded histories (VERIF_SEED) per profile %s + corpus; every history ends with a drain phase; non-trivial = distinct action list that drew >= 3 replies from the implementation" % dict(per_profile),
        "samples": samples,
        "traces_validated_against_impl": len(cases) - len(bad),
        "mismatching_histories": len(bad),
        "input_distribution": dict(stats),
        "monitor_hits": {sig: len(l) for sig, l in hits.items()},
        "monitors": list(monitors),
        "corrupt_states_cut": dict(collections.Counter(c for c, _ in ec.CORRUPT)),
        "runtime_s": round(time.time() - t0, 1),
    }
    run.close()
    for subpid, module in subs:
        vlib.run_sub(ctx, subpid, module)
    if subs:
        vlib.merge_sub_evidence(cov, [sp for sp, _ in subs])
    sched = any(pr.startswith("sched") for pr, _ in profiles)
    return ctx.finish(cov, assumptions=[("step-granular schedules (requests, wake-up iterations and sweeps interleaved at the verifPoint yield points) for the sched* profiles, " if sched else "") +
                                        "sequential schedules at request/sweep granularity" + (" for the other profiles" if sched else ""), "single shard, single database"])


def _still(run, case, name, sig):
    pm, pi, errs = run.run_cases([case])
    cid = case[0].split()[1]
    if cid not in pi:
        return False
    tr = em.Trace(case, pi[cid])
    try:
        found = [(s, i) for s, _, i in em.MONITORS[name](tr)]
        base = sig.split("<-")[0]
        if "<-" in sig:
            tag = sig.split("<-")[1]
            roots = [i for mn in em.MONITORS for s, _, i in (em.MONITORS[mn](tr) if mn in ("C11",) else []) if ROOT_CAUSES.get(s) == tag]
            return any(s == base and any(r <= i for r in roots) for s, i in found)
        return any(s == base for s, i in found)
    except Exception:
        return False


def replay(ctx, pid, monitors):
    """re-run a replay file's history on both sides and re-evaluate the monitors"""
    r = json.load(open(ctx.replay))
    hist = r["replay"].get("history")
    if not hist:
        print("replay file has no history:", r.get("what"))
        return 1
    run = ec.Runner(ctx)
    bad, pm, pi, errs = run.compare([hist])
    cid = hist[0].split()[1]
    tr = em.Trace(hist, pi[cid])
    rc = 0
    for name in monitors:
        for sig, desc, idx in em.MONITORS[name](tr):
            print("monitor %s: %s at step %d: %s" % (name, sig, idx, desc)); rc = 1
    if bad:
        print("model and implementation differ:", json.dumps(bad[0][1])[:800]); rc = 1
    print("\n".join(hist))
    run.close()
    return rc
