"""C14 (fixed-layout binary codecs + translator part): wire codecs are lossless.

run(ctx):
  1. ctx.gen()                      translator go2coq re-reads the slock tree -> coq/Gen/*.v (+ gencodec.json)
  2. ctx.coq([Properties/C14.vo])   all codec theorems over the *generated* definitions
  3. build codech (real Go Encode/Decode, BinaryServerProtocol's inlined decoder/encoder via overlay) and
     modelrun (the generated definitions extracted to OCaml)
  4. differential check generated-definition vs Go on boundary + random field values / buffers  (T2 covers T1)
  5. property monitors on the Go code itself: decode(encode m) = m, encode(decode b) = b on the defined bytes,
     inlined server decoder = protocol.LockCommand.Decode, every result code renders in the text protocol
  6. if a theorem or the correspondence broke: the monitors of (5) are the search for a concrete failing input.
"""
import json, os, re, subprocess, time

import vlib

VERIF = vlib.VERIF

THEOREMS = [
    "C14_lock_command_decode_encode", "C14_lock_command_encode_decode", "C14_fixed_codecs",
    "C14_server_inlined_decoder_agrees", "C14_server_inlined_result_encoder_agrees", "C14_readme_offsets",
    "C14_aof_record_roundtrip", "C14_result_text_rendering", "C14_variable_length_codecs", "C14_variable_length_limits",
    "C14_value_frames",
]

THEOREM_FILES = {
    "C14_lock_command_decode_encode": ["Codec/CodecThms1.vo"],
    "C14_lock_command_encode_decode": ["Codec/CodecThms1.vo", "Codec/CodecThms.vo"],
    "C14_fixed_codecs": ["Codec/CodecThms1.vo", "Codec/CodecThms2.vo", "Codec/CodecThms3.vo", "Codec/CodecThms4.vo", "Codec/CodecThms5.vo"],
    "C14_server_inlined_decoder_agrees": ["Codec/CodecServer.vo"],
    "C14_server_inlined_result_encoder_agrees": ["Codec/CodecServer.vo"],
    "C14_readme_offsets": ["Codec/Readme.vo"],
    "C14_aof_record_roundtrip": ["Codec/AofRec.vo"],
    "C14_result_text_rendering": ["Codec/ResultText.vo"],
    "C14_variable_length_codecs": ["Codec/CodecInst.vo"],
    "C14_variable_length_limits": ["Codec/CodecInst.vo"],
    "C14_value_frames": ["Codec/ValueFrame.vo"],
}

# README.md byte tables, second transcription used only by the monitor (offset, width, field); integers little endian
README_REQUEST = [(0, 1, "Magic"), (1, 1, "Version"), (2, 1, "CommandType"), (3, 16, "RequestId"), (19, 1, "Flag"), (20, 1, "DbId"),
                  (21, 16, "LockId"), (37, 16, "LockKey"), (53, 2, "Timeout"), (55, 2, "TimeoutFlag"), (57, 2, "Expried"),
                  (59, 2, "ExpriedFlag"), (61, 2, "Count"), (63, 1, "Rcount")]
README_RESPONSE = [(0, 1, "Magic"), (1, 1, "Version"), (2, 1, "CommandType"), (3, 16, "RequestId"), (19, 1, "Result"), (20, 1, "Flag"),
                   (21, 1, "DbId"), (22, 16, "LockId"), (38, 16, "LockKey"), (54, 2, "Lcount"), (56, 2, "Count"), (58, 1, "Lrcount"),
                   (59, 1, "Rcount")]

MANIFEST = {
    "property": "C14",
    "part": "fixed-layout binary codecs, translator go2coq, AofLock record, result-code text table",
    "theorems": THEOREMS,
    "coq": ["Properties/C14.v", "Codec/*.v", "Base/Bytes.v", "Gen/GenCodecs.v", "Gen/GenConsts.v"],
    "harness": "harness/codec (overlay server/zz_verif_codec.go)",
    "model": "ocaml/codec (Gen/GenCodecRun.v gen_run, Codec/CodecInst.v inst_run)",
}

RECS_WITH_STRINGS = {"CallCommand": ("MethodName", 38), "CallResultCommand": ("ErrType", 37),
                     "LeaderResultCommand": ("Host", 43)}


# ------------------------------------------------------------------------------------------------ values
def hexs(b):
    return bytes(b).hex()


def rand_uint(rng, bits):
    top = (1 << bits) - 1
    r = rng.random()
    if r < 0.35:
        return rng.choice([0, 1, 2, 0x7f, 0x80, 0xff, 0x100, 0x101, 0x7fff, 0x8000, 0xffff, 0x10000, top, top - 1,
                           top >> 1, (top >> 1) + 1, 0x0102030405060708 & top, 0x8040201008040201 & top]) & top
    if r < 0.5:
        return 1 << rng.randrange(bits)
    return rng.getrandbits(bits)


def rand_bytes(rng, n):
    r = rng.random()
    if r < 0.1:
        return bytes(n)
    if r < 0.2:
        return bytes([0xff] * n)
    if r < 0.3:
        b = bytearray(n)
        if n:
            b[rng.randrange(n)] = rng.choice([1, 0x80, 0xff])
        return bytes(b)
    return bytes(rng.getrandbits(8) for _ in range(n))


def rand_string(rng, maxlen):
    r = rng.random()
    if r < 0.08:
        n = maxlen
    elif r < 0.14:
        n = maxlen + rng.choice([1, 2, 10])
    elif r < 0.2:
        n = 0
    else:
        n = rng.randrange(0, maxlen + 1)
    s = bytearray(rng.randrange(1, 256) for _ in range(n))
    r = rng.random()
    if n and r < 0.08:
        s[-1] = 0          # trailing NUL: not representable (Decode trims)
    elif n and r < 0.12:
        s[0] = 0
    elif n > 2 and r < 0.3:
        s[rng.randrange(1, n - 1)] = 0   # inner NUL is fine
    return bytes(s)


def rand_field(rng, f, rec):
    if f["kind"] == "uint":
        return rand_uint(rng, f["size"])
    if f["kind"] == "array":
        return rand_bytes(rng, f["size"])
    if f["kind"] in ("string", "bytes"):
        mx = RECS_WITH_STRINGS.get(rec, (None, 40))[1]
        return rand_string(rng, mx)
    raise ValueError(f)


def enc_arg(v):
    if isinstance(v, (bytes, bytearray)):
        return "x" + bytes(v).hex()
    return str(int(v))


def rand_buf(rng, n=64):
    r = rng.random()
    if r < 0.05:
        return bytes(n)
    if r < 0.1:
        return bytes([0xff] * n)
    if r < 0.2 and n > 0:
        b = bytearray(n)
        for _ in range(rng.randrange(1, 4)):
            b[rng.randrange(n)] = rng.choice([1, 0x80, 0xff, rng.getrandbits(8)])
        return bytes(b)
    return bytes(rng.getrandbits(8) for _ in range(n))


def rand_props(rng):
    """None = nil property list; values: None = nil, b"" = empty"""
    r = rng.random()
    if r < 0.3:
        return None
    n = rng.choice([0, 1, 1, 2, 3, 5])
    ps = []
    for _ in range(n):
        r = rng.random()
        if r < 0.15:
            v = None
        elif r < 0.25:
            v = b""
        elif r < 0.3:
            v = rand_bytes(rng, rng.choice([255, 256, 257, 300]))
        else:
            v = rand_bytes(rng, rng.randrange(1, 20))
        ps.append((rng.choice([0, 1, 1, 2, 255, rng.getrandbits(8)]), v))
    return ps


def value_frame_case(rng):
    stage = rng.choice([0, 1, 2, 3, 3, rng.getrandbits(8)])
    typ = rng.choice([0, 1, 2, 3, 7, 8, 63, 64, rng.getrandbits(8)])
    flag = rng.choice([0, 1, 2, 4, 0x20, 0x10, rng.getrandbits(8)])
    data = rand_bytes(rng, rng.choice([0, 1, 3, 8, 16, rng.randrange(0, 300)]))
    props = rand_props(rng)
    return stage, typ, flag, data, props


def value_frame_line(c):
    stage, typ, flag, data, props = c
    a = [str(stage), str(typ), str(flag), "x" + data.hex(), "nil" if props is None else str(len(props))]
    for code, v in (props or []):
        a += [str(code), "nil" if v is None else "x" + v.hex()]
    return "ValueFrame - %s -" % ",".join(a)


def py_build_frame(c):
    """input generator only (mirrors the layout so that reader cases are mostly well formed)"""
    stage, typ, flag, data, props = c
    body = bytearray([((stage << 6) & 0xff) | (typ & 0x3f), flag | (0x10 if props is not None else 0)])
    if props is not None:
        pb = bytearray()
        for code, v in props:
            v = v or b""
            pb += bytes([code, len(v) & 0xff, (len(v) >> 8) & 0xff]) + v
        body += bytes([len(pb) & 0xff, (len(pb) >> 8) & 0xff]) + pb
    body += data
    n = len(body)
    return bytes([n & 0xff, (n >> 8) & 0xff, (n >> 16) & 0xff, (n >> 24) & 0xff]) + bytes(body)


def canon_opt(s):
    if s in ("nil", "x", "-1", "e", ""):
        return ()
    return canon_go_field(s)


# ------------------------------------------------------------------------------------------------ decision functions
def le8(b):
    return int.from_bytes(bytes(b[:8]), "little")


def decision_cases(rng, n):
    """-> list of (go_line, model_line); inputs that the Go function derives itself are computed here the same way"""
    out = []

    def lockid(v=None):
        if v is None:
            v = rand_uint(rng, 64)
        return int(v).to_bytes(8, "little") + rand_bytes(rng, 8)

    def flags16():
        return rng.choice([0, 0x0040, 0x0400, 0x4000, 0x4040, 0x0010, 0x4000 | 0x0010, rng.getrandbits(16)])

    for _ in range(n):
        # doLock
        locked = rng.choice([0, 1, 2, 3, 0xfffe, 0xffff, 0x10000, 0x7ffffffe, 0x7fffffff, 0x80000000, 0xffffffff, rng.randrange(0, 8), rng.getrandbits(32)])
        cur = rng.choice([0, 1, 2, 5, 0xfffe, 0xffff, rng.randrange(0, 8), rng.getrandbits(16)])
        req = rng.choice([0, 1, 2, 5, 0xfffe, 0xffff, rng.randrange(0, 8), rng.getrandbits(16)])
        tf = flags16()
        va, vb = rng.choice([(1, 2), (2, 1), (5, 5), (rand_uint(rng, 64), rand_uint(rng, 64))])
        a, b = lockid(va), lockid(vb)
        cmp_ = 1 if le8(a) > le8(b) else (-1 if le8(a) < le8(b) else 0)
        out.append(("Decide doLock %d,%d,%d,%d,x%s,x%s -" % (locked, cur, req, tf, a.hex(), b.hex()),
                    "Decide doLock %d,%d,%d,%d,%d -" % (locked, cur, req, tf, cmp_)))
        out.append(("Decide compareLockVersion x%s,x%s -" % (a.hex(), b.hex()),) * 2)
        # doCheckLockWaitPriority
        wn, mp, rc = rng.randrange(2), rand_uint(rng, 8), rand_uint(rng, 8)
        l = "Decide doCheckLockWaitPriority %d,%d,%d -" % (wn, mp, rc)
        out.append((l, l))
        # checkLockedCountEqual
        c1 = rand_uint(rng, 16)
        c2 = c1 if rng.random() < 0.6 else rand_uint(rng, 16)
        r1 = rand_uint(rng, 8)
        r2 = r1 if rng.random() < 0.6 else rand_uint(rng, 8)
        l = "Decide checkLockedCountEqual %d,%d,%d,%d,%d,%d -" % (c1, c2, r1, r2, flags16(), flags16())
        out.append((l, l))
        # CheckLockedEqual
        now = rng.choice([0, 1, 1700000000, rng.randrange(0, 1 << 40)])
        exp = rand_uint(rng, 16)
        ef = flags16()
        base = now + exp * (60 if ef & 0x40 else 1) + 1
        held = rng.choice([0, 0x7fffffffffffffff, base, base + 1, base - 1, base + 2, base - 2, base + 60, base - 60, base + 61, base - 61,
                           rng.randrange(0, 1 << 41)])
        l = "Decide CheckLockedEqual %d,%d,%d,%d,%d -" % (ef, exp, held, now, rng.randrange(2))
        out.append((l, l))
        # GetAofLockExpriedTime
        ct = rng.choice([0, 1700000000, rng.randrange(0, 1 << 40)])
        held = rng.choice([0, ct, ct + 1, ct + 59, ct + 60, ct + 61, ct + 120, ct + 65535 * 60, ct + 65536 * 60, ct - 1, ct - 100, ct + rng.randrange(0, 1 << 24)])
        l = "Decide GetAofLockExpriedTime %d,%d,%d,%d -" % (flags16(), rand_uint(rng, 16), max(held, -(1 << 62)), ct)
        out.append((l, l))
        # GetLockCommandExpriedTime
        now = rng.choice([ct, ct + 1, ct + 59, ct + 60, ct + 61, ct + 3600, ct - 1, ct - 500, ct + rng.randrange(0, 1 << 23)])
        l = "Decide GetLockCommandExpriedTime %d,%d,%d,%d,%d -" % (flags16(), rng.choice([0, 1, 2, 60, 61, 0xffff, rand_uint(rng, 16)]), ct, now,
                                                                   rng.choice([0, 0, 1, 5, 60, 65, 0xffff, rand_uint(rng, 16)]))
        out.append((l, l))
        # CompareAofId
        x = rand_bytes(rng, 16)
        y = rng.choice([x, rand_bytes(rng, 16), x[:8] + rand_bytes(rng, 8), rand_bytes(rng, 4) + x[4:], bytes(4) + b"\xff\xff\xff\x7f" + bytes(8),
                        b"\xff" * 16, bytes(16)])
        l = "Decide CompareAofId x%s,x%s -" % (x.hex(), y.hex())
        out.append((l, l))
        # UpdateDBAckCount
        ha, mode, nch = rng.randrange(2), rng.choice([0, 1, 2, 3]), rng.choice([0, 1, 2, 3, 4, 5, 254, 255, 300])
        members = rng.choice([0, 1, 2, 3, 4, 5, 7])
        maj = 0 if members == 0 else members // 2 + 1
        out.append(("Decide UpdateDBAckCount %d,%d,%d,%d,%d -" % (ha, mode, nch, maj, members),
                    "Decide UpdateDBAckCount %d,%d,%d,%d -" % (ha, mode, nch, maj)))
    return out


# ------------------------------------------------------------------------------------------------ running
def run_lines(exe, lines, timeout=600):
    p = subprocess.run([exe], input=("\n".join(lines) + "\n").encode(), stdout=subprocess.PIPE,
                       stderr=subprocess.PIPE, timeout=timeout)
    out = [l for l in p.stdout.decode("utf-8", "replace").splitlines() if l.startswith("R ")]
    return out, p.returncode, p.stderr.decode("utf-8", "replace")[-2000:]


def canon_go_field(s):
    if s.startswith("x"):
        return tuple(bytes.fromhex(s[1:]))
    if s == "nil":
        return ("nil",)
    return (int(s),)


def canon_model_field(s):
    if s == "e":
        return ()
    return tuple(int(x) for x in s.split("."))


def parse_go(line, kind):
    """-> (outcome, payload) ; outcome 0 ok / 1 error / 2 panic / 'skip'"""
    t = line.split(" ")
    if t[1] == "panic":
        return 2, " ".join(t[2:])
    if t[1] == "skip":
        return "skip", " ".join(t[2:])
    oc = int(t[1])
    rest = t[2:] if len(t) > 2 else [""]
    if kind in ("vframe", "vprops"):
        return oc, tuple(canon_opt(x) for x in rest[0].split(","))
    if kind == "encode":
        return oc, (tuple(bytes.fromhex(rest[0])),)
    if kind == "serverdecode":
        fields = tuple(canon_go_field(x) for x in rest[0].split(",")) if rest[0] else ()
        reply = tuple(bytes.fromhex(rest[1])) if len(rest) > 1 else ()
        return oc, (fields, reply)
    fields = tuple(canon_go_field(x) for x in rest[0].split(",")) if rest[0] else ()
    return oc, fields


def parse_model(line):
    t = line.split(" ")
    if t[1] == "skip":
        return "skip", " ".join(t[2:])
    oc = int(t[1])
    payload = t[2] if len(t) > 2 else ""
    return oc, tuple(canon_model_field(x) for x in payload.split(",")) if payload else ()


# ------------------------------------------------------------------------------------------------ check
def harvest(log):
    info = {"defined": {}}
    for m in re.finditer(r"^C14-DEFINED (\S+)\s*\[(.*?)\]", log, flags=re.M | re.S):
        info["defined"][m.group(1)] = [int(x) for x in re.findall(r"(\d+)%nat", m.group(2))]
    for m in re.finditer(r"^C14-(RESULT-TEXT-REFUTED|LEN-ERROR-MSG|RESULT-CODE-COUNT) (\S+)", log, flags=re.M):
        info[m.group(1)] = m.group(2)
    return info


def run(ctx):
    t0 = time.time()
    quick = ctx.tier != "thorough"
    scale = 1 if quick else 40
    rng = ctx.rng

    # 1. translator
    gen_ok = ctx.gen()
    ctx.obligation("translator go2coq runs on the current source (0 unsupported markers expected)", bool(gen_ok),
                   getattr(ctx, "gen_log", "")[-500:])
    markers = [l for l in getattr(ctx, "gen_log", "").splitlines() if l.startswith("UNSUPPORTED")]
    if markers:
        ctx.notes.append("translator markers: " + "; ".join(markers)[:2000])
    meta = json.load(open(os.path.join(vlib.COQ, "Gen", "gencodec.json")))

    # 2. proofs
    ok, log = ctx.coq(["Properties/C14.vo", "Gen/GenCodecRun.vo", "Gen/GenDecision.vo", "Codec/InstRun.vo"])
    proved = set(ctx.assumption_report.keys())
    broken = []
    uptodate = {}

    def built(vo):
        if vo not in uptodate:
            rc, _, _ = vlib.sh(["make", "-q", vo], cwd=vlib.COQ, timeout=120)
            uptodate[vo] = (rc == 0)
        return uptodate[vo]

    for th in THEOREMS:
        if ok:
            good = th in proved and "Closed under the global context" in ctx.assumption_report.get(th, "")
            detail = "" if good else ctx.assumption_report.get(th, "not printed")
        else:
            # Properties/C14.v did not build: attribute the failure to the theorems whose own files failed
            good = all(built(v) for v in THEOREM_FILES.get(th, ["Properties/C14.vo"]))
            detail = "" if good else getattr(ctx, "coq_failure", "")
            if good:
                ctx.notes.append("%s: its proof files compiled, but Properties/C14.vo did not build so Print Assumptions was not harvested" % th)
        ctx.obligation(th, good, detail[:600])
        if not good:
            broken.append(th)
    info = harvest(log if ok else "")
    ctx.trusted += [
        "translator gen/go2coq (Go, go/parser+go/ast): expression table (uintK(e) -> e mod 2^K; <<,+,* on uintK followed by mod 2^K; "
        "|,&,^,>> -> N.lor/land/lxor/shiftr; buf[i] -> nth i buf 0; x[a:b] -> gen_slice; strings.Trim(s,\"\\x00\") -> gen_trim0; "
        "Go int used for lengths = unbounded N), constant-index evaluation, loop unrolling, if/else merge; validated against the real "
        "Go functions by this check's differential run",
        "hand-transcribed README byte tables (coq/Codec/Readme.v) and the hand-named defined/blank byte sets (coq/Codec/CodecThms*.v)",
        "extraction: ExtrOcamlBasic only; ocaml/codec/driver.ml (number/hex parsing) and harness/codec (reflection-based field access, "
        "fake net.Conn, pooled-command seam) are trusted for the correspondence only",
        "not modelled: index panics of Encode/Decode on buffers shorter than 64 bytes for the types without a length guard "
        "(outside C14's quantifier: all 64-byte inputs); cap(buf) is taken to be len(buf) in slice-bounds conditions",
        "pool invariant used by C14_server_inlined_decoder_agrees: pooled LockCommands carry Magic=MAGIC, Version=VERSION "
        "(server/protocol.go GetLockCommandLocked) - read from the source, exercised by the differential run, not proved",
    ]

    # 3. builds
    codech = ctx.go_build("codech", os.path.join(VERIF, "harness", "codec"),
                          overlay={"server/zz_verif_codec.go": "harness/codec/inj/zz_verif_codec.go",
                                   "server/zz_verif_decide.go": "harness/codec/inj/zz_verif_decide.go"})
    modelrun = ctx.ocaml_model("codec")

    recs, defs = meta["records"], meta["defs"]
    cases = []   # (tag, def, fields, args, buf, kind)

    def fields_of(rec):
        return recs[rec]

    def add(tag, d, rec, args, buf, kind):
        names = ",".join(f["name"] for f in fields_of(rec)) if rec else "-"
        a = ",".join(enc_arg(v) for v in args) if args else "-"
        b = hexs(buf) if buf is not None else "-"
        cases.append((tag, d, "%s %s %s %s" % (d, names, a, b), kind, rec, args, buf))

    # corpus first
    cdir = os.path.join(VERIF, "corpus", "C14")
    corpus_lines = []
    if os.path.isdir(cdir):
        for fn in sorted(os.listdir(cdir)):
            if fn.endswith(".cases"):
                for l in open(os.path.join(cdir, fn)):
                    l = l.strip()
                    if l and not l.startswith("#"):
                        corpus_lines.append(l)
    for l in corpus_lines:
        d = l.split(" ")[0]
        if d in defs:
            k = defs[d]["kind"]
            if d.startswith("Server_Decode"):
                k = "serverdecode"
            cases.append(("corpus", d, l, k, None, None, None))
        elif d == "ValueFrame":
            cases.append(("corpus", d, l, "vframe", None, None, None))
        elif d == "ValueProps":
            cases.append(("corpus", d, l, "vprops", None, None, None))

    per_def = 220 * scale
    for d, dd in sorted(defs.items()):
        if d.startswith("Server_"):
            continue
        rec = dd["args"][0]["rec"]
        n = per_def * (3 if rec in ("LockCommand", "LockResultCommand", "AofLock", "StateResultCommand") else 1)
        for _ in range(n):
            args = [rand_field(rng, f, rec) for f in fields_of(rec)]
            r = rng.random()
            if r < 0.9:
                buf = rand_buf(rng, 64)
            elif r < 0.95:
                buf = rand_buf(rng, 64 + rng.randrange(1, 17))
            else:
                buf = rand_buf(rng, rng.randrange(0, 64))   # short: only error-returning paths are compared
            add("short" if len(buf) < 64 else "gen", d, rec, args, buf, dd["kind"])
    # inlined server decoder: frames that take the UNKNOWN_DB path
    for _ in range(per_def * 6):
        unlock = rng.random() < 0.5
        b = bytearray(rand_buf(rng, 64))
        b[0], b[1], b[2] = 0x56, 0x01, (2 if unlock else 1)
        if not unlock:
            b[20] = 0xff
        d = "Server_Decode_Unlock" if unlock else "Server_Decode_Lock"
        pooled = [rand_field(rng, f, "LockCommand") for f in fields_of("LockCommand")]
        if rng.random() < 0.8:
            pooled[0], pooled[1] = 0x56, 1
        add("gen", d, "LockCommand", pooled, bytes(b), "serverdecode")
    for _ in range(per_def * 6):
        cmd = [rand_field(rng, f, "LockCommand") for f in fields_of("LockCommand")]
        extra = [rand_uint(rng, 8), rand_uint(rng, 16), rand_uint(rng, 8), rng.randrange(2)]
        names = ",".join(f["name"] for f in fields_of("LockCommand"))
        a = ",".join(enc_arg(v) for v in cmd + extra)
        cases.append(("gen", "Server_ResultEncode", "Server_ResultEncode %s %s -" % (names, a), "encode", "LockCommand", cmd + extra, None))

    # value frames: builder on random inputs; reader on built, mutated and random frames
    for _ in range(per_def * 6):
        vc = value_frame_case(rng)
        cases.append(("gen", "ValueFrame", value_frame_line(vc), "vframe", None, None, None))
        fr = bytearray(py_build_frame(vc))
        r = rng.random()
        if r < 0.15 and len(fr) > 0:
            fr[rng.randrange(len(fr))] = rng.getrandbits(8)       # corrupt one byte
        elif r < 0.25:
            fr = fr[:rng.randrange(0, len(fr) + 1)]                # truncate
        elif r < 0.3:
            fr = bytearray(rand_bytes(rng, rng.randrange(0, 40)))   # arbitrary
        cases.append(("gen", "ValueProps", "ValueProps - - %s" % (hexs(fr) if fr else "-"), "vprops", None, None, None))

    # model first; short-buffer cases only go to Go when the model predicts an error return (guarded types)
    mout, mrc, merr = run_lines(modelrun, [c[2] for c in cases])
    if len(mout) != len(cases):
        raise vlib.BuildError("modelrun produced %d answers for %d cases: %s" % (len(mout), len(cases), merr))
    keep = []
    for c, ml in zip(cases, mout):
        moc, mp = parse_model(ml)
        if c[0] == "short" and moc != 1:
            continue
        keep.append((c, moc, mp, ml))
    gout, grc, gerr = run_lines(codech, [k[0][2] for k in keep])  # noqa
    if len(gout) != len(keep):
        raise vlib.BuildError("codech produced %d answers for %d cases (rc %s): %s" % (len(gout), len(keep), grc, gerr))

    stats = {"compared": 0, "skipped": 0, "by_def": {}, "outcomes": {0: 0, 1: 0, 2: 0}}
    mismatches = []
    go_results = {}
    findings = {}

    def note_finding(sig, what, replay):
        if sig not in findings:
            findings[sig] = (what, replay)

    for i, ((c, moc, mp, ml), gl) in enumerate(zip(keep, gout)):
        tag, d, line, kind = c[0], c[1], c[2], c[3]
        goc, gp = parse_go(gl, kind)
        if goc == "skip" or moc == "skip":
            stats["skipped"] += 1
            continue
        stats["compared"] += 1
        stats["by_def"][d] = stats["by_def"].get(d, 0) + 1
        stats["outcomes"][goc] = stats["outcomes"].get(goc, 0) + 1
        go_results[i] = (goc, gp)
        same = (goc == moc)
        if kind == "vprops" and moc == 2 and goc != 2:
            # the hand model marks every out-of-range index/slice as a panic; a repaired reader may return instead
            stats["reader_more_defined_than_model"] = stats.get("reader_more_defined_than_model", 0) + 1
            same = True
        if same and goc == 0:
            if kind in ("vframe", "vprops"):
                same = (tuple(gp) == tuple(tuple(x) for x in mp))
            elif kind == "serverdecode":
                same = (tuple(gp[0]) == tuple(mp))
            elif kind == "encode":
                same = (tuple(gp[0]) == tuple(mp[0])) if mp else False
            else:
                same = (tuple(gp) == tuple(mp))
        if not same:
            mismatches.append({"case": line, "go": gl, "model": ml,
                               "model_outcome": moc, "go_outcome": goc, "def": d})
        # a panic of a codec on an in-range input is a defect of slock (the model predicted it: outcome 2)
        if goc == 2 and kind == "vprops":
            stats["reader_panics_on_malformed_frames"] = stats.get("reader_panics_on_malformed_frames", 0) + 1
        elif goc == 2:
            note_finding("panic:%s" % d, "%s panics on a 64-byte input (%s)" % (d, gp), {"case": line, "go": gl})

    ctx.obligation("generated definitions agree with the Go functions on %d cases" % stats["compared"], not mismatches,
                   json.dumps(mismatches[:3])[:1500])

    # 4b. decision functions transcribed into Gen/GenDecision.v (translator self-check; consumers: engine/AOF/replication models)
    dcs = decision_cases(rng, 120 * scale)
    dgo, _, derr = run_lines(codech, [d[0] for d in dcs])
    dmo, _, merr2 = run_lines(modelrun, [d[1] for d in dcs])
    dmis = []
    if len(dgo) != len(dcs) or len(dmo) != len(dcs):
        raise vlib.BuildError("decision run: %d go / %d model answers for %d cases: %s %s" % (len(dgo), len(dmo), len(dcs), derr, merr2))
    dby = {}
    for (gl, ml), g, m in zip(dcs, dgo, dmo):
        fn = gl.split(" ")[1]
        dby[fn] = dby.get(fn, 0) + 1
        if g != m:
            dmis.append({"go_case": gl, "model_case": ml, "go": g, "model": m})
    stats["decision_cases"] = dby
    ctx.obligation("generated decision functions (Gen/GenDecision.v) agree with the Go functions on %d cases" % len(dcs), not dmis,
                   json.dumps(dmis[:3])[:1500])
    if dmis:
        ctx.violation("tie:decision:%s" % dmis[0]["go_case"].split(" ")[1], "a generated decision function disagrees with the Go function "
                      "(translator defect or unsupported construct; not a violation of C14 itself)", {"broken": "correspondence", "first": dmis[0],
                                                                                                     "count": len(dmis)}, found_input=False)

    # 5. property monitors on the Go code (these are also the failing-input search)
    mon = monitors(ctx, codech, meta, info, rng, scale, note_finding)
    stats["monitor"] = mon

    # result-code text table
    refuted = info.get("RESULT-TEXT-REFUTED", "?")
    nres = int(info.get("RESULT-CODE-COUNT", "0") or 0)
    tcases = ["TextResult - %d -" % k for k in range(nres)]
    tout, _, _ = run_lines(codech, tcases)
    panics = [k for k, l in enumerate(tout) if l.split(" ")[1] == "panic"]
    stats["text_result_codes"] = nres
    stats["text_result_panics"] = panics
    if refuted == "true":
        # theorem selected the refutation branch: replay its witness (code = len(ERROR_MSG)) on the Go code
        w = int(info.get("LEN-ERROR-MSG", "0"))
        good = w in panics
        ctx.obligation("refutation witness result code %d panics in the Go text result writer" % w, good, str(tout[w:w + 1]))
        for k in panics:
            note_finding("panic:protocol/textcommand.go:WriteTextLockAndUnLockCommandResult:result=%d" % k,
                         "text protocol cannot render result code %d: ERROR_MSG has %s entries" % (k, info.get("LEN-ERROR-MSG")),
                         {"case": tcases[k], "go": tout[k], "theorem": "C14_result_text_rendering (refutation branch)"})
        if not good:
            ctx.violation("tie:result-text", "Coq says a result code has no text but Go renders all", {"coq": info, "go": tout}, found_input=False)
    elif refuted == "false":
        ctx.obligation("every result code < %d renders in the Go text result writer" % nres, not panics, str(panics))
        for k in panics:
            note_finding("panic:protocol/textcommand.go:WriteTextLockAndUnLockCommandResult:result=%d" % k,
                         "text protocol cannot render result code %d" % k, {"case": tcases[k], "go": tout[k]})

    if not quick:
        # bridges to the hand models of other properties (outside the C14 cone; informational)
        saved = (ctx.coq_log, ctx.coq_time, getattr(ctx, "coq_failure", None))
        okb, _ = ctx.coq(["Codec/AofBridge.vo", "Codec/DecisionBridge.vo"])
        stats["bridges_compile"] = bool(okb)
        if not okb:
            ctx.notes.append("Codec/AofBridge.v or Codec/DecisionBridge.v no longer compiles against coq/Aof, coq/Engine: " + getattr(ctx, "coq_failure", "")[:400])
        ctx.coq_log, ctx.coq_time = saved[0], saved[1]
        if saved[2] is None and hasattr(ctx, "coq_failure"):
            del ctx.coq_failure
        okc, outc = ctx.coqchk(["Slock.Properties.C14"])
        ctx.obligation("coqchk -o Slock.Properties.C14", okc, outc[-600:])
        ctx.trusted.append("coqchk -o: " + " ".join(outc.split())[-400:])

    # 6. verdicts
    for sig, (what, replay) in sorted(findings.items()):
        ctx.violation(sig, what, replay, found_input=True)
    if mismatches:
        m = mismatches[0]
        ctx.violation("tie:%s" % m["def"], "generated definition and Go code disagree (translator or harness defect; the tie is broken)",
                      {"broken": "correspondence", "first": m, "count": len(mismatches)}, found_input=False)
    if broken and not findings:
        ctx.violation("proof:" + broken[0], "theorem no longer checks and the monitors found no failing input",
                      {"broken": broken, "log": getattr(ctx, "coq_failure", "")[:2000]}, found_input=False)
    if not gen_ok:
        ctx.violation("translator", "go2coq failed on the current source", {"log": getattr(ctx, "gen_log", "")[-2000:]}, found_input=False)

    samples = [k[0][2] for k in keep[:3]] + [k[0][2] for k in keep[-2:]]
    cov = {
        "evaluations": stats["compared"] + mon.get("evaluations", 0) + len(tcases),
        "distinct_nontrivial": len(set(k[0][2] for k in keep)),
        "rule": "distinct case lines (definition, field values, buffer) compared between generated definition and Go code",
        "samples": samples,
        "cases_by_definition": stats["by_def"],
        "decision_function_cases": stats.get("decision_cases", {}),
        "go_outcomes": {"ok": stats["outcomes"].get(0, 0), "error": stats["outcomes"].get(1, 0), "panic": stats["outcomes"].get(2, 0)},
        "short_buffer_cases_dropped": len(cases) - len(keep),
        "value_frame_reader": {"panics_on_malformed_frames(model agrees; crash-freedom is C13)": stats.get("reader_panics_on_malformed_frames", 0),
                               "reader_more_defined_than_model": stats.get("reader_more_defined_than_model", 0)},
        "monitors": mon,
        "text_result": {"codes": nres, "panicking": panics, "coq_branch_refuted": refuted},
        "translator_markers": len(markers),
        "coq_seconds": round(getattr(ctx, "coq_time", 0), 1),
        "corpus_cases": len(corpus_lines),
        "bridges_compile": stats.get("bridges_compile", "not checked in the quick tier"),
    }
    # the text-protocol half of C14 (parser chunking / round trip, key normalisation, text LOCK conversion)
    from checks import C14_text
    vlib.run_sub(ctx, "C14_text", C14_text)
    vlib.merge_sub_evidence(cov, ["C14_text"])
    return ctx.finish(cov, assumptions=[
        "buffers have at least 64 bytes (the frame size); Go field types bound the field values",
        "CALL method names / error types / leader host: no leading or trailing NUL byte, length <= 38 / 37 / 43, HostLen = len(Host)",
    ])


def monitors(ctx, codech, meta, info, rng, scale, note_finding):
    """Executable statement of the property on the implementation itself."""
    recs, defs = meta["records"], meta["defs"]
    res = {"evaluations": 0, "decode_encode_failures": 0, "encode_decode_failures": 0, "server_decode_failures": 0}
    types = sorted(set(d.rsplit("_", 1)[0] for d in defs if d.endswith("_Encode") and not d.startswith("Server_")))
    n = 60 * scale
    # (a) decode(encode m) = m
    enc_cases, metas = [], []
    for T in types:
        fs = recs[T]
        names = ",".join(f["name"] for f in fs)
        for _ in range(n):
            args = [rand_field(rng, f, T) for f in fs]
            wf = True
            if T in RECS_WITH_STRINGS:
                fname, mx = RECS_WITH_STRINGS[T]
                for f, v in zip(fs, args):
                    if f["name"] == fname:
                        # guarded statement: length bound, no NUL at the ends
                        if len(v) > mx or (len(v) and (v[0] == 0 or v[-1] == 0)):
                            wf = False
                        if T == "LeaderResultCommand":
                            for j, g in enumerate(fs):
                                if g["name"] == "HostLen":
                                    args[j] = len(v) if len(v) < 256 else 255
            enc_cases.append("%s_Encode %s %s %s" % (T, names, ",".join(enc_arg(v) for v in args), hexs(rand_buf(rng))))
            metas.append((T, names, args, wf))
    out, _, _ = run_lines(codech, enc_cases)
    dec_cases = []
    for (T, names, args, wf), l in zip(metas, out):
        t = l.split(" ")
        if t[1] != "0":
            dec_cases.append(None)
            continue
        dec_cases.append("%s_Decode %s %s %s" % (T, names, ",".join(enc_arg(bytes(len(v)) if isinstance(v, bytes) else 0) for v in args), t[2]))
    out2, _, _ = run_lines(codech, [c for c in dec_cases if c])
    it = iter(out2)
    for (T, names, args, wf), c, l1 in zip(metas, dec_cases, out):
        if c is None:
            continue
        l = next(it)
        res["evaluations"] += 1
        goc, gp = parse_go(l, "decode")
        want = tuple(tuple(v) if isinstance(v, bytes) else (v,) for v in args)
        if goc != 0 or tuple(gp) != want:
            if wf:
                res["decode_encode_failures"] += 1
                note_finding("roundtrip:%s:decode-encode" % T, "%s: Decode(Encode(m)) != m" % T,
                             {"encode": enc_cases[metas.index((T, names, args, wf))], "decode": c, "go": l})
            else:
                res["guard_excluded_lossy"] = res.get("guard_excluded_lossy", 0) + 1
                if T in ("CallCommand", "CallResultCommand") and goc == 0:
                    note_finding("lossy:%s:nul-at-ends" % T, "%s: a string with a NUL byte at either end does not survive Encode/Decode" % T,
                                 {"encode": enc_cases[metas.index((T, names, args, wf))], "decode": c, "go": l})
    # (a') README offsets of LOCK/UNLOCK request and response frames
    for T, table in (("LockCommand", README_REQUEST), ("LockResultCommand", README_RESPONSE)):
        for (T2, names, args, wf), l in zip(metas, out):
            if T2 != T:
                continue
            t = l.split(" ")
            if t[1] != "0":
                continue
            res["evaluations"] += 1
            e = bytes.fromhex(t[2])
            vals = dict(zip([f["name"] for f in recs[T]], args))
            for off, width, fname in table:
                v = vals[fname]
                want = bytes(v) if isinstance(v, bytes) else int(v).to_bytes(width, "little")
                if e[off:off + width] != want:
                    res["readme_failures"] = res.get("readme_failures", 0) + 1
                    note_finding("readme:%s:%s" % (T, fname), "%s.Encode does not put %s at README offset %d" % (T, fname, off),
                                 {"encode": enc_cases[metas.index((T2, names, args, wf))], "go": l})
                    break
    # (b) encode(decode b) = b on the defined bytes (named in Coq, harvested from the build log)
    bcases, bm = [], []
    for T in types:
        fs = recs[T]
        names = ",".join(f["name"] for f in fs)
        dset = info["defined"].get(T)
        if dset is None:
            continue
        for _ in range(n):
            b = rand_buf(rng)
            bcases.append("%s_Decode %s %s %s" % (T, names, ",".join(enc_arg(bytes(f["size"]) if f["kind"] == "array" else (b"" if f["kind"] in ("string", "bytes") else 0)) for f in fs), hexs(b)))
            bm.append((T, names, b, dset))
    out, _, _ = run_lines(codech, bcases)
    ecases, em = [], []
    for (T, names, b, dset), l in zip(bm, out):
        t = l.split(" ")
        if t[1] != "0":
            if t[1] == "panic":
                note_finding("panic:%s_Decode" % T, "%s.Decode panics on a 64-byte input" % T, {"case": bcases[bm.index((T, names, b, dset))], "go": l})
            continue
        ecases.append("%s_Encode %s %s %s" % (T, names, t[2], hexs(rand_buf(rng))))
        em.append((T, b, dset))
    out, _, _ = run_lines(codech, ecases)
    for (T, b, dset), c, l in zip(em, ecases, out):
        res["evaluations"] += 1
        t = l.split(" ")
        if t[1] != "0":
            continue
        e = bytes.fromhex(t[2])
        bad = [i for i in dset if i < len(e) and e[i] != b[i]]
        if bad:
            res["encode_decode_failures"] += 1
            note_finding("roundtrip:%s:encode-decode" % T, "%s: Encode(Decode(b)) differs from b at defined bytes %s" % (T, bad[:8]),
                         {"buffer": hexs(b), "encode": c, "go": l})
    # (c) inlined server decoder = protocol.LockCommand.Decode, and its reply = LockResultCommand.Encode of the reply record
    fs = recs["LockCommand"]
    names = ",".join(f["name"] for f in fs)
    zero = ",".join(enc_arg(bytes(16) if f["kind"] == "array" else 0) for f in fs)
    pooled = ",".join(enc_arg(bytes(16) if f["kind"] == "array" else (0x56 if f["name"] == "Magic" else (1 if f["name"] == "Version" else 0))) for f in fs)
    sc, pc = [], []
    for _ in range(n * 6):
        unlock = rng.random() < 0.5
        b = bytearray(rand_buf(rng))
        b[0], b[1], b[2] = 0x56, 1, (2 if unlock else 1)
        if not unlock:
            b[20] = 0xff
        sc.append("%s %s %s %s" % ("Server_Decode_Unlock" if unlock else "Server_Decode_Lock", names, pooled, hexs(b)))
        pc.append("LockCommand_Decode %s %s %s" % (names, zero, hexs(b)))
    o1, _, _ = run_lines(codech, sc)
    o2, _, _ = run_lines(codech, pc)
    rcases = []
    for a, b, c in zip(o1, o2, sc):
        res["evaluations"] += 1
        g1, p1 = parse_go(a, "serverdecode")
        g2, p2 = parse_go(b, "decode")
        if g1 == "skip":
            continue
        if g1 != 0 or g2 != 0 or tuple(p1[0]) != tuple(p2):
            res["server_decode_failures"] += 1
            note_finding("server-inlined-decoder", "BinaryServerProtocol's inlined lock-frame decoder disagrees with protocol.LockCommand.Decode",
                         {"case": c, "inlined": a, "protocol": b})
            continue
        # reply must be LockResultCommand{MAGIC, VERSION, type, reqid, RESULT_UNKNOWN_DB, 0, dbid, lockid, lockkey, 0, count, 0, rcount}
        d = dict(zip([f["name"] for f in fs], p2))
        rf = recs["LockResultCommand"]
        vals = {"Magic": (0x56,), "Version": (1,), "CommandType": d["CommandType"], "RequestId": d["RequestId"], "Result": (3,),
                "Flag": (0,), "DbId": d["DbId"], "LockId": d["LockId"], "LockKey": d["LockKey"], "Lcount": (0,), "Count": d["Count"],
                "Lrcount": (0,), "Rcount": d["Rcount"]}
        args = ",".join(enc_arg(bytes(vals[f["name"]]) if f["kind"] == "array" else vals[f["name"]][0]) for f in rf)
        rcases.append(("LockResultCommand_Encode %s %s %s" % (",".join(f["name"] for f in rf), args, "00" * 64), p1[1], c))
    o3, _, _ = run_lines(codech, [r[0] for r in rcases])
    for (rc, reply, c), l in zip(rcases, o3):
        res["evaluations"] += 1
        t = l.split(" ")
        if t[1] != "0" or tuple(bytes.fromhex(t[2])) != tuple(reply):
            res["server_decode_failures"] += 1
            note_finding("server-inlined-result-encoder", "BinaryServerProtocol's inlined result encoder disagrees with protocol.LockResultCommand.Encode",
                         {"case": c, "reply": hexs(reply), "protocol": l})
    return res
