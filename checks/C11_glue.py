"""C11_glue -- the two pieces of glue around the ack counter of C11 that the engine-level check does not see.

A. quorum bookkeeping (server/replication.go: addServerChannel / removeServerChannel / GetOrNewAckDB / SwitchToLeader /
   UpdateDBAckCount): WHICH number of acknowledgements an ack-lock is told to collect.
B. flush / ack reports (server/aof.go: AofFile.WriteLock / WriteLockData / Flush / Close, Aof.PushLock / Flush /
   lockAcked): WHEN "the record reached the leader's own log" is reported for a buffered ack request.

1. gen/go2coq regenerates coq/Gen/GenDecision.v (UpdateDBAckCount is translated from the source, the lemmas of
   coq/AckGlue/Quorum.v about its arithmetic stop checking when the formula changes).
2. Source census (text): the functions that call UpdateDBAckCount / write serverChannels / db.ackCount /
   Config.AofAckMode / touch ackIndex, ackRequests, lockAcked are the ones the models transcribe.
3. Coq: Properties/C11_glue.vo (models coq/AckGlue/Quorum.v, Flush.v; proofs FlushProofs.v, QuorumEngine.v).
4. Correspondence (re-run every time): harness/ackglue (real ReplicationManager / real AofFile + Aof, injected in-package)
   against the OCaml extraction (ocaml/ackglue) on corpus + seeded operation sequences; every observation of every
   operation is compared (follower count, every ackDb.ackCount, count handed to a registered lock; reports with their
   durability read back from the files, error flag, windex, dwindex, ackIndex, open).
5. Monitors evaluated on the *Go* observations with bookkeeping of their own (independent of the Coq model):
     quorum:stale-ack-count:<op> / quorum:wrong-ack-count:<op>     an ack DB's count differs from the count of the
                                                                  current follower list (stale = it is the count of
                                                                  the list before <op>)
     quorum:registered-stale-count:<op>                           ... and a lock was registered with it
     quorum:follower-list:<op>                                    len(serverChannels) is not the expected list length
     (note:reported-true-before-value-written                     true report for the record being appended, then the
                                                                  unbuffered write of its value failed: the exception of
                                                                  theorem C11_glue_flush_step (1); counted in the evidence,
                                                                  not a violation -- see NOTE_SIGS)
     flush:reported-true-after-failed-write                       (1) true report, record or value not in the files
     flush:unexpected-report                                      (2) report for a request that is not pending
     flush:ack-left-pending-after-flush / -after-failed-flush     (2) a flush left a request unreported
     flush:buffers-not-empty-after-failed-flush                   (3)
     flush:ackindex-mismatch                                      ackIndex differs from the number of pending requests
   signatures are matched against known_findings/C11_glue.json.
"""
import json, os, re, subprocess, time
from tools import vlib

MANIFEST = {
    "property": "C11_glue",
    "theorems": "coq/Properties/C11_glue.v",
    "model": ["coq/AckGlue/Quorum.v", "coq/AckGlue/Flush.v", "coq/AckGlue/FlushProofs.v", "coq/AckGlue/QuorumEngine.v"],
    "harness": "harness/ackglue",
    "ocaml": "ocaml/ackglue",
    "engine": "coq",
    "category": "proof",
    "text": "glue of C11: (A) every ack DB's ackCount is UpdateDBAckCount (generated from the source) of the current "
            "follower list after every add/remove follower, ack-DB creation, registration and SwitchToLeader, for every "
            "operation sequence; (B) buffered ack requests are reported in order, exactly once, by the first flush, true "
            "only when record and value are in the files (one refuted corner: the record that fills the buffer), "
            "buffers and ackIndex empty after every flush",
    "note": "partial: ReplicationManager.Close, replica-set member changes through the network (members replaced by a "
            "field write), partial writes (k>0 bytes before the error) are modelled and proved but the harness only "
            "injects k=0 failures; AofFile size accounting, Sync and file rotation are outside the model",
    "technique": "Coq proofs + model/implementation differential testing (extracted OCaml vs in-package Go harness) + "
                 "source census",
}

VERIF = vlib.VERIF
PID = "C11_glue"


# ------------------------------------------------------------------------------------------------ source census
def func_of_lines(src):
    """[(line text, enclosing top-level function 'Recv.Name' or 'Name')]"""
    cur = None
    out = []
    for line in src.split("\n"):
        m = re.match(r"func (?:\(\w+ \*?(\w+)\) )?(\w+)\(", line)
        if m:
            cur = (m.group(1) + "." if m.group(1) else "") + m.group(2)
        out.append((line, cur))
        if line.startswith("}"):
            cur = None
    return out


def census(repo):
    """{what: sorted list of functions}"""
    strip = lambda s: re.sub(r"//[^\n]*", "", s)
    rep = func_of_lines(strip(open(os.path.join(repo, "server", "replication.go")).read()))
    aof = func_of_lines(strip(open(os.path.join(repo, "server", "aof.go")).read()))
    allsrc = []
    sdir = os.path.join(repo, "server")
    for fn in sorted(os.listdir(sdir)):
        if fn.endswith(".go") and not fn.endswith("_test.go") and not fn.startswith("zz_verif"):
            allsrc += [(fn, l, f) for l, f in func_of_lines(strip(open(os.path.join(sdir, fn)).read()))]
    res = {}
    res["callers of UpdateDBAckCount"] = sorted({"%s:%s" % (fn, f) for fn, l, f in allsrc if re.search(r"\.UpdateDBAckCount\(\)", l)})
    res["writers of serverChannels"] = sorted({"%s:%s" % (fn, f) for fn, l, f in allsrc if re.search(r"\.serverChannels\s*=[^=]", l)})
    res["writers of an ack DB's ackCount"] = sorted({f for l, f in rep if re.search(r"\bdb\.ackCount\s*=[^=]|\bself\.ackCount\s*=[^=]|ackDb\.ackCount\s*=[^=]", l)})
    res["writers of ackDbs"] = sorted({"%s:%s" % (fn, f) for fn, l, f in allsrc if re.search(r"\.ackDbs\[[^\]]*\]\s*=[^=]|\.ackDbs\s*=[^=]", l)})
    res["writers of AofAckMode"] = sorted({"%s:%s" % (fn, f) for fn, l, f in allsrc if re.search(r"\.AofAckMode\s*=[^=]", l)})
    res["functions touching ackIndex"] = sorted({f for l, f in aof if re.search(r"\backIndex\b", l) and f})
    res["functions touching ackRequests"] = sorted({f for l, f in aof if re.search(r"\backRequests\b", l) and f})
    res["callers of lockAcked"] = sorted({"%s:%s" % (fn, f) for fn, l, f in allsrc if re.search(r"\.lockAcked\(", l)})
    res["callers of AofFile.Flush inside AofFile"] = sorted({f for l, f in aof if re.search(r"\bself\.Flush\(\)", l) and f and f.startswith("AofFile.")})
    return res


CENSUS_EXPECTED = {
    "callers of UpdateDBAckCount": ["replication.go:ReplicationManager.GetOrNewAckDB", "replication.go:ReplicationManager.SwitchToLeader",
                                    "replication.go:ReplicationManager.addServerChannel", "replication.go:ReplicationManager.removeServerChannel"],
    "writers of serverChannels": ["replication.go:ReplicationManager.Close", "replication.go:ReplicationManager.addServerChannel",
                                  "replication.go:ReplicationManager.removeServerChannel"],
    "writers of an ack DB's ackCount": ["ReplicationManager.UpdateDBAckCount"],
    "writers of ackDbs": ["replication.go:ReplicationManager.Close", "replication.go:ReplicationManager.GetOrNewAckDB"],
    "writers of AofAckMode": ["config.go:ExtendConfig"],
    "functions touching ackIndex": ["Aof.Flush", "AofFile.Close", "AofFile.Flush", "AofFile.WriteLock"],
    "functions touching ackRequests": ["AofFile.Close", "AofFile.Flush", "AofFile.WriteLock", "NewAofFile"],
    "callers of lockAcked": ["aof.go:AofFile.Close", "aof.go:AofFile.Flush"],
    "callers of AofFile.Flush inside AofFile": ["AofFile.AppendLock", "AofFile.Close", "AofFile.WriteLock", "AofFile.WriteLockData"],
}


# ------------------------------------------------------------------------------------------------ generators
class Gen:
    def __init__(self, rng):
        self.r = rng

    def bits(self):
        n = self.r.choice([0, 1, 1, 2, 3, 3, 4, 5])
        return "".join(self.r.choice("0001") for _ in range(n)) or "e"

    def quorum_case(self):
        r = self.r
        mode = r.choice([0, 1, 1, 2, 2, 0, 3])
        arb = "-" if r.random() < 0.8 else self.bits()
        maxf = r.choice([1, 2, 2, 2, 3, 4])          # 0..2 followers most of the time
        steps = ["Q %d %s" % (mode, arb)]
        for _ in range(r.randint(2, 24)):
            c = r.random()
            if c < 0.28:
                steps.append("add %d" % r.randint(1, maxf))
            elif c < 0.46:
                steps.append("rm %d" % r.randint(1, maxf))
            elif c < 0.60:
                steps.append("db %d" % r.choice([0, 0, 1, 2, 255]))
            elif c < 0.88:
                steps.append("reg %d" % r.choice([0, 0, 0, 1, 2, 255]))
            elif c < 0.94 or arb == "-":
                steps.append("leader")
            else:
                steps.append("arb %s" % self.bits())
        return " ; ".join(steps)

    def flush_case(self):
        r = self.r
        cap = r.choice([1, 2, 2, 3, 4, 4, 8])
        pm, pd = r.choice([0.0, 0.1, 0.2]), r.choice([0.0, 0.1, 0.25])
        steps = ["F %d" % cap]
        for _ in range(r.randint(2, 28)):
            mb = 1 if r.random() < pm else 0
            db = 1 if r.random() < pd else 0
            c = r.random()
            if c < 0.68:
                ack = 1 if r.random() < 0.65 else 0
                k = r.random()
                if k < 0.4:
                    dlen = "-"
                elif k < 0.9:
                    dlen = str(r.choice([8, 9, 16, 33, 64, 100]))
                else:
                    dlen = str(4096 * cap - r.choice([0, 8, 40, 100]) + r.choice([0, 0, 1, 60]))   # around the dwbuf size
                steps.append("a %d %s %d %d" % (ack, dlen, mb, db))
            elif c < 0.985:
                steps.append("f %d %d %d" % (r.randint(0, 1), mb, db))
            else:
                steps.append("c %d %d" % (mb, db))
        return " ; ".join(steps)


# ------------------------------------------------------------------------------------------------ running both sides
def run_lines(cmd, lines, timeout):
    inp = ("\n".join(lines) + "\n").encode()
    p = subprocess.run(cmd, input=inp, stdout=subprocess.PIPE, stderr=subprocess.PIPE, timeout=timeout)
    if p.returncode != 0:
        raise vlib.BuildError("%s exited with %d: %s" % (cmd[0], p.returncode, p.stderr.decode("utf-8", "replace")[-2000:]))
    out = p.stdout.decode().split("\n")
    if out and out[-1] == "":
        out.pop()
    return out


def split_case(case):
    parts = [s.strip() for s in case.split(";") if s.strip()]
    return parts[0].split(), parts[1:]


def obs_fields(part):
    return dict(kv.split("=", 1) for kv in part.split())


# ------------------------------------------------------------------------------------------------ monitors
def spec_count(n, mode, arb):
    """the count the property text asks for: all = followers + the leader's own flush; majority = strict majority of
    followers+1; replica set: mode 2 = all, else the majority of the voting members"""
    if arb is None:
        c = (n + 1) // 2 + 1 if mode == 1 else n + 1
    elif mode == 2:
        c = n + 1
    else:
        workers = sum(1 for b in arb if b == "0")
        c = 0 if len(arb) == 0 else workers // 2 + 1
    return c % 256


def quorum_monitor(case, go_line):
    hdr, ops = split_case(case)
    mode = int(hdr[1])
    arb = None if hdr[2] == "-" else ("" if hdr[2] == "e" else hdr[2])
    parts = [p.strip() for p in go_line.split(" ; ")] if go_line else []
    chans = []
    cause, hist = None, set()
    for i, op in enumerate(ops):
        if i >= len(parts) or parts[i].startswith("panic:"):
            if i < len(parts):
                yield ("panic:quorum", "operation panics: %s" % parts[i], {"step": i, "op": op})
            return
        f = op.split()
        before = spec_count(len(chans), mode, arb)
        if f[0] == "add":
            chans.append(int(f[1]))
        elif f[0] == "rm":
            chans = [c for c in chans if c != int(f[1])]
        elif f[0] == "arb" and arb is not None:
            arb = "" if f[1] == "e" else f[1]
        want = spec_count(len(chans), mode, arb)
        o = obs_fields(parts[i])
        if int(o["n"]) != len(chans) or "!" in o["dbs"]:
            yield ("quorum:follower-list:%s" % f[0], "follower list / serverCount not as expected after %s" % f[0],
                   {"step": i, "op": op, "expected_followers": len(chans), "observed": parts[i]})
        counts = [] if o["dbs"] == "-" else [tuple(map(int, x.split("!")[0].split(":"))) for x in o["dbs"].split(",")]
        bad = [(d, c) for d, c in counts if c != want]
        if not bad:
            cause, hist = None, set()
        else:
            if cause is None:
                cause = (f[0], before)
            hist.add(before)          # counts of the follower lists since the first miss
            kind = "stale" if all(c in hist for _, c in bad) else "wrong"
            yield ("quorum:%s-ack-count:%s" % (kind, cause[0]),
                   "ack DB count %s differs from the count %d of the current follower list (%d followers, mode %d%s) after %s"
                   % (bad, want, len(chans), mode, "" if arb is None else ", replica set " + (arb or "empty"), cause[0]),
                   {"step": i, "op": op, "want": want, "observed": parts[i]})
        if f[0] == "reg" and o["out"] != str(want):
            yield ("quorum:registered-stale-count:%s" % (cause[0] if cause else f[0]),
                   "an ack-lock was registered with ackCount %s, the current follower list asks for %d" % (o["out"], want),
                   {"step": i, "op": op, "want": want, "observed": parts[i]})


def flush_monitor(case, go_line):
    hdr, ops = split_case(case)
    parts = [p.strip() for p in go_line.split(" ; ")] if go_line else []
    pending = []
    nxt = 0
    is_open = True
    for i, op in enumerate(ops):
        if i >= len(parts) or parts[i].startswith("panic:") or parts[i].startswith("openerr"):
            if i < len(parts):
                yield ("panic:flush", "operation fails: %s" % parts[i], {"step": i, "op": op})
            return
        f = op.split()
        o = obs_fields(parts[i])
        cur = None
        if f[0] == "a":
            cur = nxt
            nxt += 1
            if is_open and f[1] == "1":
                pending.append(cur)
        reps = [] if o["rep"] == "-" else [x.split(":") for x in o["rep"].split(",")]
        for rp in reps:
            rid, tf, m, d = int(rp[0]), rp[1], rp[2], rp[3]
            if rid not in pending or len(rp) > 4:
                yield ("flush:unexpected-report", "report for request %d which is not pending (reported twice / never buffered)" % rid,
                       {"step": i, "op": op, "observed": parts[i]})
            else:
                pending.remove(rid)
            if tf == "T" and (m != "1" or d != "1"):
                if rid == cur and o["err"] == "1" and m == "1":
                    # the exception of theorem C11_glue_flush_step (1): not a violation of C11, see NOTE_SIGS
                    yield ("note:reported-true-before-value-written",
                           "request %d reported true by the Flush inside WriteLock / WriteLockData, then the unbuffered write of its own value failed" % rid,
                           {"step": i, "op": op, "observed": parts[i]})
                else:
                    yield ("flush:reported-true-after-failed-write",
                           "request %d reported true although %s is not in the file" % (rid, "its record" if m != "1" else "its value"),
                           {"step": i, "op": op, "observed": parts[i]})
        failed = o["err"] == "1"
        if f[0] in ("f", "c") and pending:
            yield ("flush:ack-left-pending-after-%sflush" % ("failed-" if failed else ""),
                   "requests %s are still unreported after %s" % (pending, "Close" if f[0] == "c" else "Flush"),
                   {"step": i, "op": op, "observed": parts[i]})
        if failed and is_open and (o["w"] != "0" or o["dw"] != "0" or o["ai"] != "0"):
            yield ("flush:buffers-not-empty-after-failed-flush", "windex/dwindex/ackIndex not zero after an operation that ended in a write error",
                   {"step": i, "op": op, "observed": parts[i]})
        if int(o["ai"]) != len(pending):
            yield ("flush:ackindex-mismatch", "ackIndex %s but %d requests are unreported" % (o["ai"], len(pending)),
                   {"step": i, "op": op, "observed": parts[i]})
        is_open = o["open"] == "1"


# observations the monitors recognise but which do not violate C11
NOTE_SIGS = {
    "note:reported-true-before-value-written":
        "layer-level exception of theorem C11_glue_flush_step (1), witness of C11_glue_flush_true_durable_refuted: the record "
        "being appended is reported true by the Flush inside WriteLock/WriteLockData, then the unbuffered write of its own "
        "value fails.  Masked one level up: Aof.PushLock returns the write error and AofChannel.Handle calls "
        "DoAckLock(lock, false) at once, before the queued report (same channel: both are routed by the key hash) is "
        "handled; DoAckLock is single-shot (engine-level C11 theorem), so the requester gets the error.",
}


def monitors(case, go_line):
    if case.startswith("Q"):
        return list(quorum_monitor(case, go_line))
    return list(flush_monitor(case, go_line))


def shrink(case, pred, budget=150):
    hdr, ops = case.split(";")[0].strip(), [s.strip() for s in case.split(";")[1:] if s.strip()]
    changed = True
    while changed and budget > 0:
        changed = False
        for i in range(len(ops)):
            cand = ops[:i] + ops[i + 1:]
            budget -= 1
            if cand and pred(" ; ".join([hdr] + cand)):
                ops, changed = cand, True
                break
    return " ; ".join([hdr] + ops)


# ------------------------------------------------------------------------------------------------ the check
def run(ctx):
    t0 = time.time()
    repo = vlib.REPO
    coverage = {"evaluations": 0, "distinct_nontrivial": 0, "rule": "", "samples": []}

    # 1. translator, 2. census
    if os.path.exists(os.path.join(VERIF, "gen", "go2coq", "main.go")):
        ctx.gen()
    t_gen = time.time() - t0
    try:
        cen = census(repo)
    except Exception as e:          # a file or function disappeared
        cen = {"error": [str(e)]}
    diffs = {k: {"expected": CENSUS_EXPECTED.get(k), "found": cen.get(k)} for k in set(CENSUS_EXPECTED) | set(cen)
             if CENSUS_EXPECTED.get(k) != cen.get(k)}
    ctx.obligation("source census: callers/writers of the ack bookkeeping are the transcribed ones", not diffs,
                   json.dumps(diffs, sort_keys=True)[:800] if diffs else "")
    coverage["census"] = cen

    # 3. Coq
    tc = time.time()
    ok, log = ctx.coq(["Properties/C11_glue.vo"])
    t_coq_wall = time.time() - tc
    thms = re.findall(r"^(?:Theorem|Lemma) (\w+)", open(os.path.join(VERIF, "coq", "Properties", "C11_glue.v")).read(), flags=re.M)
    for t in thms:
        ctx.obligation(t, ok and t in ctx.assumption_report, "" if ok else getattr(ctx, "coq_failure", "")[:600])
    proofs_ok = ok

    # 4. both sides
    tb = time.time()
    harness = ctx.go_build("ackglueh", os.path.join(VERIF, "harness", "ackglue"),
                           overlay={"server/zz_verif_ackglue.go": "harness/ackglue/inj/zz_verif_ackglue.go"})
    model = ctx.ocaml_model("ackglue")
    t_build = time.time() - tb
    ctx.trusted += [
        "translator gen/go2coq: UpdateDBAckCount (server/replication.go) -> Slock.Gen.GenDecision.UpdateDBAckCount, regenerated on every run; its inputs (has_arbiter, ack_mode, n_channels, majority) are supplied by coq/AckGlue/Quorum.v count_in",
        "hand-written models coq/AckGlue/Quorum.v (incl. arb_majority = ArbiterManager.GetMajorityMemberCount) and coq/AckGlue/Flush.v, tied to server/replication.go / server/aof.go by the correspondence check of this run and by the source census (checks/C11_glue.py:census)",
        "extraction: ocaml/ackglue/Extract.v (ExtrOcamlBasic only), driver ocaml/ackglue/driver.ml -- trusted for the correspondence only",
        "Go harness harness/ackglue/inj/zz_verif_ackglue.go: real ReplicationManager / NewReplicationServer / PushLock / SwitchToLeader; arbiterManager.members is replaced by a field write; real NewAofFile+Open, Aof.PushLock, Aof.Flush, AofFile.Flush, AofFile.Close, Aof.lockAcked, AofChannel.AofAcked (channel not running, drained by the harness); write errors = read-only *os.File put into AofFile.file / dataFile (EBADF, 0 bytes written)",
        "not modelled: ReplicationManager.Close; AofFile.size/dataSize accounting, Sync, rotation (RewriteAofFile); partial writes (WFail k, k>0) are in the model and the theorems but are not produced by the harness; what AofChannel.Handle does with the report is the engine-level C11 check",
    ]

    g = Gen(ctx.rng)
    thorough = ctx.tier == "thorough"
    n_q, n_f = (300, 400) if not thorough else (15000, 20000)
    corpus = []
    cdir = os.path.join(VERIF, "corpus", PID)
    for fn in sorted(os.listdir(cdir)) if os.path.isdir(cdir) else []:
        for line in open(os.path.join(cdir, fn)):
            line = line.strip()
            if line and not line.startswith("#"):
                corpus.append(line)
    replay = getattr(ctx, "replay", None)
    if replay:
        rp = json.load(open(replay))["replay"]
        cases, streams = [rp["case"]], [("replay", 1)]
    else:
        qs = [g.quorum_case() for _ in range(n_q)]
        fs = [g.flush_case() for _ in range(n_f)]
        cases = corpus + qs + fs
        streams = [("corpus", len(corpus)), ("quorum", len(qs)), ("flush", len(fs))]
    tg = time.time()
    go_out = run_lines([harness], cases, 1800)
    t_go = time.time() - tg
    tm = time.time()
    mod_out = run_lines([model], cases, 1800)
    t_model = time.time() - tm
    if len(go_out) != len(cases) or len(mod_out) != len(cases):
        raise vlib.BuildError("driver output length mismatch: %d cases, go %d, model %d" % (len(cases), len(go_out), len(mod_out)))

    # 5. diff + monitors
    bounds, acc = [], 0
    for name, n in streams:
        bounds.append((name, acc, acc + n))
        acc += n

    def stream_of(i):
        for name, a, b in bounds:
            if a <= i < b:
                return name
        return "?"

    opdist, classes, sigs, mismatches, notes = {}, {}, {}, [], {}
    nsteps = 0
    rep_true = rep_false = failed_ops = 0
    maxfollowers = {}
    for i, case in enumerate(cases):
        gl, ml = go_out[i], mod_out[i]
        hdr, ops = split_case(case)
        mparts = ml.split(" ; ")
        nsteps += len(ops)
        for k, op in enumerate(ops):
            f = op.split()
            kind = hdr[0] + ":" + f[0]
            opdist[kind] = opdist.get(kind, 0) + 1
            if k >= len(mparts) or "=" not in mparts[k]:
                continue
            o = obs_fields(mparts[k])
            if hdr[0] == "Q":
                cl = "%s/mode%s/%s/n%s/%s" % (f[0], hdr[1], "replset" if hdr[2] != "-" else "plain", o["n"], "out" if o["out"] != "-" else "-")
                maxfollowers[o["n"]] = maxfollowers.get(o["n"], 0) + 1
            else:
                reps = [] if o["rep"] == "-" else o["rep"].split(",")
                rep_true += sum(1 for x in reps if ":T:" in x)
                rep_false += sum(1 for x in reps if ":F:" in x)
                failed_ops += o["err"] == "1"
                extra = ""
                if f[0] == "a":
                    extra = "/ack%s/%s" % (f[1], "val" if f[2] != "-" else "noval")
                cl = "%s%s/err%s/%s/%s" % (f[0], extra, o["err"], "T" if any(":T:" in x for x in reps) else ("F" if reps else "-"),
                                           "open" if o["open"] == "1" else "closed")
            classes[cl] = classes.get(cl, 0) + 1
        if gl != ml:
            mismatches.append(i)
        for sig, what, det in monitors(case, gl):
            if sig in NOTE_SIGS:
                notes.setdefault(sig, []).append(i)
            else:
                sigs.setdefault(sig, []).append((i, what, det))

    def go_pred(sig):
        def pred(c):
            try:
                o = run_lines([harness], [c], 60)[0]
            except Exception:
                return False
            return any(s == sig for s, _, _ in monitors(c, o))
        return pred

    reported = {}
    for sig, hits in sorted(sigs.items()):
        i, what, det = hits[0]
        small = shrink(cases[i], go_pred(sig)) if len(reported) < 30 else cases[i]
        o = run_lines([harness], [small], 60)[0]
        dets = [d for s, _, d in monitors(small, o) if s == sig]
        r = ctx.violation(sig, what, {"case": small, "go_observation": o, "stream": stream_of(i), "count": len(hits),
                                      "detail": dets[0] if dets else det,
                                      "how": "printf '%s\\n' '<case>' | build/ackglueh   (harness/ackglue, built with -tags verif -overlay; "
                                             "format: harness/ackglue/inj/zz_verif_ackglue.go)"})
        reported[sig] = {"status": r, "count": len(hits), "witness": small}
    for i in mismatches[:4]:
        def differs(c):
            try:
                return run_lines([model], [c], 60)[0] != run_lines([harness], [c], 60)[0]
            except Exception:
                return False
        small = shrink(cases[i], differs)
        area = "quorum" if cases[i].startswith("Q") else "flush"
        ctx.violation("corr:%s" % area, "model and implementation disagree (%s glue)" % area,
                      {"case": small, "model": run_lines([model], [small], 60)[0], "go": run_lines([harness], [small], 60)[0],
                       "broken": "correspondence coq/AckGlue/%s.v <-> server/%s" % (("Quorum", "replication.go") if area == "quorum" else ("Flush", "aof.go"))},
                      found_input=False)
    ctx.obligation("correspondence: model = implementation on every generated case", not mismatches,
                   "%d mismatching cases" % len(mismatches) if mismatches else "")
    if diffs:
        ctx.violation("tie:census", "the set of functions that touch the ack bookkeeping changed; the models no longer transcribe all of them: %s"
                      % json.dumps(diffs, sort_keys=True)[:600], {"broken": "census", "detail": diffs}, found_input=False)
    if not proofs_ok:
        ctx.violation("proof:C11_glue", "Properties/C11_glue.v no longer checks: %s" % getattr(ctx, "coq_failure", "")[:500],
                      {"broken": "coq", "log": getattr(ctx, "coq_failure", "")}, found_input=False)
    if thorough and proofs_ok:
        okc, outc = ctx.coqchk(["Slock.AckGlue.Quorum", "Slock.AckGlue.Flush", "Slock.AckGlue.FlushProofs"])
        ctx.obligation("coqchk AckGlue", okc, "" if okc else outc[-600:])

    coverage.update({
        "evaluations": len(cases),
        "steps": nsteps,
        "distinct_nontrivial": len(classes),
        "rule": "distinct (operation / mode / replica set / follower count | operation / ack / value / error / report / open) classes reached by the model",
        "streams": dict(streams),
        "op_distribution": dict(sorted(opdist.items())),
        "follower_count_distribution": dict(sorted(maxfollowers.items())),
        "reports": {"true": rep_true, "false": rep_false, "operations_ending_in_write_error": failed_ops},
        "model_classes": dict(sorted(classes.items())),
        "mismatches": len(mismatches),
        "monitor_signatures": reported,
        "observed_not_violations": {k: {"count": len(v), "first_case": cases[v[0]], "why": NOTE_SIGS[k]} for k, v in sorted(notes.items())},
        "samples": [c for n, a, b in bounds for c in cases[a:a + 2] if n != "corpus"],
        "timing_s": {"go": round(t_go, 2), "model": round(t_model, 2), "coq": round(getattr(ctx, "coq_time", 0), 2),
                     "translator_incl_lock_wait": round(t_gen, 2), "coq_incl_lock_wait": round(t_coq_wall, 2),
                     "harness_and_model_build_incl_lock_wait": round(t_build, 2), "total": round(time.time() - t0, 2)},
    })
    return ctx.finish(coverage, assumptions=[
        "fewer than 255 followers (ackCount is a uint8: followers+1 wraps at 256)",
        "Config.AofAckMode does not change after start-up (census: no writer besides config.go ExtendConfig)",
        "os.File.Write returns a non-nil error whenever it wrote fewer bytes than asked (so the retry loops of Flush run once)",
        "bufSize >= 64 (cap >= 1) for the buffer-range theorem",
    ])
