"""C19 — client-library primitives keep their textbook guarantees over TCP.

Proof side : coq/Gen/GenClient.v (regenerated from /repo/client/*.go + server/db.go switches by gen/clientparams on every run)
             -> coq/Client/Prims.v, PrimsProofs.v -> coq/Properties/C19.v  (admission model, all operation sequences)
             -> coq/Client/WaitQueue.v -> coq/Properties/C19_handover.v     (wait queue, timeouts, wake-up pass, hand-over)
Runtime side: harness/client (c19run) starts a REAL slock server built from the checked tree (child process,
             loopback ports 15600-15699, scratch dir /tmp/c19-*), optionally a follower and a cutting TCP proxy,
             drives the Go client primitives from 2..64 goroutines on 1..8 connections and evaluates the property's
             monitors on the recorded client-side history (global logical clock).
             Hand-over scenarios (kind "handover", harness/client/scenario_handover.go): rounds in which waiters with SHORT
             acquire timeouts time out (Lock: are cancelled) while others, confirmed queued by the server's admin listing,
             keep waiting; then the holders release / the event is set with timeout-0 newcomers racing.  Liveness monitor:
             an available primitive must serve a confirmed waiter within bound_ms (real time; an alarm is re-run twice by
             c19run and reported only when it reproduces).  In the quick tier they run on a second server in parallel.
Parameters are drawn from ctx.rng; the goroutine schedules themselves are whatever the Go runtime / kernel produce.
"""
import glob, json, os, shutil, tempfile, time

import vlib

MANIFEST = {
    "property": "C19",
    "theorems": ["C19_lock_exclusive", "C19_semaphore_bound", "C19_flow_bound", "C19_rwlock_writer_alone",
                 "C19_rwlock_writer_accepted_only_when_free", "C19_rwlock_writer_excludes_all", "C19_rwlock_readers_share",
                 "C19_rwlock_unlimited_readers_branch", "C19_rlock_only_holder_reenters", "C19_rlock_balanced_unlocks",
                 "C19_prioritylock_exclusive", "C19_prioritylock_queue_head_is_max",
                 "C19_prioritylock_handover_newcomer_window",
                 "C19_event_wait_acceptance", "C19_event_wait_wake_pass",
                 "C19_waited_flag_covers_live_waiters", "C19_release_serves_queue_head", "C19_lock_handover_after_timeout",
                 "C19_semaphore_handover_after_timeout", "C19_prioritylock_handover_after_timeout",
                 "C19_event_set_releases_all_after_timeout", "C19_event_clearmode_wait_timeout_serves_other_waits",
                 "C19_handover_needs_the_timeout_guard"],
    "generated": ["coq/Gen/GenClient.v"],
    "harness": "harness/client",
    "ports": "127.0.0.1:15600-15699",
}

PORT_LO, PORT_HI = 15600, 15699
PRIMS = ["lock", "rlock", "semaphore", "flow", "rwlock", "priority", "event"]


# --------------------------------------------------------------------------------------- generated parameter table
def gen_client_params(ctx):
    """Run gen/clientparams on the current tree -> coq/Gen/GenClient.v (rewritten only when changed)."""
    gdir = os.path.join(vlib.VERIF, "gen", "clientparams")
    exe = os.path.join(vlib.BUILD, "clientparams")
    with vlib.Lock("gen-clientparams"):
        rc, out, _ = vlib.sh(["go", "build", "-o", exe, "."], cwd=gdir, timeout=300)
        if rc != 0:
            raise vlib.BuildError("clientparams build failed:\n" + out[-2000:])
        rc, out, _ = vlib.sh([exe, "-repo", vlib.REPO], timeout=60)
        if rc != 0:
            ctx.obligation("translator clientparams runs on the current source", False, out[-1500:])
            return False, out
        vlib.write_if_changed(os.path.join(vlib.COQ, "Gen", "GenClient.v"), out)
    return True, out


# --------------------------------------------------------------------------------------- scenarios
def draw(rng, sid, prim, dur_ms, **kw):
    g = rng.choice([2, 3, 4, 6, 8, 12, 16, 24, 32, 48, 64])
    sc = {"id": sid, "prim": prim, "goroutines": g, "conns": rng.randint(1, 8), "n": rng.randint(1, 5),
          "keys": rng.choice([1, 1, 2, 3]), "duration_ms": dur_ms, "hold_us_max": rng.choice([20, 200, 1000, 3000]),
          "via": "leader", "proxy": False, "cuts": 0, "seed": rng.randrange(1, 2 ** 31), "expried": 60, "timeout": 30,
          "default_set": rng.random() < 0.5, "rounds": 0, "late": False, "shared_obj": False}
    if prim == "priority":
        sc["goroutines"] = max(4, g)
        sc["hold_us_max"] = rng.choice([50, 300, 1000])
    if prim == "event":
        sc["goroutines"] = max(3, g)
    if prim == "rwlock":
        sc["shared_obj"] = rng.random() < 0.34   # one RWLock object per connection shared by its goroutines
    sc.update(kw)
    if sc["proxy"] and sc["cuts"]:
        sc["expried"], sc["timeout"] = 8, 9
    return sc


HO_PRIMS = ["lock", "rlock", "semaphore", "flow", "rwlock", "priority", "event-set", "event-clear"]


def draw_handover(rng, sid, prim, dur_ms, **kw):
    """hand-over scenario: `goroutines` = waiters + timeout-0 newcomers of one round (holders come on top: 1, n for
    Semaphore/Flow, 1-2 for RWLock readers), so 3..64 actors on 1..8 connections"""
    ds = True
    if prim.startswith("event"):
        ds, prim = prim.endswith("set"), "event"
    sc = {"id": sid, "prim": prim, "kind": "handover", "goroutines": rng.choice([3, 4, 5, 6, 8, 12, 16, 24, 40, 62]),
          "conns": rng.randint(1, 8), "n": rng.randint(1, 5), "keys": 1, "duration_ms": dur_ms,
          "hold_us_max": rng.choice([20, 200, 1000]), "via": "leader", "proxy": False, "cuts": 0, "seed": rng.randrange(1, 2 ** 31),
          "expried": 60, "timeout": 30, "default_set": ds, "rounds": 0, "late": False, "shared_obj": False,
          "short_ms": rng.choice([120, 200, 300, 450]), "bound_ms": 2000, "cancel": prim == "lock" and rng.random() < 0.7}
    sc.update(kw)
    return sc


def plan(ctx, tier):
    rng = ctx.rng
    batches = []
    if tier == "quick":
        scs = []
        for p in ["lock", "rlock", "semaphore", "flow", "rwlock"]:
            scs.append(draw(rng, p + "-0", p, 2000))
        scs.append(draw(rng, "priority-order", "priority", 2500, late=False))
        scs.append(draw(rng, "priority-late", "priority", 2500, late=True, goroutines=rng.choice([8, 12, 16, 24])))
        scs.append(draw(rng, "event-set", "event", 1500, default_set=True))
        scs.append(draw(rng, "event-clear", "event", 1500, default_set=False))
        pp = rng.choice(["lock", "semaphore", "flow", "rwlock", "rlock"])
        scs.append(draw(rng, pp + "-pipelined", pp, 2000, conns=1, goroutines=rng.choice([32, 48, 64]), hold_us_max=20))
        fp = rng.choice(PRIMS)
        scs.append(draw(rng, fp + "-follower", fp, 2500, via="follower"))
        rp = rng.choice(["lock", "semaphore", "flow", "rwlock", "rlock"])
        scs.append(draw(rng, rp + "-reconnect", rp, 7000, proxy=True, cuts=1, goroutines=rng.choice([8, 16, 32])))
        batches.append(scs)
        # second server, in parallel: waiters that time out / are cancelled while others keep waiting, then the hand-over
        ho = [draw_handover(rng, p + "-handover", p, 2300) for p in HO_PRIMS]
        sp = rng.choice(HO_PRIMS[:7])
        ho.append(draw_handover(rng, sp + "-handover-seconds", sp, 3500, short_ms=0, goroutines=rng.choice([3, 5, 8])))   # second wheel
        fp = rng.choice(HO_PRIMS[:7])
        ho.append(draw_handover(rng, fp + "-handover-follower", fp, 2300, via="follower"))
        batches.append(ho)
    else:
        budget_ms = int(os.environ.get("C19_THOROUGH_MS", "1080000"))
        nb = 4
        used = 0
        i = 0
        per_batch = [[] for _ in range(nb)]
        while used < budget_ms:
            b = per_batch[i % nb]
            for p in PRIMS:
                kind = rng.choice(["plain", "plain", "follower", "pipelined", "reconnect", "reconnect-follower"])
                kw = {}
                dur = 6000
                if kind == "follower":
                    kw["via"] = "follower"
                elif kind == "pipelined":
                    kw.update(conns=1, goroutines=rng.choice([32, 48, 64]), hold_us_max=rng.choice([0, 20, 200]))
                elif kind.startswith("reconnect") and p not in ("priority",):
                    kw.update(proxy=True, cuts=rng.choice([1, 2]))
                    dur = 14000
                    if kind.endswith("follower"):
                        kw["via"] = "follower"
                if p == "priority":
                    kw["late"] = rng.random() < 0.5
                b.append(draw(rng, "%s-%s-%d" % (p, kind, i), p, dur, **kw))
                used += dur + 300
            for p in HO_PRIMS:
                kind = rng.choice(["handover", "handover", "handover-follower", "handover-seconds"])
                kw, dur = {}, 5000
                if kind.endswith("follower"):
                    kw["via"] = "follower"
                elif kind.endswith("seconds"):
                    kw["short_ms"] = 0
                    dur = 8000
                b.append(draw_handover(rng, "%s-%s-%d" % (p, kind, i), p, dur, **kw))
                used += dur + 300
            i += 1
        batches = [b for b in per_batch if b]
    return batches


def corpus_scenarios():
    res = []
    for f in sorted(glob.glob(os.path.join(vlib.VERIF, "corpus", "C19", "*.json"))):
        try:
            d = json.load(open(f))
            sc = d.get("params") or d.get("scenario") or d
            sc = dict(sc)
            sc["id"] = "corpus-" + os.path.basename(f)[:-5]
            res.append(sc)
        except Exception:
            pass
    return res


# --------------------------------------------------------------------------------------- running
def run_batch(ctx, exe, server, scenarios, follower, label, port_lo=PORT_LO, port_hi=PORT_HI):
    scratch = tempfile.mkdtemp(prefix="c19-")
    cfg = {"seed": ctx.seed, "server_bin": server, "port_lo": port_lo, "port_hi": port_hi, "scratch": scratch,
           "follower": follower, "scenarios": scenarios}
    cfgp, outp = os.path.join(scratch, "cfg.json"), os.path.join(scratch, "out.json")
    json.dump(cfg, open(cfgp, "w"))
    # a hand-over scenario with a liveness alarm is run three times
    tmo = sum(s["duration_ms"] * (3.2 if s.get("kind") == "handover" else 1) for s in scenarios) / 1000.0 * 2.5 + 180
    try:
        rc, out, dt = vlib.sh([exe, "-cfg", cfgp, "-out", outp], timeout=tmo, cwd=scratch)
        res = None
        if os.path.exists(outp):
            try:
                res = json.load(open(outp))
            except Exception:
                res = None
        return rc, out, res, dt
    finally:
        vlib.sh(["pkill", "-KILL", "-f", scratch + "/"])  # children carry the scratch dir in their argv
        shutil.rmtree(scratch, ignore_errors=True)


def run(ctx):
    tier = ctx.tier
    # 1. regenerated parameter table, 2. proofs
    gen_ok, gen_out = gen_client_params(ctx)
    ctx.obligation("gen/clientparams regenerates coq/Gen/GenClient.v from client/*.go", gen_ok, "" if gen_ok else gen_out[-800:])
    unsupported = "gen_unsupported" in (gen_out or "")
    # two files so that a broken hand-over proof (e.g. a flipped guard switch) does not take the admission theorems with it
    # (built one after the other: the Print Assumptions blocks of two parallel coqc runs would interleave)
    ok1, log = ctx.coq(["Properties/C19.vo"])
    fail1 = "" if ok1 else getattr(ctx, "coq_failure", "")
    ok2, log2 = ctx.coq(["Properties/C19_handover.vo"])
    fail2 = "" if ok2 else getattr(ctx, "coq_failure", "")
    ok = ok1 and ok2
    ctx.coq_failure = "; ".join(x for x in (fail1, fail2) if x)
    proved = set(ctx.assumption_report.keys())
    for th in MANIFEST["theorems"]:
        ctx.obligation(th, th in proved, "" if th in proved else ctx.coq_failure[:600])
    ctx.obligation("Properties/C19.v and Properties/C19_handover.v compile completely (non-vacuity Examples included)", ok,
                   "" if ok else ctx.coq_failure[:600])
    proof_broken = (not ok) or (not gen_ok)
    if tier == "thorough" and ok:
        cok, cout = ctx.coqchk(["Slock.Properties.C19", "Slock.Properties.C19_handover"])
        ctx.obligation("coqchk -o Slock.Properties.C19 Slock.Properties.C19_handover", cok, "" if cok else cout[-600:])
        ctx.notes.append("coqchk: " + " ".join(cout.split())[-400:])

    # 3. harness + server from the checked tree
    moddir = os.path.join(vlib.VERIF, "harness", "client")
    exe = ctx.go_build("c19run", moddir, tags=None)
    with vlib.Lock("go-c19run"):
        rc, tout, _ = vlib.sh(["go", "test", "-count=1", "."], cwd=moddir, timeout=600)
    ctx.obligation("monitor self-tests (harness/client/monitor_test.go: synthetic good/bad histories)", rc == 0, "" if rc == 0 else tout[-800:])
    if rc != 0:
        raise vlib.BuildError("monitor self-tests failed:\n" + tout[-2000:])
    server = ctx.go_build("c19-slock", moddir, tags=None, pkg="github.com/snower/slock")

    # 4. scenarios
    if getattr(ctx, "replay", None):
        d = json.load(open(ctx.replay))            # a replays/C19-*.json file or a corpus/C19/*.json file
        sc = dict((d.get("replay") or d)["params"])
        batches = [[dict(sc, id="replay-%d" % i) for i in range(5)]]
    else:
        batches = plan(ctx, tier)
        cs = corpus_scenarios()
        if cs:
            batches[0] = cs + batches[0]
    per_prim = {}
    all_results, samples = [], []
    fatal = []
    follower_state = set()
    n_viol_raw = 0
    sig_counts = {}
    anomalies = []
    not_reproduced = []
    # quick tier: the batches run in parallel, each on its own server(s) and its own part of the port range
    batch_results = {}
    if tier == "quick" and len(batches) > 1 and not getattr(ctx, "replay", None):
        import concurrent.futures
        span = (PORT_HI - PORT_LO + 1) // len(batches)
        with concurrent.futures.ThreadPoolExecutor(max_workers=len(batches)) as pool:
            futs = {}
            for bi, scs in enumerate(batches):
                need_f = any(s.get("via") == "follower" for s in scs)
                futs[bi] = pool.submit(run_batch, ctx, exe, server, scs, need_f, "batch%d" % bi,
                                       PORT_LO + bi * span, PORT_LO + (bi + 1) * span - 1)
            for bi, f in futs.items():
                batch_results[bi] = f.result()
    for bi, scs in enumerate(batches):
        need_f = any(s.get("via") == "follower" for s in scs)
        if bi in batch_results:
            rc, out, res, dt = batch_results[bi]
        else:
            rc, out, res, dt = run_batch(ctx, exe, server, scs, need_f, "batch%d" % bi)
        if res is None:
            fatal.append("batch %d: harness produced no result (rc=%s): %s" % (bi, rc, out[-800:]))
            ctx.violation("harness:no-result", "c19run died or hung (rc=%s); the runtime check could not be evaluated" % rc,
                          {"batch": bi, "scenarios": scs, "output_tail": out[-2000:]}, found_input=False)
            continue
        if res.get("follower"):
            follower_state.add(res["follower"])
        if res.get("fatal"):
            fatal.append(res["fatal"])
            ctx.violation("server:" + res["fatal"].split(" during ")[0].replace(" ", "-"),
                          "slock server process problem: " + res["fatal"],
                          {"batch": bi, "fatal": res["fatal"], "server_log_tail": res.get("server_log_tail"), "scenarios": scs,
                           "seed": ctx.seed}, found_input=True)
        for r in res.get("results") or []:
            all_results.append(r)
            if r.get("skipped"):
                continue
            p = per_prim.setdefault(r["prim"], {"scenarios": 0, "goroutines_min": 10 ** 9, "goroutines_max": 0, "conns": set(),
                                                "attempts": 0, "acquisitions": 0, "max_concurrency_observed": 0, "limit_values": set(),
                                                "violations": 0, "stale_discarded": 0, "events": 0, "via": set(), "errors": {},
                                                "reconnect_scenarios": 0, "cuts": 0, "extra": {}})
            p["scenarios"] += 1
            p["goroutines_min"] = min(p["goroutines_min"], r["goroutines"])
            p["goroutines_max"] = max(p["goroutines_max"], r["goroutines"])
            p["conns"].add(r["conns"])
            p["attempts"] += r["attempts"]
            p["acquisitions"] += r["acquisitions"]
            p["max_concurrency_observed"] = max(p["max_concurrency_observed"], r["max_concurrency"])
            p["limit_values"].add(r["limit"])
            p["violations"] += r["violations"]
            p["stale_discarded"] += r["stale_discarded"]
            p["events"] += r["events"]
            p["via"].add(r["via"] + ("+proxy" if r.get("proxy") else ""))
            for k, v in (r.get("errors") or {}).items():
                p["errors"][k] = p["errors"].get(k, 0) + v
            ex = r.get("extra") or {}
            if not r.get("proxy"):
                nr = (r.get("errors") or {}).get("timeout", 0)   # client gave up after Timeout+2 s: no reply at all
                lh = ex.get("leftover_holds_after_drain", 0) or 0
                if nr or lh:
                    anomalies.append({"scenario": r["id"], "prim": r["prim"], "goroutines": r["goroutines"], "conns": r["conns"],
                                      "keys": r["keys"], "n": r["n"], "acquire_without_any_reply": nr,
                                      "holds_left_on_server_after_all_released": lh})
            if ex.get("cuts_done"):
                p["reconnect_scenarios"] += 1
                p["cuts"] += ex["cuts_done"]
            for k, v in ex.items():
                if isinstance(v, (int, float)) and k != "cuts_done":
                    if k.startswith("max_") or k.endswith("_at"):
                        p["extra"][k] = max(p["extra"].get(k, 0), v)
                    else:
                        p["extra"][k] = p["extra"].get(k, 0) + v
        for v in res.get("violations") or []:
            n_viol_raw += 1
            sig_counts[v["sig"]] = sig_counts.get(v["sig"], 0) + 1
            if sig_counts[v["sig"]] > 1:
                continue  # one replay file per signature is enough
            prm = v.get("params") or {}
            if prm.get("proxy") and prm.get("cuts") and v["sig"].startswith("monitor:") and not getattr(ctx, "replay", None):
                # a scenario with connection cuts: frames are lost, the client-side ledger of the harness and the server can
                # be decoupled by a lost frame in ways the ledger does not always see, and the schedule is the runtime's.
                # Flakiness policy (DESIGN.md section 10): such a symptom is reported when it reproduces in isolation.
                again = 0
                for i in range(4):
                    rc2, out2, res2, dt2 = run_batch(ctx, exe, server, [dict(prm, id="isol-%d" % i)], prm.get("via") == "follower", "isol%d" % i)
                    if res2 and any(v2["sig"] == v["sig"] for v2 in res2.get("violations") or []):
                        again += 1
                        break
                if not again:
                    not_reproduced.append({"signature": v["sig"], "what": v["what"], "params": prm, "isolated_reruns_without_it": 4,
                                           "history_excerpt": (v.get("history_excerpt") or [])[-24:]})
                    continue
            replay = {"params": v["params"], "seed": ctx.seed, "tier": tier, "what": v["what"],
                      "history_excerpt": v.get("history_excerpt"),
                      "rerun": "python3 tools/check.py C19 --replay <this file>  (re-runs the scenario 5 times; the schedule is the runtime's, so the same interleaving is not guaranteed)"}
            ctx.violation(v["sig"], v["what"], replay, found_input=True)
    for p in per_prim.values():
        for k in ("conns", "limit_values", "via"):
            p[k] = sorted(p[k])
    ran = [r for r in all_results if not r.get("skipped")]
    skipped = [{"id": r["id"], "why": r["skipped"]} for r in all_results if r.get("skipped")]
    samples = [{k: r[k] for k in ("id", "prim", "via", "proxy", "goroutines", "conns", "n", "keys", "attempts", "acquisitions",
                                  "max_concurrency", "limit", "violations")} for r in ran[:14]]

    # 5. a broken proof obligation without a failing input
    if proof_broken and not ctx.violations and not ctx.known_hits:
        ctx.violation("proof:C19", "a C19 theorem or the regenerated parameter table no longer checks and the runtime monitors found no failing history",
                      {"theorems": [n for n, o, _ in ctx.obligations if not o], "coq": getattr(ctx, "coq_failure", "")[:1500],
                       "gen_unsupported": unsupported}, found_input=False)
    elif proof_broken:
        ctx.notes.append("proof obligations broken: " + ", ".join(n for n, o, _ in ctx.obligations if not o))

    ho = [r for r in ran if (r.get("extra") or {}).get("handover_rounds") is not None]
    hsum = lambda k: sum((r.get("extra") or {}).get(k, 0) or 0 for r in ho)
    handover = {
        "scenarios": len(ho), "primitives": sorted({r["prim"] for r in ho}), "via": sorted({r["via"] for r in ho}),
        "rounds": hsum("handover_rounds"), "rounds_confirmed_by_admin_listing": hsum("handover_rounds_confirmed"),
        "rounds_unconfirmed_not_judged": hsum("handover_rounds_unconfirmed"), "rounds_aborted": hsum("handover_rounds_aborted"),
        "waiters_timed_out_while_others_waited": hsum("handover_short_timeouts"), "waiters_cancelled": hsum("handover_cancels"),
        "confirmed_waiters_served": hsum("handover_confirmed_waiters_served"),
        "confirmed_waiters_not_served": hsum("handover_confirmed_waiters_not_served"),
        "timeout0_newcomer_attempts": hsum("handover_newcomer_attempts"), "timeout0_newcomers_granted": hsum("handover_newcomer_granted"),
        "stalls": hsum("handover_stalls"),
        "longest_available_with_confirmed_waiter_us": max([(r.get("extra") or {}).get("max_available_with_waiter_us", 0) or 0 for r in ho] or [0]),
        "bound_ms": 2000,
        "liveness_alarms_first_run": hsum("liveness_alarms_first_run"),
        "liveness_alarms_dropped_not_reproduced": hsum("liveness_alarms_dropped_not_reproduced"),
    }
    if handover["liveness_alarms_dropped_not_reproduced"]:
        ctx.notes.append("liveness alarm(s) not reproduced in two re-runs (machine stall): %d" % handover["liveness_alarms_dropped_not_reproduced"])

    ctx.trusted += [
        "gen/clientparams (Go, go/parser+go/ast): syntactic extraction of the Count/Rcount/flag arguments of the client constructors into coq/Gen/GenClient.v; unsupported expressions become gen_unsupported (theorems stop checking)",
        "coq/Client/Prims.v `admit` is a HAND transcription of LockDB.doLock (server/db.go:2517-2549) without the LESS_LOCK_VERSION flag; its equality with the translator-generated doLock and the refinement to the engine model are the integrator's obligations (C01)",
        "theorems are about the abstract per-key admission model only; request/response matching, timeouts and reconnect logic of client/slock.go, TCP batching, follower forwarding: OBSERVED by the runtime monitors, not proved",
        "runtime monitors (harness/client/scenario.go) and the in-process cutting proxy; goroutine schedules are the Go runtime's (seed fixes parameters only)",
        "holds within 1.5 s of their expiry are discarded by the monitor (the server may have expired them)",
        "coq/Client/WaitQueue.v is a HAND model of one key's wait queue (AddWaitLock / GetWaitLock / doTimeOut and cancelWaitLock waiter branches / wakeUpWaitLocks, server/lock.go + server/db.go) at the abstraction level of Prims.v; tie = the regenerated switches timeout_clears_waited_only_on_empty_queue / cancel_clears_waited_only_on_empty_queue / *_runs_wake_pass (syntactic, gen/clientparams) + the hand-over monitors; that every release/timeout/cancel leaves a wake-up pass pending is the engine-level family C04_*_pending (coq/Properties/C04.v), composed by hypothesis, not imported",
        "liveness monitor (scenario_handover.go): real-time bound 2 s, waiters judged only when the server's own listing (LIST_WAIT; STATE WaitCount for default-clear events) showed exactly the client-side pending long waiters; an alarm is re-run twice and dropped when it does not reproduce",
    ]
    cov = {
        "evaluations": sum(r["attempts"] for r in ran),
        "distinct_nontrivial": sum(r["acquisitions"] for r in ran),
        "rule": "acquire/wait calls that returned ok and entered a monitor as a definite hold / judged wait",
        "samples": samples,
        "scenarios_run": len(ran), "scenarios_skipped": skipped,
        "per_primitive": per_prim,
        "history_events": sum(r["events"] for r in ran),
        "handover": handover,
        "monitor_violations_raw": n_viol_raw, "monitor_violation_signatures": sig_counts,
        "follower": sorted(follower_state) or ["not started in this run"],
        "schedules": "produced by the Go runtime and kernel; VERIF_SEED fixes goroutine counts, connections, n, keys, hold times, priorities, cut times only",
        "fatal": fatal,
        "anomalies_not_counted_as_C19_violations": {
            "what": "acquire calls on an uncut connection that got NO reply within Timeout+2 s (client-side 'timeout') and holds the server still lists after every successful acquire was released; seen only with Semaphore (Release = UnlockHead of a hold that may not be the caller's) on >= 3 connections; safety monitors are unaffected; belongs to C03 (exactly one reply) — see coq/Client/STATUS.md",
            "count": len(anomalies), "first": anomalies[:12]},
        "schedule_events_not_reproduced_in_isolation": {
            "what": "monitor symptoms seen once in a scenario WITH connection cuts that did not recur in 4 isolated re-runs of the same scenario: recorded here, not reported (DESIGN.md section 10, flakiness policy)",
            "count": len(not_reproduced), "events": not_reproduced[:4]},
    }
    assumptions = [
        "a client-side 'definite hold' lasts from the return of a successful acquire to the call of the release; overlap in the global logical clock implies overlap in real time",
        "expiry (expried) and wait timeouts are chosen far above the hold times; holds close to expiry are excluded",
        "PriorityLock waiters count as definitely waiting only once the server's LIST_WAIT reports them queued",
        "hand-over liveness: the primitive counts as available only while fewer actors than the limit can possibly hold it (acquire returned ok and release not yet returned ok, or a non-confirmed acquire in flight); a confirmed waiter is judged only while its own timeout is more than 500 ms away; bound 2 s of real time on a possibly loaded machine",
    ]
    return ctx.finish(cov, assumptions, level="proof")
