"""C15 — key values behave as an atomic register (DESIGN.md section 5 C15).  Engine-level part; the byte-level
value-operation layer is checked by checks/C15_data.py (same property id in its own evidence)."""
import sys, os
from checks import _engine, C15_data, C15_text

MANIFEST = dict(
    technique="Coq proof (refinement of the byte-exact value-operation model to a sequential interpreter; engine-level reply/refusal theorems) + differential correspondence checks (data layer and engine with value frames)",
    text="coq/Properties/C15*.v: for every sequence of constructor-built SET/UNSET/INCR/APPEND/SHIFT/PUSH frames the byte-exact model of ProcessLockData leaves exactly the value the sequential interpreter Spec.apply computes, never panics on the repaired semantics (for arbitrary frames), gated frames change nothing; engine level (coq/Properties/C15.v, any state): replies to a value-carrying lock / unlock / queue grant carry the value from immediately before the operation (named exceptions proved as such), refusals and queued requests leave the value unchanged, a successful request applies process_lock_data exactly once to the key's value and touches no other key. Ties: (i) checks/C15_data.py runs the real ProcessLockData / recover / ack / aof functions and the extracted model on several ten thousand steps per run (count in the evidence); (ii) this check runs whole lock/unlock histories carrying value frames on the real LockDB and on the engine model (which calls the same Data model) and diffs replies' data, stored value bytes, type and isAof after every action. Fix flags of the data model are re-derived from the source text on every run.",
    note="Trusted: Coq kernel; models validated by the two correspondence checks; POP and PIPELINE-as-fold refinement are differential-tested but not proved; Redis-style text commands are decided by the sub-check checks/C15_text.py (coq/Kv: conversion + engine step + result writers composed into kv_step; theorem C15_text_refines_store_partial: replies equal a plain key-value store on the stated fragment; refutations for what lies outside; real TextServerProtocol on a pipe vs the extracted model + dict oracle). Known findings are listed in known_findings/C15_data.json (value layer) and C15_text.json (Redis-style commands).",
)
PROFILES = [("core", 0.5), ("reentrant", 0.3), ("waiters", 0.2)]
MONITORS = ["C15", "PANIC"]


def with_data(r):
    k = r.random()
    v = bytes(r.choice(b"abcxyz01") for _ in range(r.choice([0, 1, 2, 3, 5, 8, 9])))
    props = None if r.random() < 0.8 else [(1, b"k%d" % r.randint(0, 3))]
    fl = 0x20 if r.random() < 0.1 else 0
    if k < 0.3:
        f = C15_data.f_set(v, props, fl)
    elif k < 0.38:
        f = C15_data.f_unset(fl)
    elif k < 0.55:
        f = C15_data.f_incr(r.choice([1, 1, 2, -1, 5, 2 ** 62, -2 ** 63]), props, fl)
    elif k < 0.7:
        f = C15_data.f_append(v, props, fl)
    elif k < 0.78:
        f = C15_data.f_shift(r.choice([0, 1, 2, 3]))
    elif k < 0.9:
        f = C15_data.f_push(v, props, fl)
    elif k < 0.95:
        f = C15_data.f_pop(r.choice([0, 1, 2]))
    else:
        f = C15_data.f_pipeline([C15_data.f_set(v), C15_data.f_append(b"q")])
    return "x" + f.hex()


def run(ctx):
    if getattr(ctx, "replay", None):
        return _engine.replay(ctx, "C15", MONITORS)
    return _engine.run_engine_check(ctx, "C15", PROFILES, MONITORS, n_quick=400, n_thorough=16000, with_data=with_data,
                                    subs=[("C15_data", C15_data), ("C15_text", C15_text)])
