"""C16 — log compaction preserves the recoverable state, even if interrupted.

Obligations : coq/Properties/C16.v (model coq/Aof/Rewrite.v over the file/loader model of C08).
Tie         : the real compaction (RewriteAofFile / rewriteAofFiles / clearRewriteAofFiles) is run on a real in-process
              node; crash points verifPoint(200..211) (proposed_fixes/c16_hooks.diff, applied at build time to a COPY
              of <repo>/server/aof.go unless already committed) copy the data directory synchronously after every
              file-system mutation.  (1) every snapshot is compared BYTE FOR BYTE with the directory the model computes
              after the same prefix of its mutation list (HasLock decisions taken from the real rewrite.aof.tmp);
              (2) monitor: a fresh node started on each snapshot must hold exactly what a node started on the
              pre-compaction image holds (census of holds: key, LockId, depth, Count, Rcount, value).
"""
import json, os, re, shutil, subprocess, tempfile, time
import vlib
from checks import C08 as c8

MANIFEST = {
    "engine": "coq",
    "category": "proof",
    "text": "Coq model of the compaction as an ordered list of file-system mutations over a directory of byte files; "
            "theorem: the uninterrupted compaction hands the engine exactly the HasLock-filtered (REWRITED-marked) "
            "records followed by the untouched newer append files; refutation (vm_compute witness, replayed on the real "
            "code): a crash after the inputs are removed and before rewrite.aof.tmp is renamed loses every compacted hold.",
    "note": "quiescent compactions only (appends concurrent with the rewrite are not modelled); HasLock is a parameter of "
            "the model, its decisions are read back from the real rewrite.aof.tmp in the differential run.",
    "technique": "interactive proof (Coq) + extraction-based differential testing at crash points + runtime monitor",
    "design_ref": "DESIGN.md section 5 C16",
}


def hooked_source(ctx):
    """returns overlay dict; applies the add-only crash-point hooks to a copy of aof.go when they are not in the tree yet"""
    src = open(os.path.join(vlib.REPO, "server", "aof.go")).read()
    ov = {"server/zz_verif_aof.go": "harness/aof/inj/zz_verif_aof.go"}
    if "verifPoint(201)" in src:
        return ov, "hooks present in the tree"
    d = os.path.join(vlib.BUILD, "c16")
    shutil.rmtree(d, ignore_errors=True)
    os.makedirs(os.path.join(d, "server"))
    shutil.copy(os.path.join(vlib.REPO, "server", "aof.go"), os.path.join(d, "server", "aof.go"))
    rc, out, _ = vlib.sh("patch -p1 --no-backup-if-mismatch < %s" % os.path.join(vlib.VERIF, "proposed_fixes", "c16_hooks.diff"), cwd=d, timeout=60)
    if rc != 0:
        raise vlib.BuildError("crash-point hooks (proposed_fixes/c16_hooks.diff) no longer apply to server/aof.go:\n" + out[-1500:])
    ov["server/aof.go"] = "build/c16/server/aof.go"
    return ov, "hooks applied to a build-time copy of server/aof.go (proposed_fixes/c16_hooks.diff)"


def K(i):
    return "%032x" % i


def census(out, prefix="hold"):
    return sorted(re.findall(r"^%s (db=\d+ key=\w+ lockid=\w+ depth=\d+ count=\d+ rcount=\d+) eflag=\d+ locked=\d+ (val=\S+)" % prefix, out, flags=re.M))


def read_dir(d):
    res = {}
    for f in sorted(os.listdir(d)):
        p = os.path.join(d, f)
        if os.path.isfile(p):
            res[f] = open(p, "rb").read()
    return res


def write_dir(d, files):
    shutil.rmtree(d, ignore_errors=True)
    os.makedirs(d)
    for f, b in files.items():
        open(os.path.join(d, f), "wb").write(b)


def show_dir(files):
    return " ".join(sorted("%s=%s" % (f, c8.hx(b)) for f, b in files.items()))


def gen_ops(rng, n, base):
    """lock/unlock requests, every hold persisted immediately (EXPRIED_FLAG_ZEOR_AOF_TIME), some with values"""
    ops, held = [], []
    for i in range(n):
        if held and rng.random() < 0.3:
            k = held.pop(rng.randrange(len(held)))
            ops.append("U:0:%s:%s:0:0:0:0:0:-" % (K(0x1000 + k), K(0x2000 + k)))
        else:
            k = base + i
            data = "-"
            if rng.random() < 0.3:
                data = c8.mkval(bytes([rng.randrange(256) for _ in range(rng.choice([1, 4, 9]))])).hex()
            eflag, exp = rng.choice([(0x0100, 600), (0x0100, 3000), (0x4100, 0xffff), (0x0140, 30)])
            ops.append("L:0:%s:%s:%d:%d:0:0:0:%s" % (K(0x1000 + k), K(0x2000 + k), exp, eflag, data))
            held.append(k)
    return ops


def tmp_records(tmp):
    body = tmp[12:]
    return [body[i:i + 64] for i in range(0, len(body) - 63, 64)]


def run(ctx):
    ok, log = ctx.coq(["Properties/C16.vo"])
    theorems = ["C16_compaction_filters_and_keeps_order", "C16_compaction_preserves_replay", "C16_refuted_crash_before_rename",
                "C16_refuted_value_file_renamed_separately"]
    for th in theorems:
        present = th in ctx.assumption_report
        ctx.obligation(th, ok and present, "" if (ok and present) else getattr(ctx, "coq_failure", "not compiled"))
    if not ok:
        ctx.violation("proof:C16", "a C16 theorem no longer checks", {"broken": "coq", "log": getattr(ctx, "coq_failure", log[-2000:])}, found_input=False)

    ov, hooknote = hooked_source(ctx)
    ctx.notes.append(hooknote)
    aofh = ctx.go_build("aofh16", os.path.join(vlib.VERIF, "harness", "aof"), overlay=ov)
    modelrun = ctx.ocaml_model("aof")
    sw = c8.source_switches(vlib.REPO)
    fxline = "fx %d %d %d %d" % (sw["rl_nerr"], sw["rl_short"], sw["hdr"], sw["trunc"])
    thorough = ctx.tier == "thorough"
    rng = ctx.rng
    base = tempfile.mkdtemp(prefix="aof-c16-", dir="/tmp")
    stats = {"scenarios": 0, "compactions": 0, "snapshots": 0, "dir_mismatch": 0, "census_checked": 0, "hits": {}, "points": {}}
    distinct = set()
    witnesses = {}
    mism = []

    def inst_census(files, tag):
        d = os.path.join(base, "inst-" + tag)
        write_dir(os.path.join(d, "data"), files)
        p = subprocess.run([aofh, "inst", os.path.join(d, "data"), os.path.join(d, "log"), "4096"],
                           stdout=subprocess.PIPE, stderr=subprocess.STDOUT, timeout=60)
        out = p.stdout.decode()
        shutil.rmtree(d, ignore_errors=True)
        return ("init ok" in out), census(out), out

    def check_compaction(name, pre, snaps, rotate, cur):
        """pre: files before; snaps: [(point, files)] in order; compares with the model and runs the monitor"""
        stats["compactions"] += 1
        tmp200 = [f for (pt, f) in snaps if pt == 200]
        live = tmp_records(tmp200[0].get("rewrite.aof.tmp", b"")) if tmp200 else []
        now = int(time.time())
        script = [fxline, "clear"] + ["put %s %s" % (f, c8.hx(b)) for f, b in sorted(pre.items())]
        script.append("compact %d %d %d 4096 %s" % (1 if rotate else 0, cur, now, " ".join(r.hex() for r in live)))
        rc, mout, merr = c8.run_script(modelrun, [], "\n".join(script) + "\n")
        if rc != 0:
            raise vlib.BuildError("modelrun compact failed: " + merr[-800:])
        states = {}
        for l in mout.split("\n"):
            if l.startswith("state "):
                k, rest = l[6:].split(" ", 1)
                files, rec = rest.split(" | ")
                states[int(k)] = (files.strip(), rec.strip())
        # map snapshots to mutation counts
        k = 0
        exp_ok, exp_census, exp_out = inst_census(pre, "pre")
        for (pt, files) in snaps:
            if pt in (0, 210):
                kk = 0
            elif pt == 211:
                k = 2
                kk = k
            elif pt == 200:
                k = (2 if rotate else 0) + 2
                kk = k
            else:
                k += 1
                kk = k
            stats["snapshots"] += 1
            stats["points"][pt] = stats["points"].get(pt, 0) + 1
            got = show_dir(files)
            want = states.get(kk, ("<no state %d>" % kk, ""))[0]
            if got != want:
                stats["dir_mismatch"] += 1
                if len(mism) < 4:
                    mism.append({"scenario": name, "point": pt, "k": kk, "impl": got[:600], "model": want[:600]})
            # monitor: what a restart recovers from this snapshot
            okk, cen, out = inst_census(files, "snap")
            stats["census_checked"] += 1
            distinct.add((name, pt, kk, okk, len(cen)))
            if (not okk) or cen != exp_census:
                if pt in (201, 202):
                    sig = "crash-after-inputs-removed-before-rename"
                    what = "compaction removes its input files before renaming rewrite.aof.tmp into place: a crash in between loses every compacted hold (restart recovers %d of %d holds)" % (len(cen), len(exp_census))
                elif pt == 203:
                    sig = "crash-between-the-two-renames"
                    what = "rewrite.aof and rewrite.aof.dat are renamed separately: a crash in between leaves records whose values are missing (%s)" % ("start fails" if not okk else "restart recovers %d of %d holds" % (len(cen), len(exp_census)))
                else:
                    sig = "compaction-changes-recovered-state:point-%d" % pt
                    what = "restart after crash point %d recovers a different state" % pt
                stats["hits"][sig] = stats["hits"].get(sig, 0) + 1
                if sig not in witnesses:
                    witnesses[sig] = (what, {"scenario": name, "crash_point": pt, "mutations_done": kk,
                                             "pre_image": {f: c8.hx(b) for f, b in pre.items()},
                                             "crash_image": {f: c8.hx(b) for f, b in files.items()},
                                             "expected_census": exp_census, "observed_census": cen, "init_ok": okk})

    try:
        nsc = 20 if thorough else 4
        for si in range(nsc):
            stats["scenarios"] += 1
            d = os.path.join(base, "s%d" % si)
            os.makedirs(os.path.join(d, "data"))
            ops = []
            nrot = rng.choice([1, 2, 3])
            for r in range(nrot):
                ops += gen_ops(rng, rng.choice([2, 4, 7]), 100 * r) + ["settle", "rotate"]
            p = subprocess.run([aofh, "compact", os.path.join(d, "data"), os.path.join(d, "log"), "4096", "0", os.path.join(d, "snap"), "0"] + ops,
                               stdout=subprocess.PIPE, stderr=subprocess.STDOUT, timeout=120)
            out = p.stdout.decode()
            if "census-end" not in out:
                raise vlib.BuildError("aofh compact failed: " + out[-1500:])
            curs = [int(x) for x in re.findall(r"^cur (\d+)", out, flags=re.M)][1:]
            names = sorted(os.listdir(os.path.join(d, "snap")))
            groups, curg = [], None
            for nme in names:
                pt = int(nme.split("-")[1])
                files = read_dir(os.path.join(d, "snap", nme))
                if pt == 0:
                    curg = {"pre": files, "snaps": []}
                    groups.append(curg)
                curg["snaps"].append((pt, files))
            for gi, g in enumerate(groups):
                check_compaction("s%d.rot%d" % (si, gi), g["pre"], g["snaps"], True, curs[gi])
            # start-up compaction on a multi-file directory built from the last pre-clear snapshot of this scenario
            cand = [f for g in groups for (pt, f) in g["snaps"] if pt == 211]
            if cand:
                files = dict(cand[-1])
                d2 = os.path.join(base, "s%d-start" % si)
                write_dir(os.path.join(d2, "data"), files)
                p = subprocess.run([aofh, "compact", os.path.join(d2, "data"), os.path.join(d2, "log"), "4096", "0", os.path.join(d2, "snap"), "1"],
                                   stdout=subprocess.PIPE, stderr=subprocess.STDOUT, timeout=120)
                out2 = p.stdout.decode()
                sn = []
                if os.path.isdir(os.path.join(d2, "snap")):
                    for nme in sorted(os.listdir(os.path.join(d2, "snap"))):
                        sn.append((int(nme.split("-")[1]), read_dir(os.path.join(d2, "snap", nme))))
                cur2 = max(int(f.split(".")[2]) for f in files if re.fullmatch(r"append\.aof\.\d+", f))
                if sn:
                    check_compaction("s%d.startup" % si, files, sn, False, cur2)
            shutil.rmtree(d, ignore_errors=True)
        # start-up compaction on hand-built directories: an existing rewrite file plus 1..4 append files
        for bi in range(8 if thorough else 3):
            now = int(time.time())
            nfiles = rng.choice([1, 2, 3, 4]) if bi else 4
            first = rng.choice([1, 2, 7])
            files, n, locked = {}, 0, []
            hdr = b"SLOCKAOF\x01\x00\x00\x00"

            def lockrec(idx, off, k, typ=1, val=None):
                return c8.mkrec(None, typ, bytes.fromhex(K(0x3000 + k)), bytes.fromhex(K(0x4000 + k)), flag=(0x2000 if val else 0),
                                eflag=0x4100, et=0xffff, ct=now, idx=idx, off=off)
            body, dat = b"", b""
            for j in range(rng.choice([0, 2, 3])):
                n += 1
                v = c8.mkval(bytes([n, 7])) if rng.random() < 0.4 else None
                r = bytearray(lockrec(0, j + 1, n, val=v))
                r[55] |= 1
                body += bytes(r)
                dat += v or b""
                locked.append(n)
            if body or rng.random() < 0.5:
                files["rewrite.aof"], files["rewrite.aof.dat"] = hdr + body, dat
            for fi in range(first, first + nfiles):
                body, dat = b"", b""
                for j in range(rng.choice([0, 1, 3, 5]) if fi < first + nfiles - 1 else rng.choice([0, 2])):
                    if locked and rng.random() < 0.3:
                        k = locked.pop(rng.randrange(len(locked)))
                        body += lockrec(fi, j + 1, k, typ=2)
                    else:
                        n += 1
                        v = c8.mkval(bytes([n, 9, 9])) if rng.random() < 0.4 else None
                        body += lockrec(fi, j + 1, n, val=v)
                        dat += v or b""
                        locked.append(n)
                files["append.aof.%d" % fi], files["append.aof.%d.dat" % fi] = hdr + body, dat
            stats["scenarios"] += 1
            d2 = os.path.join(base, "b%d" % bi)
            write_dir(os.path.join(d2, "data"), files)
            p = subprocess.run([aofh, "compact", os.path.join(d2, "data"), os.path.join(d2, "log"), "4096", "0", os.path.join(d2, "snap"), "1"],
                               stdout=subprocess.PIPE, stderr=subprocess.STDOUT, timeout=120)
            sn = []
            if os.path.isdir(os.path.join(d2, "snap")):
                for nme in sorted(os.listdir(os.path.join(d2, "snap"))):
                    sn.append((int(nme.split("-")[1]), read_dir(os.path.join(d2, "snap", nme))))
            stats.setdefault("built_dirs", []).append({"append_files": nfiles, "rewrite": "rewrite.aof" in files, "snapshots": len(sn)})
            if sn:
                check_compaction("built%d" % bi, files, sn, False, first + nfiles - 1)
            shutil.rmtree(d2, ignore_errors=True)
    finally:
        shutil.rmtree(base, ignore_errors=True)

    ctx.obligation("model directory = implementation directory at every crash point (byte for byte)", not mism, json.dumps(mism)[:1500] if mism else "")
    for sig, (what, replay) in witnesses.items():
        ctx.violation(sig, what, replay, found_input=True)
    if mism:
        ctx.violation("correspondence:C16", "model and implementation directories differ at a crash point",
                      {"broken": "correspondence coq/Aof/Rewrite.v vs server/aof.go", "first": mism}, found_input=False)

    cov = {
        "evaluations": stats["snapshots"],
        "distinct_nontrivial": len(distinct),
        "rule": "distinct (scenario, crash point, #mutations done, start ok, #holds recovered)",
        "samples": ["%d scenarios, %d compactions" % (stats["scenarios"], stats["compactions"])],
        "scenarios": stats["scenarios"], "compactions": stats["compactions"], "snapshots": stats["snapshots"],
        "crash_points": stats["points"], "dir_mismatches": stats["dir_mismatch"], "census_checked": stats["census_checked"],
        "monitor_hits": stats["hits"], "source_switches": sw, "built_directories": stats.get("built_dirs", []),
    }
    ctx.trusted += [
        "crash points: add-only verifPoint(200..211) calls (proposed_fixes/c16_hooks.diff) " + hooknote,
        "HasLock (db.go) is a parameter of the model; in the differential run its decisions are read back from the real rewrite.aof.tmp",
        "OS model: rename/remove atomic, no reordering of completed syscalls, fsync not modelled; tmp-file writes are one mutation (the tmp file is never read by a restart)",
        "quiescent compactions only: appends concurrent with loadRewriteAofFiles are not modelled (partial)",
        "extraction: ExtrOcamlBasic only; ocaml/aof/driver.ml",
    ]
    return ctx.finish(cov, ["compaction starts at a quiescent moment (persistence queue drained, buffers flushed)",
                            "crash = prefix of the ordered list of file-system mutations"])
