"""C16 — log compaction preserves the recoverable state, even if interrupted, also at a busy moment.

Obligations : coq/Properties/C16.v (model coq/Aof/Rewrite.v over the file/loader model of C08).
Tie         : the real compaction (RewriteAofFile / rewriteAofFiles / clearRewriteAofFiles) is run on a real in-process
              node with a MANUAL clock; crash points verifPoint(200..211) (committed in <repo>/server/aof.go, else
              proposed_fixes/c16_hooks.diff is applied at build time to a COPY) copy the data directory synchronously
              after every file-system mutation, point 299 = after the compaction has returned.
              (1) quiescent compactions (2-3 in a row in one process, start-up compactions in restart chains, hand-built
                  directories): every snapshot is compared BYTE FOR BYTE with the directory the model computes after the
                  same prefix of its mutation list (HasLock decisions taken from the real rewrite.aof.tmp);
              (2) monitor: a fresh node started on each snapshot must hold exactly what a node started on the
                  pre-compaction image holds (census of holds: key, LockId, depth, Count, Rcount, value, re-armed
                  deadline to the second);
              (3) busy compactions (`aofh script`): a compaction is PARKED at a crash point; while it is parked further
                  requests are appended and a second compaction is requested (RewriteAofFile(true) directly, through the
                  admin guard, or by the size threshold inside PushLock); reference = the same history run in a second
                  process that never compacts; every snapshot (crash points, completion, marks, final directory) must
                  recover to the reference census of its history prefix; the flags isRewriting/isWaitRewite read from the
                  real Aof struct and the start/drop outcome of every request are compared with the extracted guard state
                  machine (source switch: the entry guard of rewriteAofFiles tests isRewriting); the footprint files of
                  the parked compaction are compared byte for byte with the model;
              (4) second generation: a node with start-up compaction is run on crash images / final directories and the
                  directory it leaves is restarted again.
"""
import hashlib, json, os, re, shutil, subprocess, tempfile, time
from concurrent.futures import ThreadPoolExecutor
import vlib
from checks import C08 as c8

MANIFEST = {
    "engine": "coq",
    "category": "proof",
    "text": "Coq model of the compaction as an ordered list of file-system mutations over a directory of byte files plus "
            "the entry guard of rewriteAofFiles as a state machine over isRewriting/isWaitRewite. Theorems: the compacted "
            "file hands the engine exactly the HasLock-filtered (REWRITED-marked) records in order; for every request "
            "sequence at most one compaction is active, a request while one runs changes nothing, compactions start only "
            "after the previous has returned; appends never go to an input file and every interleaving of a compaction "
            "with concurrent appends/rotations (and every crash image of it) equals the quiescent compaction (crash "
            "image) with the appends on top, also for what a restart recovers. Refutation (vm_compute witness, replayed "
            "on the real code): a crash after the inputs are removed and before rewrite.aof.tmp is renamed loses every "
            "compacted hold.",
    "note": "HasLock is a parameter of the model (decisions read back from the real rewrite.aof.tmp in the differential "
            "run); the directory-level equation recover(compact d) = kept ++ newer files and requests interleaved with "
            "the SCAN (no crash point inside loadRewriteAofFiles) are differential-only.",
    "technique": "interactive proof (Coq) + extraction-based differential testing at crash points with parked "
                 "compactions + runtime monitor against a never-compacting reference run",
    "design_ref": "DESIGN.md section 5 C16",
}

ENV = dict(os.environ, AOFH_MANUAL_CLOCK="1")
THEOREMS = ["C16_compaction_filters_and_keeps_order", "C16_compaction_preserves_replay", "C16_refuted_crash_before_rename",
            "C16_refuted_value_file_renamed_separately", "C16_at_most_one_compaction", "C16_request_while_rewriting_is_dropped",
            "C16_compactions_start_after_the_previous_finished", "C16_guard_on_other_flag_overlaps",
            "C16_appends_avoid_the_compaction_inputs", "C16_busy_compaction_is_quiescent_compaction_plus_appends"]


def hooked_source(ctx):
    """returns overlay dict; applies the add-only crash-point hooks to a copy of aof.go when they are not in the tree yet"""
    src = open(os.path.join(vlib.REPO, "server", "aof.go")).read()
    ov = {"server/zz_verif_aof.go": "harness/aof/inj/zz_verif_aof.go"}
    if "verifPoint(201)" in src:
        return ov, "hooks present in the tree"
    d = os.path.join(vlib.BUILD, "c16")
    shutil.rmtree(d, ignore_errors=True)
    os.makedirs(os.path.join(d, "server"))
    shutil.copy(os.path.join(vlib.REPO, "server", "aof.go"), os.path.join(d, "server", "aof.go"))
    rc, out, _ = vlib.sh("patch -p1 --no-backup-if-mismatch < %s" % os.path.join(vlib.VERIF, "proposed_fixes", "c16_hooks.diff"), cwd=d, timeout=60)
    if rc != 0:
        raise vlib.BuildError("crash-point hooks (proposed_fixes/c16_hooks.diff) no longer apply to server/aof.go:\n" + out[-1500:])
    ov["server/aof.go"] = "build/c16/server/aof.go"
    return ov, "hooks applied to a build-time copy of server/aof.go (proposed_fixes/c16_hooks.diff)"


def startup_compaction(ctx, ov, runs):
    """the start-up compaction of LoadAndInit must not run before every replayed record is applied (fixed 037cad8:
    WaitFlushAofChannel returned while a signalled log channel still had queued records).  Implementation only,
    schedule-dependent: a directory with 16000 persisted holds is restarted 12 times per run with GOMAXPROCS=2 and
    rewrite.aof is measured after each start-up compaction."""
    mod = os.path.join(vlib.VERIF, "harness", "aof")
    ovj = {"Replace": {os.path.join(vlib.REPO, k): os.path.join(vlib.VERIF, v) for k, v in ov.items()}}
    ovj["Replace"][os.path.join(vlib.REPO, "server", "zz_verif_c16_startup_test.go")] = os.path.join(mod, "startup", "zz_verif_c16_startup_test.go.txt")
    ovp = os.path.join(vlib.BUILD, "c16-startup.overlay.json")
    os.makedirs(vlib.BUILD, exist_ok=True)
    json.dump(ovj, open(ovp, "w"))
    res = {"runs": 0, "ran": False, "restarts_ok": 0}
    for i in range(runs):
        rc, out, dt = vlib.sh(["go", "test", "-tags", "verif", "-vet=off", "-v", "-count=1", "-timeout", "8m", "-overlay", ovp, "-run", "TestC16StartupCompactionNoHookDemo$",
                               "github.com/snower/slock/server"], cwd=mod, timeout=600, env={"GOMAXPROCS": "2"})
        res["runs"] += 1
        res["restarts_ok"] += len(re.findall(r"^restart \d+: .* has 16000 records", out, flags=re.M))
        m = re.search(r"C16 VIOLATED[^\n]*", out)
        if m:
            res["violated"], res["output"], res["ran"] = m.group(0), out, True
            break
        if rc != 0:
            res["error"] = out[-800:]
            return res
        res["ran"] = True
    return res


def guard_switch(repo):
    """source switch of the guard state machine: which flag does the entry guard of rewriteAofFiles test?"""
    src = open(os.path.join(repo, "server", "aof.go")).read()
    m = re.search(r"\nfunc \(self \*Aof\) rewriteAofFiles\(\) \{\s*self\.glock\.Lock\(\)\s*if self\.(\w+) \{\s*self\.glock\.Unlock\(\)\s*return\s*\}\s*"
                  r"self\.isWaitRewite = false\s*self\.isRewriting = true\s*self\.glock\.Unlock\(\)", src)
    return m.group(1) if m else None


def tmp_switch(repo):
    """source switch of build_tmp_v: does loadRewriteAofFiles remove a left-over rewrite.aof.tmp before it opens (append mode) it?"""
    src = open(os.path.join(repo, "server", "aof.go")).read()
    m = re.search(r"\nfunc \(self \*Aof\) loadRewriteAofFiles\(.*?\n}\n", src, flags=re.S)
    body = m.group(0) if m else ""
    i, j = body.find('os.Remove(filepath.Join(self.dataDir, "rewrite.aof.tmp"))'), body.find("rewriteAofFile.Open()")
    k = body.find('os.Remove(filepath.Join(self.dataDir, "rewrite.aof.tmp.dat"))')
    return 0 <= i < j and 0 <= k < j


def K(i):
    return "%032x" % i


HOLD_RE = re.compile(r"^hold (db=\d+ key=\w+ lockid=\w+ depth=\d+ count=\d+ rcount=\d+) eflag=(\d+) locked=\d+ (val=\S+)(?: deadline=(-?\d+) now=(-?\d+))?", re.M)


def census(out):
    """[(core, val, eflag, deadline, now)] sorted"""
    return sorted((m[0], m[2], int(m[1]), int(m[3] or 0), int(m[4] or 0)) for m in HOLD_RE.findall(out))


FOREVER = 0x7fffffffffffffff


def minute_grain(x):
    """holds whose deadline is re-armed from the restart's own clock with a granularity of a minute: MINUTE-unit terms, and
    terms `unlimited, 0xffff` with a finite deadline (an update of that kind KEEPS the deadline, which may come from a
    minute-unit record)"""
    return bool(x[2] & 0x0040) or (bool(x[2] & 0x4000) and x[3] != FOREVER)


def census_equal(a, b):
    """same holds, depths, terms, values and deadlines (to the second; minute-grain deadlines: tolerance one minute + the
    distance of the two restarts)"""
    if len(a) != len(b):
        return False
    for x, y in zip(a, b):
        if x[0] != y[0] or x[1] != y[1] or x[2] != y[2]:
            return False
        if minute_grain(x) and minute_grain(y):
            if abs((x[3] - x[4]) - (y[3] - y[4])) > 60 + abs(x[4] - y[4]):
                return False
        elif x[3] != y[3]:
            return False
    return True


def census_show(c):
    return ["%s %s eflag=%d deadline=%d" % (x[0], x[1], x[2], x[3]) for x in c]


def read_dir(d):
    res = {}
    for f in sorted(os.listdir(d)):
        p = os.path.join(d, f)
        if os.path.isfile(p):
            res[f] = open(p, "rb").read()
    return res


def write_dir(d, files):
    shutil.rmtree(d, ignore_errors=True)
    os.makedirs(d)
    for f, b in files.items():
        open(os.path.join(d, f), "wb").write(b)


def show_dir(files):
    return " ".join(sorted("%s=%s" % (f, c8.hx(b)) for f, b in files.items()))


def local_file(name, cur):
    """coq/Aof/Rewrite.v local_file: footprint of a compaction started while append.aof.<cur> was the current file"""
    m = re.fullmatch(r"append\.aof\.(\d+)(\.dat)?", name)
    return int(m.group(1)) < cur if m else name.startswith("rewrite.aof")


class Gen:
    """workload generator: new holds (some re-entrant capable: Rcount>=1, some shared: Count>=1, some with values), re-entrant
    re-locks, LOCK_FLAG_UPDATE_WHEN_LOCKED updates with new Expried/Rcount/Count(/value), partial and full unlocks.  Every
    hold is persisted immediately (EXPRIED_FLAG_ZEOR_AOF_TIME)."""
    TERMS = [(3000, 0x0100), (7000, 0x0100), (20000, 0x0100), (0xffff, 0x4100), (60, 0x0140)]

    def __init__(self, rng):
        self.rng, self.n, self.holds = rng, 0, {}
        # terms that are over for the loader while the hold lives on (600 s with the scripted clock 1000 s behind the wall
        # clock) are NOT generated: the loader's per-record expiry filter then decides what a restart recovers (C07); two
        # such histories are in corpus/C16 (known findings)
        self.terms = self.TERMS
        self.kinds = {}

    def val(self):
        return c8.mkval(bytes([self.rng.randrange(256) for _ in range(self.rng.choice([1, 4, 9]))])).hex()

    def op(self, typ, k, lid, exp, eflag, count, rcount, flag, data="-"):
        return "%s:0:%s:%s:%d:%d:%d:%d:%d:%s" % (typ, K(0x1000 + k), K(0x2000 + lid), exp, eflag, count, rcount, flag, data)

    def step(self):
        rng, h = self.rng, self.holds
        r = rng.random()
        ids = sorted(h)
        kind = "new"
        if ids and r < 0.17:
            cand = [i for i in ids if h[i]["depth"] <= h[i]["rcount"]]
            if cand:
                kind = "relock"
        elif ids and r < 0.34:
            kind = "update"
        elif ids and r < 0.44:
            if [i for i in ids if h[i]["depth"] > 1]:
                kind = "partial"
        elif ids and r < 0.62:
            kind = "unlock"
        elif ids and r < 0.67:
            if [i for i in ids if h[i]["count"] > 0]:
                kind = "share"
        self.kinds[kind] = self.kinds.get(kind, 0) + 1
        if kind == "new":
            self.n += 1
            k = self.n
            exp, eflag = rng.choice(self.terms)
            t = {"k": k, "depth": 1, "rcount": rng.choice([0, 0, 1, 2, 3]), "count": rng.choice([0, 0, 0, 2]), "exp": exp, "eflag": eflag}
            h[k] = t
            return self.op("L", k, k, exp, eflag, t["count"], t["rcount"], 0, self.val() if rng.random() < 0.3 else "-")
        if kind == "share":
            i = rng.choice([i for i in ids if h[i]["count"] > 0])
            self.n += 1
            t = dict(h[i], depth=1)
            h[self.n] = t
            return self.op("L", t["k"], self.n, t["exp"], t["eflag"], t["count"], t["rcount"], 0)
        if kind == "relock":
            i = rng.choice([i for i in ids if h[i]["depth"] <= h[i]["rcount"]])
            t = h[i]
            t["depth"] += 1
            if rng.random() < 0.5:
                t["exp"], t["eflag"] = rng.choice(self.terms)
            return self.op("L", t["k"], i, t["exp"], t["eflag"], t["count"], t["rcount"], 0)
        if kind == "update":
            i = rng.choice(ids)
            t = h[i]
            t["exp"], t["eflag"] = rng.choice([x for x in self.terms if x != (t["exp"], t["eflag"])])
            t["rcount"] = rng.choice([0, 1, 2, 3, 5])
            if rng.random() < 0.3:
                t["count"] = t["count"] + 1
            withval = rng.random() < 0.25
            return self.op("L", t["k"], i, t["exp"], t["eflag"], t["count"], t["rcount"], 0x02, self.val() if withval else "-")
        if kind == "partial":
            i = rng.choice([i for i in ids if h[i]["depth"] > 1])
            t = h[i]
            t["depth"] -= 1
            return self.op("U", t["k"], i, 0, 0, 0, 1, 0)
        i = rng.choice(ids)
        t = h.pop(i)
        return self.op("U", t["k"], i, 0, 0, 0, 0, 0)

    def ops(self, n):
        return [self.step() for _ in range(n)]


def aof_names(files):
    """load order: rewrite.aof, then the append files by index"""
    return (["rewrite.aof"] if "rewrite.aof" in files else []) + \
        sorted([f for f in files if re.fullmatch(r"append\.aof\.\d+", f)], key=lambda f: int(f.split(".")[2]))


def parse_raw(files):
    """[{file, raw (64 bytes), val (value frame or None)}] in load order"""
    res = []
    for f in aof_names(files):
        body, dat, pos = files[f][12:], files.get(f + ".dat", b""), 0
        for i in range(0, len(body) - 63, 64):
            x = body[i:i + 64]
            val = None
            if int.from_bytes(x[55:57], "little") & 0x2000 and pos + 4 <= len(dat):
                n = int.from_bytes(dat[pos:pos + 4], "little")
                val = dat[pos:pos + 4 + n]
                pos += 4 + n
            res.append({"file": f, "raw": x, "val": val})
    return res


def rec_proj(r):
    """a record without what differs between two runs of the same history: AofOffset/AofIndex and the REWRITED mark"""
    x = r["raw"]
    return (x[:3] + x[11:55] + bytes([x[55] & 0xfe]) + x[56:], r["val"])


def rec_key(r):
    return r["raw"][37:53].hex()


def rec_lid(r):
    return r["raw"][21:37].hex()


def restrict_dir(files, recs, keep):
    """the directory <files> with only the records recs[i], i in keep (same file names, values re-packed)"""
    out = {}
    for f in aof_names(files):
        out[f], out[f + ".dat"] = files[f][:12], b""
    for i, r in enumerate(recs):
        if i in keep:
            out[r["file"]] += r["raw"]
            out[r["file"] + ".dat"] += r["val"] or b""
    return out


def census_by_key(c):
    res = {}
    for x in c:
        res.setdefault(re.search(r"key=(\w+)", x[0]).group(1), []).append(x)
    return res


SIGS = {
    "value": ("value-written-by-a-released-holder-of-a-shared-key-is-dropped",
              "the compaction drops the lock/update record that carried the current value of a shared key because the lock id that wrote it holds nothing any more; "
              "the remaining holders' older records carry the older value: after a restart key %s has its previous value"),
    "deadline": ("deadline-kept-by-an-update-changes-when-the-update-that-set-it-is-dropped",
                 "an update with EXPRIED_FLAG_UNLIMITED_EXPRIED_TIME and Expried 0xffff changes Count/Rcount and KEEPS the deadline the hold has; the compaction keeps "
                 "that record (its terms are the current ones) and drops the earlier update that had set the deadline: after a restart a hold of key %s has another deadline"),
    "outdated": ("update-record-with-outdated-value-is-dropped",
                 "HasLock rejects the update record that carries a holder's CURRENT Count/Rcount when the record is of the `unlimited, Expried 0xffff` kind and the value "
                 "stored with it is no longer the key's value (another holder of the shared key has set a new one): after compaction + restart the holder has the terms of "
                 "its older record (key %s: Count falls back, holders that joined since are refused at replay, the value is the old one)"),
    "sharer": ("sharer-lost-when-the-update-that-raised-Count-is-dropped",
               "a holder changed the terms of its (shared) key by an update, another lock id joined the key under those terms, the first holder updated again: the compaction "
               "keeps only the LAST update record of the first holder (HasLock compares with the current terms), which comes after the joiner's LOCK record in the log; at "
               "replay the joiner's record meets the older terms: a hold of key %s is lost"),
    "expired-first": ("hold-lost-after-expired-first-record-and-dropped-update",
                      "a hold whose first LOCK record is over for the loader (its term was extended by an update, then the hold was re-entered and partially released): "
                      "the compaction drops the update record as superseded by the re-entrant LOCK record; the un-compacted log recovers the hold because the update record "
                      "stands in for the skipped LOCK record, the compacted one is a level short and the partial UNLOCK releases it: the hold of key %s is lost"),
    "ghost": ("uncompacted-log-resurrects-a-released-hold",
              "the un-compacted log brings back a hold that was released: the hold's term was shortened by an update, its UNLOCK record carries the short term and "
              "is skipped by the loader's expiry filter once that term is over, the older LOCK record with the long term is loaded; the compaction (correctly) drops "
              "all of them, so a restart recovers a hold of key %s only from the files the compaction replaced"),
}


def attribute(ref_files, img_files, exp_census, cen, restart, now):
    """Root cause of a snapshot that recovers to another state than its reference, decided from the HISTORY of each
    differing key, independent of the scenario that produced it.  For every key on which the two censuses differ:
      * the key's records in the reference (load order) and in the snapshot are compared as multisets (ids and the
        REWRITED mark ignored): the snapshot must have no record the reference lacks; `dropped` = what the compaction
        removed;
      * the key is replayed IN ISOLATION on the real code (restart = a fresh node on a directory that contains only
        that key's records): all reference records must give the key's expected holds, the reference records without
        `dropped` must give the observed ones (so the difference is a function of the dropped records of this key);
      * culprits = the dropped records that are NECESSARY: putting all dropped records back except that one does not
        give the expected holds (checked again: the culprits alone, put back, do);
      * every culprit must be a record of one of the recorded kinds (known_findings/C16.json), judged from the record
        itself and the key's history.
    Returns [(signature, text)] (one per root cause involved), or a string saying why the difference is not (completely)
    explained => a new violation."""
    a, b = census_by_key(exp_census), census_by_key(cen)
    keys = sorted(k for k in set(a) | set(b) if not census_equal(a.get(k, []), b.get(k, [])))
    if not keys:
        return "no differing key"
    ref_all, img_all = parse_raw(ref_files), parse_raw(img_files)
    causes = {}
    for k in keys:
        ref_k = [r for r in ref_all if rec_key(r) == k]
        img_k = [r for r in img_all if rec_key(r) == k]
        pool = [rec_proj(r) for r in img_k]
        dropped = []
        for i, r in enumerate(ref_k):
            pr = rec_proj(r)
            if pr in pool:
                pool.remove(pr)
            else:
                dropped.append(i)
        if pool or not dropped:
            return "key %s: %d records in the snapshot that the reference history lacks, %d dropped" % (k, len(pool), len(dropped))
        everything = set(range(len(ref_k)))

        def replay(keep):
            ok, c, _ = restart(restrict_dir(ref_files, ref_k, keep))
            return c if ok else None

        def same(c, want):
            return c is not None and census_equal(c, want)
        if not same(replay(everything), a.get(k, [])) or not same(replay(everything - set(dropped)), b.get(k, [])):
            return "key %s: replayed in isolation the key's records do not give its expected / observed holds" % k
        needed = [i for i in dropped if not same(replay(everything - {i}), a.get(k, []))]
        if not needed or not same(replay((everything - set(dropped)) | set(needed)), a.get(k, [])):
            needed = list(dropped)                      # alternatives among the dropped records: greedy minimisation
            for i in list(dropped):
                if same(replay((everything - set(dropped)) | (set(needed) - {i})), a.get(k, [])):
                    needed.remove(i)
        live = set(re.search(r"lockid=(\w+)", x[0]).group(1) for x in a.get(k, []))
        expval = a[k][0][1] if a.get(k) else None
        kinds = set()
        for i in needed:
            x, lid = ref_k[i]["raw"], rec_lid(ref_k[i])
            later = [r for r in ref_k[i + 1:] if rec_lid(r) == lid]
            mine = [r for r in ref_k if rec_lid(r) == lid]
            is_update = x[2] == 1 and bool(x[19] & 0x02)
            keep_kind = bool(int.from_bytes(x[59:61], "little") & 0x4000) and x[57:59] == b"\xff\xff"
            released_unseen = mine[-1]["raw"][2] == 2 and mine[-1]["raw"][63] == 0 and c8.expired(mine[-1]["raw"], now)
            if lid in live and x[2] == 1 and released_unseen:
                kinds.add("ghost")                       # the lock id was released; the loader skips the UNLOCK record
            elif lid not in live:
                kinds.add("released")                    # a record of a lock id that holds nothing any more
            elif is_update and any(r["raw"][2] == 1 for r in later):
                hist = []                                # this lock id's records since its last full release
                for r in mine:
                    hist = [] if (r["raw"][2] == 2 and r["raw"][63] == 0) else hist + [r]
                if hist and hist[0]["raw"][2] == 1 and c8.expired(hist[0]["raw"], now):
                    kinds.add("superseded-update-after-expired-first-record")
                else:
                    kinds.add("superseded-update")       # a later LOCK/update record of the same lock id exists
            elif is_update and keep_kind and ref_k[i]["val"] is not None and expval is not None and "val=" + ref_k[i]["val"].hex() != expval:
                kinds.add("outdated-value-update")
            else:
                return "key %s: necessary dropped record of no recorded kind (e.g. the CURRENT update record of a live hold): %s" % (k, x.hex())
        ea, eb = a.get(k, []), b.get(k, [])
        terms_equal = len(ea) == len(eb) and all(x[0] == y[0] and x[2] == y[2] for x, y in zip(ea, eb))
        if kinds == {"ghost"} or kinds == {"ghost", "released"}:
            cause = "ghost"
        elif kinds == {"released"}:
            writer = any(ref_k[i]["raw"][2] == 1 and ref_k[i]["val"] is not None and "val=" + ref_k[i]["val"].hex() == expval for i in needed)
            cause = "value" if (writer and terms_equal and all(census_equal([x[:1] + y[1:2] + x[2:]], [y]) for x, y in zip(ea, eb))) else None
        elif kinds == {"superseded-update"}:
            culprit_lids = set(rec_lid(ref_k[i]) for i in needed)
            if terms_equal and all(x[1] == y[1] for x, y in zip(ea, eb)):
                cause = "deadline"                       # only deadlines differ
            elif len(eb) < len(ea) and all(any(census_equal([x], [y]) for x in ea) for y in eb) and \
                    any(re.search(r"lockid=(\w+)", x[0]).group(1) not in culprit_lids for x in ea if not any(x[0] == y[0] for y in eb)):
                cause = "sharer"                         # a hold of ANOTHER lock id is missing
            else:
                cause = None
        elif kinds == {"superseded-update-after-expired-first-record"}:
            cause = "expired-first"
        elif kinds == {"outdated-value-update"}:
            cause = "outdated"
        else:
            cause = None
        if cause is None:
            return "key %s: dropped records of kind %s, but the effect matches no recorded root cause" % (k, sorted(kinds))
        causes.setdefault(cause, k)
    return [(SIGS[c][0], SIGS[c][1] % k) for c, k in sorted(causes.items())]


def dir_diff(got, want):
    """first differing files of two `name=hex` listings"""
    a, b = dict(x.split("=", 1) for x in got.split(" ") if "=" in x), dict(x.split("=", 1) for x in want.split(" ") if "=" in x)
    res = []
    for f in sorted(set(a) | set(b)):
        if a.get(f) != b.get(f):
            x, y = a.get(f, "<absent>"), b.get(f, "<absent>")
            i = next((i for i in range(min(len(x), len(y))) if x[i] != y[i]), min(len(x), len(y)))
            res.append({"file": f, "impl_len": len(x) // 2, "model_len": len(y) // 2, "first_diff_at_byte": i // 2,
                        "impl": x[max(0, i - 16):i + 128], "model": y[max(0, i - 16):i + 128]})
    return res[:3]


def tmp_records(tmp):
    body = tmp[12:]
    return [body[i:i + 64] for i in range(0, len(body) - 63, 64)]


def rewrite_guard_events(events):
    """harness event lines -> (model event letters, expectations per letter)"""
    evs, exp = [], []
    for e in events:
        t = e.split()
        kv = dict(x.split("=", 1) for x in t if "=" in x)
        if t[0] == "trigger":
            out = kv["outcome"]
            if out in ("parked", "completed"):
                evs.append("R")
                exp.append(("started", None if out == "completed" else kv["after"], e))
                if out == "completed":
                    evs.append("F")
                    exp.append(("finished", kv["after"], e))
            else:
                evs.append("R")
                exp.append(("-", kv["after"], e))
        elif t[0] == "resumed" and kv.get("was_parked") == "true":
            evs.append("F")
            exp.append(("finished", kv["after"], e))
    return evs, exp


def run(ctx):
    ok, log = ctx.coq(["Properties/C16.vo"])
    for th in THEOREMS:
        present = th in ctx.assumption_report
        ctx.obligation(th, ok and present, "" if (ok and present) else getattr(ctx, "coq_failure", "not compiled"))
    if not ok:
        ctx.violation("proof:C16", "a C16 theorem no longer checks", {"broken": "coq", "log": getattr(ctx, "coq_failure", log[-2000:])}, found_input=False)

    gflag = guard_switch(vlib.REPO)
    gsw = 1 if gflag == "isRewriting" else 0
    ctx.notes.append("source switch: the entry guard of rewriteAofFiles tests self.%s" % gflag)
    ctx.obligation("source switch: the entry guard of rewriteAofFiles tests isRewriting (the variant C16_at_most_one_compaction is about)",
                   gflag == "isRewriting", "" if gflag == "isRewriting" else "guard tests %s" % gflag)

    fresh = tmp_switch(vlib.REPO)
    ctx.notes.append("source switch: loadRewriteAofFiles %s a left-over rewrite.aof.tmp" % ("removes" if fresh else "appends to"))

    ov, hooknote = hooked_source(ctx)
    ctx.notes.append(hooknote)
    aofh = ctx.go_build("aofh16", os.path.join(vlib.VERIF, "harness", "aof"), overlay=ov)
    modelrun = ctx.ocaml_model("aof")
    sw = c8.source_switches(vlib.REPO)
    fxline = "fx %d %d %d %d" % (sw["rl_nerr"], sw["rl_short"], sw["hdr"], sw["trunc"])
    thorough = ctx.tier == "thorough"
    rng = ctx.rng
    base = tempfile.mkdtemp(prefix="aof-c16-", dir="/tmp")
    stats = {"scenarios": 0, "compactions": 0, "snapshots": 0, "dir_mismatch": 0, "census_checked": 0, "restarts": 0, "hits": {}, "points": {},
             "busy": {"scenarios": 0, "parked_at": {}, "second_request": {}, "requests_while_parked": 0, "snapshots": 0, "marks": 0,
                      "guard_events": 0, "footprint_compared": 0}, "op_kinds": {}, "second_generation": 0}
    distinct = set()
    witnesses = {}
    mism = []
    gmism = []
    cache = {}

    def note_kinds(g):
        for k, v in g.kinds.items():
            stats["op_kinds"][k] = stats["op_kinds"].get(k, 0) + v

    def prefetch(dirs):
        """the restarts of several directories at once (independent processes on scratch copies)"""
        todo = {}
        for files in dirs:
            key = hashlib.sha1(repr(sorted(files.items())).encode()).hexdigest()
            if key not in cache:
                todo[key] = files
        if len(todo) > 1:
            with ThreadPoolExecutor(6) as ex:
                list(ex.map(lambda kv: inst_census(kv[1], "p" + kv[0][:12]), todo.items()))

    def inst_census(files, tag="x"):
        key = hashlib.sha1(repr(sorted(files.items())).encode()).hexdigest()
        if key in cache:
            return cache[key]
        d = os.path.join(base, "inst-" + tag)
        write_dir(os.path.join(d, "data"), files)
        p = subprocess.run([aofh, "inst", os.path.join(d, "data"), os.path.join(d, "log"), "4096"],
                           stdout=subprocess.PIPE, stderr=subprocess.STDOUT, timeout=60, env=ENV)
        out = p.stdout.decode()
        shutil.rmtree(d, ignore_errors=True)
        stats["restarts"] += 1
        cache[key] = (("init ok" in out), census(out), out)
        return cache[key]

    why_not = [""]

    def classify(pt, files, okk, cen, exp_census, ref_files):
        """signature(s) of a snapshot that does not recover to the reference"""
        why_not[0] = ""
        r = classify1(pt, files, okk, cen, exp_census, ref_files)
        return r if isinstance(r, list) else [r]

    def classify1(pt, files, okk, cen, exp_census, ref_files):
        if pt in (201, 202) and "rewrite.aof.tmp" in files and "rewrite.aof" not in files:
            return ("crash-after-inputs-removed-before-rename",
                    "compaction removes its input files before renaming rewrite.aof.tmp into place: a crash in between loses every compacted hold (restart recovers %d of %d holds)" % (len(cen), len(exp_census)))
        if pt == 203 and not okk and "rewrite.aof.tmp.dat" in files and "rewrite.aof" in files and "rewrite.aof.tmp" not in files:
            return ("crash-between-the-two-renames",
                    "rewrite.aof and rewrite.aof.dat are renamed separately: a crash in between leaves records whose values are missing (%s)" % ("start fails" if not okk else "restart recovers %d of %d holds" % (len(cen), len(exp_census))))
        if okk:
            att = attribute(ref_files, files, exp_census, cen, inst_census, int(time.time()))
            if isinstance(att, list):
                return att
            why_not[0] = att
        if "rewrite.aof.tmp" in ref_files and pt in (203, 204, 299):
            return ("stale-rewrite-tmp-is-appended-to",
                    "a rewrite.aof.tmp left behind by an interrupted compaction is not removed at start-up (clearAofFiles is never called): the next compaction "
                    "appends to it, the records of the interrupted compaction are in the new rewrite.aof twice (re-entrant holds come back deeper: %d holds, expected %d)" % (len(cen), len(exp_census)))
        if pt in (299, 300, 301):
            return ("compaction-changes-recovered-state:completed",
                    "after the compaction has returned a restart recovers a different state (%s)" % ("start fails" if not okk else "%d holds instead of %d, or other depths / terms / deadlines / values" % (len(cen), len(exp_census))))
        return ("compaction-changes-recovered-state:point-%d" % pt, "restart after crash point %d recovers a different state" % pt)

    def monitor(name, pt, kk, files, exp_ok, exp_census, extra, ref_files):
        okk, cen, out = inst_census(files, "snap")
        stats["census_checked"] += 1
        distinct.add((name, pt, kk, okk, len(cen)))
        if okk == exp_ok and census_equal(cen, exp_census):
            return True
        for sig, what in classify(pt, files, okk, cen, exp_census, ref_files):
            stats["hits"][sig] = stats["hits"].get(sig, 0) + 1
            if sig not in witnesses:
                rep = {"scenario": name, "crash_point": pt, "mutations_done": kk,
                       "crash_image": {f: c8.hx(b) for f, b in files.items()},
                       "expected_census": census_show(exp_census), "observed_census": census_show(cen), "init_ok": okk,
                       "not_attributed_to_a_recorded_root_cause_because": why_not[0]}
                rep.update(extra)
                witnesses[sig] = (what, rep)
        return False

    def model_states(pre, rotate, cur, live):
        now = int(time.time())
        script = [fxline, "tmpfresh %d" % fresh, "clear"] + ["put %s %s" % (f, c8.hx(b)) for f, b in sorted(pre.items())]
        script.append("compact %d %d %d 4096 %s" % (1 if rotate else 0, cur, now, " ".join(r.hex() for r in live)))
        rc, mout, merr = c8.run_script(modelrun, [], "\n".join(script) + "\n")
        if rc != 0:
            raise vlib.BuildError("modelrun compact failed: " + merr[-800:])
        states = {}
        for l in mout.split("\n"):
            if l.startswith("state "):
                k, rest = l[6:].split(" ", 1)
                files, rec = rest.split(" | ")
                states[int(k)] = files.strip()
        return states

    def check_compaction(name, pre, snaps, rotate, cur, ops=None):
        """pre: files before; snaps: [(point, files)] in order; compares with the model and runs the monitor"""
        stats["compactions"] += 1
        tmp200 = [f for (pt, f) in snaps if pt == 200]
        # HasLock decisions of THIS compaction: what it appended to rewrite.aof.tmp (a stale tmp file left by an interrupted
        # compaction is appended to, its records are not decisions of this run)
        nstale = 0 if fresh else len(tmp_records(pre.get("rewrite.aof.tmp", b"")))
        live = tmp_records(tmp200[0].get("rewrite.aof.tmp", b""))[nstale:] if tmp200 else []
        states = model_states(pre, rotate, cur, live)
        nstates = max(states) if states else 0
        k = 0
        prefetch([pre] + [f for (_, f) in snaps])
        exp_ok, exp_census, exp_out = inst_census(pre, "pre")
        for (pt, files) in snaps:
            if pt in (0, 210):
                kk = 0
            elif pt == 211:
                k = 2
                kk = k
            elif pt == 200:
                k = (2 if rotate else 0) + 2
                kk = k
            elif pt == 299:
                kk = nstates            # the compaction has returned: every mutation of the model's list is done
            else:
                k += 1
                kk = k
            stats["snapshots"] += 1
            stats["points"][pt] = stats["points"].get(pt, 0) + 1
            got = show_dir(files)
            want = states.get(kk, "<no state %d>" % kk)
            if got != want:
                stats["dir_mismatch"] += 1
                if len(mism) < 4:
                    mism.append({"scenario": name, "point": pt, "k": kk, "diff": dir_diff(got, want)})
            monitor(name, pt, kk, files, exp_ok, exp_census,
                    {"pre_image": {f: c8.hx(b) for f, b in pre.items()}, "ops": ops or []}, pre)

    def run_compact(d, arm, ops):
        p = subprocess.run([aofh, "compact", os.path.join(d, "data"), os.path.join(d, "log"), "4096", "0", os.path.join(d, "snap"), "1" if arm else "0"] + ops,
                           stdout=subprocess.PIPE, stderr=subprocess.STDOUT, timeout=120, env=ENV)
        out = p.stdout.decode()
        startup, groups, curg = [], [], None
        if os.path.isdir(os.path.join(d, "snap")):
            for nme in sorted(os.listdir(os.path.join(d, "snap"))):
                pt = int(nme.split("-")[1])
                files = read_dir(os.path.join(d, "snap", nme))
                if pt == 0:
                    curg = {"pre": files, "snaps": []}
                    groups.append(curg)
                if curg is None:
                    startup.append((pt, files))
                else:
                    curg["snaps"].append((pt, files))
            shutil.rmtree(os.path.join(d, "snap"))
        curs = [int(x) for x in re.findall(r"^cur (\d+)", out, flags=re.M)]
        return out, startup, groups, curs

    def startup_generation(name, files, ops=None):
        """a node with start-up compaction on <files>; the compaction is checked like any other; returns the directory it leaves"""
        d2 = os.path.join(base, "gen2")
        shutil.rmtree(d2, ignore_errors=True)
        write_dir(os.path.join(d2, "data"), files)
        out2, st, groups, curs = run_compact(d2, True, ops or [])
        if "census-end" not in out2:
            okk, cen, out = inst_census(files, "g2")
            if okk:
                raise vlib.BuildError("aofh compact (start-up) failed: " + out2[-1500:])
            return None, []
        apps = [int(f.split(".")[2]) for f in files if re.fullmatch(r"append\.aof\.\d+", f)]
        if st and apps:
            check_compaction(name + ".startup", files, st, False, max(apps), ops)
        for gi, g in enumerate(groups):
            check_compaction("%s.rot%d" % (name, gi), g["pre"], g["snaps"], True, curs[1 + gi] if len(curs) > 1 + gi else 0, ops)
        left = read_dir(os.path.join(d2, "data"))
        shutil.rmtree(d2, ignore_errors=True)
        stats["second_generation"] += 1
        return left, st

    # ------------------------------------------------------------------------------------ busy compactions
    def run_script(d, script, ref, t0):
        os.makedirs(d, exist_ok=True)
        open(os.path.join(d, "script.txt"), "w").write("\n".join(script) + "\n")
        p = subprocess.run([aofh, "script", os.path.join(d, "data"), os.path.join(d, "log"), "4096", "0", os.path.join(d, "snap"), "1" if ref else "0",
                            str(t0), os.path.join(d, "script.txt")], stdout=subprocess.PIPE, stderr=subprocess.STDOUT, timeout=180, env=ENV)
        out = p.stdout.decode()
        if "script-end" not in out:
            raise vlib.BuildError("aofh script failed: " + out[-2000:])
        return out

    def check_busy(name, script):
        bs = stats["busy"]
        bs["scenarios"] += 1
        stats["scenarios"] += 1
        t0 = int(time.time()) - 1000
        d, dr = os.path.join(base, name), os.path.join(base, name + "-ref")
        out = run_script(d, script, False, t0)
        outr = run_script(dr, script, True, t0)
        nm, nmr = len(re.findall(r"^mark \d+", out, flags=re.M)), len(re.findall(r"^mark \d+", outr, flags=re.M))
        if nm != nmr:
            raise vlib.BuildError("reference run took %d marks, compacting run %d" % (nmr, nm))
        bs["marks"] += nm
        refs = {}

        def ref_census(i):
            if i not in refs:
                rf = read_dir(os.path.join(dr, "snap", "m%03d" % i))
                refs[i] = inst_census(rf, "ref") + (rf,)
            return refs[i]
        events = [l for l in out.split("\n") if re.match(r"^(snap|trigger|admin|resumed|mark|end) ", l)]
        replay_extra = {"script": script, "t0": t0, "how": "aofh script <dir> <log> 4096 0 <snapdir> 0 <t0> <script>; reference: same with <ref>=1"}
        # (a) monitor on every snapshot, mark and on the final directory
        todo = []
        lastclear, parked_at = 0, 0         # a compaction parked in the middle of clearRewriteAofFiles: marks and rotations
        for e in events:                    # taken meanwhile are images of that crash point
            t = e.split()
            kv = dict(x.split("=", 1) for x in t if "=" in x)
            if t[0] == "trigger" and kv["outcome"] == "parked":
                parked_at = lastclear
            elif t[0] == "resumed":
                parked_at = 0
            if t[0] == "snap":
                if 200 <= int(t[2]) <= 204:
                    lastclear = int(t[2])
                eff = parked_at if (parked_at and int(t[2]) in (210, 211)) else int(t[2])
                todo.append((eff, "%s-%s" % (t[1], t[2]), int(kv["ref"]), e))
                bs["snapshots"] += 1
                stats["points"][int(t[2])] = stats["points"].get(int(t[2]), 0) + 1
                if int(kv["active"]) > 1 or (200 <= int(t[2]) <= 204 and kv["rewriting"] != "1"):
                    sig = "two-compactions-active" if int(kv["active"]) > 1 else "compaction-running-with-isRewriting-false"
                    stats["hits"][sig] = stats["hits"].get(sig, 0) + 1
                    witnesses.setdefault(sig, ("a second compaction goroutine passed the entry guard of rewriteAofFiles while another one was still running (both scan the same inputs and append into the same rewrite.aof.tmp)"
                                               if int(kv["active"]) > 1 else "a compaction is past its guard while isRewriting is false",
                                               dict(replay_extra, event=e, scenario=name)))
            elif t[0] == "mark":
                todo.append((parked_at or 300, "m%03d" % int(t[1]), int(t[1]), e))
        prefetch([read_dir(os.path.join(d, "snap", sname)) for (_, sname, _, _) in todo] +
                 [read_dir(os.path.join(dr, "snap", "m%03d" % i)) for i in range(nm)])
        for (pt, sname, ri, e) in todo:
            files = read_dir(os.path.join(d, "snap", sname))
            rok, rcen, _, rfiles = ref_census(ri)
            stats["snapshots"] += 1
            monitor(name, pt, ri, files, rok, rcen, dict(replay_extra, event=e, reference="history up to mark %d, never compacted" % ri), rfiles)
        final = read_dir(os.path.join(d, "data"))
        rok, rcen, _, rfiles = ref_census(nm - 1)
        monitor(name, 301, nm - 1, final, rok, rcen, dict(replay_extra, event="final directory after Close"), rfiles)
        m = re.search(r"^end parked=(\w+) overlap=(\d+) entered=(\d+)", out, flags=re.M)
        if m and int(m.group(2)) > 0 and "two-compactions-active" not in witnesses:
            witnesses["two-compactions-active"] = ("two compaction goroutines were between verifPoint(200) and verifPoint(204) at the same time", dict(replay_extra, scenario=name))
        # (b) the guard state machine against the flags of the real Aof struct
        evs, exp = rewrite_guard_events(events)
        bs["guard_events"] += len(evs)
        for e in events:
            if e.startswith("trigger"):
                how = e.split()[1]
                kv = dict(x.split("=", 1) for x in e.split() if "=" in x)
                key = "%s:%s" % (how, kv["outcome"])
                bs["second_request"][key] = bs["second_request"].get(key, 0) + 1
            if e.startswith("admin rejected"):
                bs["second_request"]["admin:rejected"] = bs["second_request"].get("admin:rejected", 0) + 1
        rc, mout, merr = c8.run_script(modelrun, [], "guard %d %s\n" % (gsw, " ".join(evs)))
        if rc != 0:
            raise vlib.BuildError("modelrun guard failed: " + merr[-800:])
        glines = [l.split() for l in mout.split("\n") if l.startswith("g ")][1:]
        for (gl, (mark, after, e)) in zip(glines, exp):
            bad = (gl[4] != mark) or (after is not None and after != gl[1] + gl[2]) or int(gl[3]) > 1
            if "outcome=stuck" in e:
                bad = True
            if bad and len(gmism) < 4:
                gmism.append({"scenario": name, "event": e, "model": " ".join(gl), "script": script})
        # (c) footprint of every compaction that ran: byte for byte against the model (appends go elsewhere)
        pre211, grp = None, None
        for e in events:
            t = e.split()
            if t[0] != "snap":
                continue
            kv = dict(x.split("=", 1) for x in t if "=" in x)
            pt, files = int(t[2]), None
            if pt == 211:
                pre211 = (read_dir(os.path.join(d, "snap", "%s-%s" % (t[1], t[2]))), int(kv["cur"]))
                continue
            if pt == 200 and pre211:
                files = read_dir(os.path.join(d, "snap", "%s-%s" % (t[1], t[2])))
                live = tmp_records(files.get("rewrite.aof.tmp", b""))[0 if fresh else len(tmp_records(pre211[0].get("rewrite.aof.tmp", b""))):]
                grp = {"cur": pre211[1], "states": model_states(pre211[0], False, pre211[1], live), "k": 2}
                stats["compactions"] += 1
            elif pt in (201, 202, 203, 204) and grp:
                grp["k"] += 1
            elif pt == 299 and grp:
                grp["k"] = max(grp["states"])
            else:
                continue
            files = files or read_dir(os.path.join(d, "snap", "%s-%s" % (t[1], t[2])))
            got = " ".join(sorted("%s=%s" % (f, c8.hx(b)) for f, b in files.items() if local_file(f, grp["cur"])))
            want = " ".join(x for x in grp["states"].get(grp["k"], "<none>").split(" ") if local_file(x.split("=")[0], grp["cur"]))
            bs["footprint_compared"] += 1
            if got != want:
                stats["dir_mismatch"] += 1
                if len(mism) < 4:
                    mism.append({"scenario": name, "point": pt, "k": grp["k"], "diff": dir_diff(got, want), "busy": True, "script": script})
            if pt == 299:
                grp = None
        for l in script:
            if l.startswith("park "):
                bs["parked_at"][l.split()[1]] = bs["parked_at"].get(l.split()[1], 0) + 1
        armed, inpark = False, False
        for l in script:
            if l.startswith("park "):
                armed = True
            elif l == "trigger" and armed and not inpark:
                armed, inpark = False, True
            elif l == "resume":
                inpark = False
            elif inpark and ":" in l:
                bs["requests_while_parked"] += 1
        shutil.rmtree(d, ignore_errors=True)
        shutil.rmtree(dr, ignore_errors=True)
        return final

    def gen_busy(rng):
        g = Gen(rng)
        s = []

        def ops(n):
            for _ in range(n):
                s.append(g.step())
                if rng.random() < 0.3:
                    s.append("adv %d" % rng.choice([1, 3, 20]))
        ops(rng.choice([3, 6, 9]))
        if rng.random() < 0.6:                      # an earlier compaction: the parked one has a rewrite.aof among its inputs
            s.append("rotate")
            ops(rng.choice([2, 5]))
        if rng.random() < 0.4:                      # several closed append files among the inputs
            s.append("thresh %d" % (12 + 64 * rng.choice([2, 3])))
            ops(rng.choice([4, 7]))
            s.append("thresh 0")
        s.append("park %d" % rng.choice([200, 200, 201, 202, 203]))
        s.append("trigger")
        ops(rng.choice([2, 4, 6]))
        how = rng.choice(["trigger", "trigger", "admin", "size"])
        if how == "size":
            s.append("thresh %d" % (12 + 64 * rng.choice([1, 2])))
            ops(rng.choice([3, 5]))
            s.append("thresh 0")
        else:
            s.append(how)
        ops(rng.choice([1, 3]))
        s.append("resume")
        ops(rng.choice([0, 3]))
        s.append("rotate")
        ops(rng.choice([0, 2]))
        note_kinds(g)
        return s

    try:
        # ---- corpus: regression inputs first
        cdir = os.path.join(vlib.VERIF, "corpus", "C16")
        corpus = []
        for f in sorted(os.listdir(cdir)) if os.path.isdir(cdir) else []:
            if f.endswith(".json"):
                corpus.append((f[:-5], json.load(open(os.path.join(cdir, f)))))
        for cname, c in corpus:
            if c["kind"] == "busy":
                check_busy("corpus-" + cname, c["script"])
        # ---- quiescent compactions, 1..3 in a row in one process (the 2nd/3rd have the rewrite.aof of the previous one
        #      among their inputs), then restart chains: start-up compaction, more requests, another compaction, restart
        seqs = [(cname, c["ops"]) for cname, c in corpus if c["kind"] == "seq"]
        nsc = 20 if thorough else 3
        for si in range(nsc):
            g = Gen(rng)
            ops = []
            for r in range(rng.choice([1, 2, 3])):
                ops += g.ops(rng.choice([3, 5, 8])) + (["adv:%d" % rng.choice([2, 3, 20, 61])] if rng.random() < 0.5 else []) + ["settle", "rotate"]
            ops += g.ops(rng.choice([0, 2, 4]))
            total_adv = sum(int(o[4:]) for o in ops if o.startswith("adv:"))
            if total_adv:
                ops = ["back:%d" % (total_adv + 5)] + ops         # no record is ever dated in the future of a later restart
            note_kinds(g)
            seqs.append(("s%d" % si, ops))
        for qi, (sname, ops) in enumerate(seqs):
            stats["scenarios"] += 1
            d = os.path.join(base, sname)
            os.makedirs(os.path.join(d, "data"))
            out, st, groups, curs = run_compact(d, False, ops)
            if "census-end" not in out:
                raise vlib.BuildError("aofh compact failed: " + out[-1500:])
            for gi, g in enumerate(groups):
                check_compaction("%s.rot%d" % (sname, gi), g["pre"], g["snaps"], True, curs[1 + gi], ops)
            # start-up compaction on a multi-file directory: the last pre-clear snapshot of this scenario
            cand = [f for g in groups for (pt, f) in g["snaps"] if pt == 211]
            if cand and (thorough or qi % 2 == 1):
                startup_generation(sname + ".multi", dict(cand[-1]))
            # the process died at crash point 200 / 202 (rewrite.aof.tmp written, inputs (partly) there): the next start
            cand = [f for g in groups for (pt, f) in g["snaps"] if pt in (200, 202) and "rewrite.aof.tmp" in f]
            if cand:
                startup_generation(sname + ".after-crash", dict(rng.choice(cand)))
            # restart chain on the directory the process left: start-up compaction (rewrite.aof + closed files as inputs),
            # more requests, a further compaction; then once more
            left = read_dir(os.path.join(d, "data"))
            g2 = Gen(rng)
            g2.n = 500
            more = g2.ops(rng.choice([2, 4])) + ["settle", "rotate"] + g2.ops(rng.choice([0, 2]))
            note_kinds(g2)
            left2, _ = startup_generation(sname + ".chain1", left, more)
            if left2 is not None and (thorough or qi % 2 == 0):
                startup_generation(sname + ".chain2", left2)
            shutil.rmtree(d, ignore_errors=True)
        # ---- start-up compaction on hand-built directories: an existing rewrite file plus 1..4 append files
        for bi in range(8 if thorough else 3):
            now = int(time.time())
            nfiles = rng.choice([1, 2, 3, 4]) if bi else 4
            first = rng.choice([1, 2, 7])
            files, n, locked = {}, 0, []
            hdr = b"SLOCKAOF\x01\x00\x00\x00"

            def lockrec(idx, off, k, typ=1, val=None):
                return c8.mkrec(None, typ, bytes.fromhex(K(0x3000 + k)), bytes.fromhex(K(0x4000 + k)), flag=(0x2000 if val else 0),
                                eflag=0x4100, et=0xffff, ct=now, idx=idx, off=off)
            body, dat = b"", b""
            for j in range(rng.choice([0, 2, 3])):
                n += 1
                v = c8.mkval(bytes([n, 7])) if rng.random() < 0.4 else None
                r = bytearray(lockrec(0, j + 1, n, val=v))
                r[55] |= 1
                body += bytes(r)
                dat += v or b""
                locked.append(n)
            if body or rng.random() < 0.5:
                files["rewrite.aof"], files["rewrite.aof.dat"] = hdr + body, dat
            for fi in range(first, first + nfiles):
                body, dat = b"", b""
                for j in range(rng.choice([0, 1, 3, 5]) if fi < first + nfiles - 1 else rng.choice([0, 2])):
                    if locked and rng.random() < 0.3:
                        k = locked.pop(rng.randrange(len(locked)))
                        body += lockrec(fi, j + 1, k, typ=2)
                    else:
                        n += 1
                        v = c8.mkval(bytes([n, 9, 9])) if rng.random() < 0.4 else None
                        body += lockrec(fi, j + 1, n, val=v)
                        dat += v or b""
                        locked.append(n)
                files["append.aof.%d" % fi], files["append.aof.%d.dat" % fi] = hdr + body, dat
            stats["scenarios"] += 1
            left, st = startup_generation("built%d" % bi, files)
            stats.setdefault("built_dirs", []).append({"append_files": nfiles, "rewrite": "rewrite.aof" in files, "snapshots": len(st)})
        # ---- busy compactions
        for bi in range(24 if thorough else 3):
            final = check_busy("busy%d" % bi, gen_busy(rng))
            if bi % 3 == 0:
                left, _ = startup_generation("busy%d.next" % bi, final)
    finally:
        shutil.rmtree(base, ignore_errors=True)

    # ---- start-up compaction under load (no model counterpart: goroutine schedule of the log channels)
    su = startup_compaction(ctx, ov, 6 if thorough else 2)
    stats["startup_compaction"] = su
    if su.get("violated"):
        witnesses.setdefault("startup-compaction:records-of-live-holds-dropped",
                             ("the compaction that LoadAndInit starts after replaying the log ran before every replayed record was applied and dropped records of live holds: "
                              + su["violated"][:300],
                              {"scenario": "16000 holds persisted, compacted (rewrite.aof), one more hold; the directory is restarted 12 times with GOMAXPROCS=2; after each "
                                           "start-up compaction rewrite.aof must still hold 16000 records",
                               "how": "go test -tags verif -vet=off -count=1 -overlay <server/zz_verif_c16_startup_test.go = harness/aof/startup/zz_verif_c16_startup_test.go.txt> "
                                      "-run 'TestC16StartupCompactionNoHookDemo$' github.com/snower/slock/server   (GOMAXPROCS=2; from harness/aof)",
                               "output": su.get("output", "")[-3000:]}))
    ctx.obligation("start-up compaction scenario ran (%d run(s) of 12 restarts each)" % su.get("runs", 0), su.get("ran", False), su.get("error", ""))

    ctx.obligation("model directory = implementation directory at every crash point (byte for byte; busy compactions: footprint files)", not mism, json.dumps(mism)[:1500] if mism else "")
    ctx.obligation("guard state machine = flags of the real Aof struct and start/drop outcome of every compaction request", not gmism, json.dumps(gmism)[:1500] if gmism else "")
    for sig, (what, replay) in witnesses.items():
        ctx.violation(sig, what, replay, found_input=True)
    if mism:
        ctx.violation("correspondence:C16", "model and implementation directories differ at a crash point",
                      {"broken": "correspondence coq/Aof/Rewrite.v vs server/aof.go", "first": mism}, found_input=False)
    if gmism:
        ctx.violation("correspondence:C16-guard", "the guard state machine (coq/Aof/Rewrite.v gstep) and the real rewriteAofFiles disagree on a request sequence",
                      {"broken": "correspondence coq/Aof/Rewrite.v gstep vs server/aof.go rewriteAofFiles", "first": gmism}, found_input=False)
    if gflag != "isRewriting" and not witnesses:
        ctx.violation("source-switch:C16-guard", "the entry guard of rewriteAofFiles no longer tests isRewriting: C16_at_most_one_compaction does not apply to this source",
                      {"broken": "source switch", "guard_tests": gflag}, found_input=False)

    cov = {
        "evaluations": stats["snapshots"],
        "distinct_nontrivial": len(distinct),
        "rule": "distinct (scenario, crash point, #mutations done / history mark, start ok, #holds recovered)",
        "samples": ["%d scenarios, %d compactions, %d restarts" % (stats["scenarios"], stats["compactions"], stats["restarts"])],
        "scenarios": stats["scenarios"], "compactions": stats["compactions"], "snapshots": stats["snapshots"],
        "crash_points": stats["points"], "dir_mismatches": stats["dir_mismatch"], "census_checked": stats["census_checked"],
        "restarts": stats["restarts"], "monitor_hits": stats["hits"], "source_switches": dict(sw, guard_tests=gflag, stale_tmp_removed=fresh),
        "built_directories": stats.get("built_dirs", []), "busy": stats["busy"], "workload_op_kinds": stats["op_kinds"],
        "second_generation_runs": stats["second_generation"], "corpus": [c[0] for c in corpus],
        "startup_compaction_under_load": {k: v for k, v in stats.get("startup_compaction", {}).items() if k != "output"},
    }
    ctx.trusted += [
        "crash points: add-only verifPoint(200..211) calls " + hooknote,
        "HasLock (db.go) is a parameter of the model; in the differential run its decisions are read back from the real rewrite.aof.tmp",
        "OS model: rename/remove atomic, no reordering of completed syscalls, fsync not modelled; tmp-file writes are one mutation (the tmp file is never read by a restart)",
        "busy compactions: the compaction goroutine is parked at a crash point AFTER its scan (there is no crash point inside loadRewriteAofFiles): requests interleaved with the scan itself are not explored deterministically",
        "guard events GDefer/GBarrier (follower rotation / consistency barrier) are proved about but not driven on the real code (single leader node); the admin guard is re-stated by the harness, the text handler is not called",
        "reference of the busy runs: the same history in a second process that never compacts (manual clocks started at the same t0)",
        "extraction: ExtrOcamlBasic only; ocaml/aof/driver.ml",
        "start-up compaction under load (16000 persisted holds, 12 restarts per run with GOMAXPROCS=2, rewrite.aof measured after each start-up compaction): implementation "
        "only, schedule-dependent, no model of the log-channel goroutines; a statistical detector of the defect repaired by 037cad8, not a proof of its absence",
    ]
    return ctx.finish(cov, ["crash = prefix of the ordered list of file-system mutations (of the interleaving with the appends, for a busy compaction)",
                            "appends are flushed before the directory is observed (settled marks); a compaction request arrives while another is parked at a crash point, not inside its scan"])
