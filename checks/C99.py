def run(ctx):
    ok, log = ctx.coq(["Properties/C99.vo"])
    ctx.obligation("C99_demo", ok)
    if not ok:
        ctx.violation("proof:C99_demo", "theorem no longer checks", {"theorem": "C99_demo", "log": getattr(ctx, "coq_failure", "")}, found_input=False)
    return ctx.finish({"evaluations": 1, "distinct_nontrivial": 1, "rule": "demo", "samples": ["demo"]})
