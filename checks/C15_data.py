"""C15_data -- value-operation layer shared by C15 (values behave as a register) and C13 (no value frame crashes).

1. Source -> model switches: derive_fixes() reads protocol/command.go and server/lock.go of $VERIF_REPO and decides, per
   repair of /verif/proposed_fixes/data_*.diff, whether its guard is present in the function body; the result is
   written to coq/Data/FixFlags.v (current_fixes) and handed to the extracted model on the command line.
2. Coq: Properties/C15_data.vo (model coq/Data/Data.v, spec coq/Data/Spec.v, proofs coq/Data/DataProofs.v).
3. Correspondence (re-run every time): the real ProcessLockData / ProcessRecoverLockData / ProcessAckLockData /
   AofLockData / GetLockData on a bare LockManager (harness/data, injected in-package by go build -overlay) against the
   OCaml extraction of Data.v (ocaml/data) on the same seeded sequences; outcome class (ok / panic + panicking Go
   function), every resulting byte of currentData (incl. spare capacity, commandType, isAof) and of lock.data compared.
   Streams: corpus, mostly-valid sequences (client-constructor frames), malformed frames.
4. Monitors evaluated on the *Go* observations (independent of the Coq model):
     crash      a step panicked                                          -> panic:<go function>:<cause>
     value      the value after a well-formed operation differs from a sequential interpreter (Python `spec_apply`)
                                                                         -> value:<op kind>
     recover    ProcessLockData(requireRecover) immediately followed by ProcessRecoverLockData does not restore the
                value                                                    -> recover:<op kind>
   signatures are matched against known_findings/C15_data.json.
"""
import json, os, re, struct, subprocess, time
from tools import vlib

MANIFEST = {
    "property": "C15_data",
    "theorems": "coq/Properties/C15_data.v",
    "model": ["coq/Data/Fixes.v", "coq/Data/FixFlags.v", "coq/Data/Data.v", "coq/Data/Spec.v", "coq/Data/DataProofs.v", "coq/Data/Refine.v"],
    "harness": "harness/data",
    "ocaml": "ocaml/data",
    "engine": "coq",
    "category": "proof",
    "text": "value-operation layer of C15/C13: byte-exact Gallina model of ProcessLockData and helpers, refinement to a "
            "sequential interpreter for constructor-built frames, crash-freedom of the repaired semantics, refutations "
            "with replayed witnesses for the unrepaired one",
    "note": "partial: EXECUTE frames are outside the model; the engine around this layer is the integrator's",
    "technique": "Coq proofs + model/implementation differential testing (extracted OCaml vs in-package Go harness)",
}

VERIF = vlib.VERIF
PID = "C15_data"
FIX_NAMES = ["fx_short_frame", "fx_cmd_offset", "fx_val_offset", "fx_shift", "fx_incr_nil", "fx_pipeline_len",
             "fx_pop_bounds", "fx_pipeline_fold", "fx_recover_nil"]
OPNAMES = {0: "SET", 1: "UNSET", 2: "INCR", 3: "APPEND", 4: "SHIFT", 5: "EXECUTE", 6: "PIPELINE", 7: "PUSH", 8: "POP"}


# ------------------------------------------------------------------------------------------------ source -> switches
def func_body(src, header_regex):
    """text of the Go function whose header matches header_regex (brace matching; Go has no braces in our strings)"""
    m = re.search(header_regex, src)
    if not m:
        return None
    i = src.index("{", m.end() - 1)
    depth, j = 0, i
    while j < len(src):
        if src[j] == "{":
            depth += 1
        elif src[j] == "}":
            depth -= 1
            if depth == 0:
                return src[i:j + 1]
        j += 1
    return None


class FixDeriveError(Exception):
    pass


def derive_fixes(repo):
    """{name: bool} from the source text. Raises FixDeriveError when a function is missing or a guard is only
    partially present (the model cannot follow such a tree)."""
    cmd = open(os.path.join(repo, "protocol", "command.go")).read()
    lock = open(os.path.join(repo, "server", "lock.go")).read()
    nlcd = func_body(cmd, r"func NewLockCommandDataFromOriginBytes\(data \[\]byte\) \*LockCommandData \{")
    cgvo = func_body(cmd, r"func \(self \*LockCommandData\) GetValueOffset\(\) int \{")
    vgvo = func_body(lock, r"func \(self \*LockManagerData\) GetValueOffset\(\) int \{")
    pld = func_body(lock, r"func \(self \*LockManager\) ProcessLockData\(command \*protocol\.LockCommand, lock \*Lock, requireRecover bool\) \{")
    prld = func_body(lock, r"func \(self \*LockManager\) ProcessRecoverLockData\(lock \*Lock\) \{")
    for name, b in (("NewLockCommandDataFromOriginBytes", nlcd), ("LockCommandData.GetValueOffset", cgvo),
                    ("LockManagerData.GetValueOffset", vgvo), ("ProcessLockData", pld), ("ProcessRecoverLockData", prld)):
        if b is None:
            raise FixDeriveError("function %s not found in the source" % name)
    ws = lambda s: re.sub(r"\s+", " ", re.sub(r"//[^\n]*", "", s))     # drop comments, normalise white space
    nlcd, cgvo, vgvo, pld, prld = map(ws, (nlcd, cgvo, vgvo, pld, prld))
    fx = {}
    fx["fx_short_frame"] = "if len(data) < 6 {" in nlcd
    a, b = "len(self.Data) >= 8" in cgvo, "valueOffset > len(self.Data)" in cgvo
    if a != b:
        raise FixDeriveError("LockCommandData.GetValueOffset: only one of the two guards of data_cmd_offset.diff is present")
    fx["fx_cmd_offset"] = a
    fx["fx_val_offset"] = "valueOffset > len(self.data)" in vgvo
    fx["fx_shift"] = "lengthValue > currentLockData.GetValueSize()" in pld
    fx["fx_incr_nil"] = "if currentLockData != nil { valueOffset = currentLockData.GetValueOffset() }" in pld
    fx["fx_pipeline_len"] = "if index+4 > len(buf) { break }" in pld
    g = "if i+4+valueLen > len(self.currentData.data) { break }"
    n1, n2 = pld.count(g), prld.count(g)
    if (n1, n2) not in ((0, 0), (1, 2)):
        raise FixDeriveError("array element guard present in %d/1 loops of ProcessLockData and %d/2 of ProcessRecoverLockData" % (n1, n2))
    fx["fx_pop_bounds"] = n1 == 1
    fx["fx_pipeline_fold"] = "self.currentData = currentLockData" not in pld
    a = "currentData == nil || self.currentData == nil ||" in prld
    b = "if recoverData != nil && recoverValue == nil { commandType = protocol.LOCK_DATA_COMMAND_TYPE_SET }" in prld
    c = "indexValue+lenValue && currentData.GetValueOffset() <= indexValue {" in prld
    if not (a == b == c):
        raise FixDeriveError("ProcessRecoverLockData: only some of the three guards of data_recover_nil.diff are present")
    fx["fx_recover_nil"] = a
    return fx


def fixflags_v(fx):
    body = "; ".join("%s := %s" % (n, "true" if fx[n] else "false") for n in FIX_NAMES)
    return ("(* GENERATED by checks/C15_data.py (derive_fixes) from the Go source of $VERIF_REPO -- do not edit by hand.\n"
            "   The committed version describes the unrepaired tree (no guard present). *)\n"
            "From Slock Require Import Data.Fixes.\n"
            "Definition current_fixes : fixes :=\n  {| %s |}.\n" % body)


def fixbits(fx):
    return "".join("1" if fx[n] else "0" for n in FIX_NAMES)


# ------------------------------------------------------------------------------------------------ frame constructors
# (Python transcriptions of protocol/command.go NewLockCommandData*: what a client library sends)
def le32(n):
    return struct.pack("<I", n & 0xffffffff)


def le64(n):
    return struct.pack("<Q", n & 0xffffffffffffffff)


def from_bytes(data, stage, typ, flag, props=None):
    body = b""
    if props is not None:
        pb = b"".join(bytes([c]) + struct.pack("<H", len(v)) + v for c, v in props)
        body = struct.pack("<H", len(pb)) + pb
        flag |= 0x10
    body = bytes([(stage << 6) | (typ & 0x3f), flag]) + body + data
    return le32(len(body)) + body


def f_set(v, props=None, flag=0):
    return from_bytes(v, 0, 0, flag, props)


def f_set_array(vals):
    body = b"".join(le32(len(v)) + v for v in vals)
    return le32(len(body) + 2) + bytes([0, 0x02]) + body


def f_unset(flag=0):
    return bytes([2, 0, 0, 0, 1, flag])


def f_incr(n, props=None, flag=0):
    if props is None and flag == 0:
        return bytes([10, 0, 0, 0, 2, 1]) + le64(n)
    return from_bytes(le64(n), 0, 2, 1 | flag, props)


def f_append(v, props=None, flag=0):
    return from_bytes(v, 0, 3, flag, props)


def f_shift(n):
    return bytes([6, 0, 0, 0, 4, 1]) + le32(n)


def f_push(v, props=None, flag=0):
    return from_bytes(v, 0, 7, flag, props)


def f_pop(n):
    return bytes([6, 0, 0, 0, 8, 1]) + le32(n)


def f_pipeline(items):
    body = b"".join(items)
    return le32(len(body) + 2) + bytes([6, 0]) + body


# ------------------------------------------------------------------------------------------------ sequential spec
# abstract value: None | (flag byte, property bytes, payload bytes)   -- Python twin of coq/Data/Spec.v
def frame_parts(fr):
    """(type, flag, props, payload) of a well-formed frame, None when it is not well-formed"""
    if len(fr) < 6 or struct.unpack("<I", fr[:4])[0] != len(fr) - 4 or fr[4] >> 6 != 0:
        return None
    typ, flag = fr[4] & 0x3f, fr[5]
    if flag & 0x10:
        if len(fr) < 8:
            return None
        off = struct.unpack("<H", fr[6:8])[0] + 8
        if off > len(fr):
            return None
        return typ, flag, fr[8:off], fr[off:]
    return typ, flag, None, fr[6:]


def abs_value(data_hex):
    if data_hex in ("-", None):
        return None
    fr = bytes.fromhex(data_hex)
    if len(fr) < 6:
        return ("?", fr)
    flag = fr[5]
    if flag & 0x10 and len(fr) < 8:
        return ("?", fr)
    if len(fr) >= 8 and flag & 0x10:
        off = struct.unpack("<H", fr[6:8])[0] + 8
        if off > len(fr):
            return ("?", fr)
        return (flag, fr[8:off], fr[off:])
    return (flag, None, fr[6:])


def norm_value(v):
    """arrays compared as element lists (re-encoding drops zero-length elements)"""
    if isinstance(v, tuple) and v[0] != "?" and v[0] & 2:
        return (v[0], v[1], tuple(parse_array(v[2])))
    return v


def wrap64(z):
    return (z + (1 << 63)) % (1 << 64) - (1 << 63)


def num_of(payload):
    return wrap64(int.from_bytes(payload[:8], "little"))


def parse_array(p):
    out, i = [], 0
    while i + 4 < len(p):
        n = struct.unpack("<I", p[i:i + 4])[0]
        if n == 0:
            i += 4
            continue
        if i + 4 + n > len(p):
            break
        out.append(p[i + 4:i + 4 + n])
        i += 4 + n
    return out


def spec_apply(v, fr):
    """sequential interpreter: value after applying the well-formed frame fr (first-or-last gate passed) to v.
    Returns the new abstract value, or the string 'n/a' when fr is outside the specified fragment."""
    parts = frame_parts(fr)
    if parts is None or (isinstance(v, tuple) and v[0] == "?"):
        return "n/a"
    typ, flag, props, payload = parts
    if typ == 0:
        return (flag, props, payload)
    if typ == 1:
        return None
    if typ == 2:
        if len(payload) != 8:
            return "n/a"
        old = num_of(v[2]) if v is not None else 0
        return (flag | 1, props, le64(wrap64(old + num_of(payload))))
    if typ == 3:
        if v is None:
            return (flag, props, payload)
        return (v[0], v[1], v[2] + payload)
    if typ == 4:
        n = struct.unpack("<I", (payload[:4] + b"\0\0\0\0")[:4])[0]
        if v is None or n == 0:
            return v
        return (v[0], v[1], v[2][n:])
    if typ == 7:
        if v is None or not v[0] & 2:
            return ((flag & 0xf8) | 2, props, le32(len(payload)) + payload)
        return ((v[0] & 0xf8) | 2, v[1], v[2] + le32(len(payload)) + payload)
    if typ == 8:
        n = struct.unpack("<I", (payload[:4] + b"\0\0\0\0")[:4])[0]
        if v is None or n == 0 or not v[0] & 2:
            return v
        elems = parse_array(v[2])[n:]
        return (v[0], v[1], b"".join(le32(len(e)) + e for e in elems))
    if typ == 6:
        i = 0
        while i < len(payload):
            if i + 4 > len(payload):
                return "n/a"
            n = struct.unpack("<I", payload[i:i + 4])[0]
            if i + 4 + n > len(payload):
                return "n/a"
            item = payload[i:i + 4 + n]
            ip = frame_parts(item)
            if ip is None or ip[1] & 0x20:
                return "n/a"
            v = spec_apply(v, item)
            if v == "n/a":
                return v
            i += 4 + n
        return v
    return "n/a"


# ------------------------------------------------------------------------------------------------ generators
class Gen:
    def __init__(self, rng):
        self.r = rng

    def blob(self, lo=0, hi=12):
        n = self.r.choice([0, 1, 2, 3, 4, 5, 8, 9]) if self.r.random() < 0.5 else self.r.randint(lo, hi)
        return bytes(self.r.randrange(256) if self.r.random() < 0.3 else self.r.choice(b"abcxyz\x00\x01\xff") for _ in range(n))

    def number(self):
        c = self.r.random()
        if c < 0.4:
            return self.r.randint(-20, 20)
        if c < 0.7:
            return self.r.choice([(1 << 63) - 1, -(1 << 63), (1 << 63) - 2, -(1 << 63) + 1, 1 << 62, -(1 << 62), (1 << 32), -1, 0])
        return self.r.randint(-(1 << 63), (1 << 63) - 1)

    def props(self):
        if self.r.random() < 0.65:
            return None
        return [(self.r.choice([1, 2, 7]), self.blob(0, 6) if self.r.random() < 0.8 else b"") for _ in range(self.r.randint(0, 3))]

    def count(self):
        c = self.r.random()
        if c < 0.6:
            return self.r.randint(0, 4)
        if c < 0.85:
            return self.r.randint(5, 40)
        return self.r.choice([0xffffffff, 0x7fffffff, 0x80000000, 65536, 255, 256])

    def op(self, depth=0, kinds=None):
        """(kind, frame)"""
        k = self.r.choice(kinds or ["SET", "SET", "SETARR", "UNSET", "INCR", "INCR", "APPEND", "APPEND", "SHIFT", "PUSH", "PUSH",
                                    "POP", "PIPELINE" if depth < 2 else "SET"])
        fl = 0x20 if self.r.random() < 0.12 else 0
        if k == "SET":
            return k, f_set(self.blob(), self.props(), fl)
        if k == "SETARR":
            return "SET", f_set_array([self.blob(0, 5) for _ in range(self.r.randint(0, 4))])
        if k == "UNSET":
            return k, f_unset(fl)
        if k == "INCR":
            p = self.props()
            return k, f_incr(self.number(), p, fl if p is not None else 0)
        if k == "APPEND":
            return k, f_append(self.blob(), self.props(), fl)
        if k == "SHIFT":
            return k, f_shift(self.count())
        if k == "PUSH":
            return k, f_push(self.blob(0, 6), self.props(), fl)
        if k == "POP":
            return k, f_pop(self.count())
        items = [self.op(depth + 1)[1] for _ in range(self.r.randint(0, 4))]
        return "PIPELINE", f_pipeline(items)

    def env(self, recover=None):
        r = self.r
        islock = 1 if r.random() < 0.6 else 0
        flag = r.choice([0, 0, 0, 2, 4, 6])
        eflag = r.choice([0, 0, 0x4000, 0x0400, 0x0040, 0x1000])
        expried = r.choice([0, 0, 10, 65535])
        locked = r.choice([1, 1, 1, 0, 0, 2, 7])
        waited = 1 if r.random() < 0.2 else 0
        rec = (1 if r.random() < 0.3 else 0) if recover is None else recover
        return "%d %d %d %d %d %d %d" % (islock, flag, eflag, expried, locked, waited, rec)

    def valid_case(self):
        r = self.r
        steps = []
        n = r.randint(1, 30)
        pending = []           # slots with requireRecover data outstanding
        for _ in range(n):
            c = r.random()
            if c < 0.78:
                slot = r.randrange(4)
                kind, fr = self.op()
                env = self.env()
                steps.append("P %d %s x%s" % (slot, env, fr.hex()))
                if env.endswith("1"):
                    pending.append(slot)
            elif c < 0.86 and pending:
                steps.append("R %d" % pending.pop(r.randrange(len(pending))))
            elif c < 0.91:
                steps.append("A %d" % (pending.pop() if pending and r.random() < 0.7 else r.randrange(4)))
            elif c < 0.96:
                steps.append("F %d %d" % (r.randrange(4), r.randrange(2)))
            else:
                steps.append("G")
        return " ; ".join(steps)

    def grow_case(self, big=False):
        """one value grown step by step across the size boundaries of its encodings (an array by PUSH, a string by
        APPEND: total 256 bytes = second byte of the 4-byte lengths; big: 65536 = third byte), read back, shrunk again
        by POP / SHIFT, grown once more; one operation in the middle with requireRecover and its recovery"""
        r = self.r
        arr = r.random() < 0.7
        piece = (lambda: bytes(r.choice(b"abcxyz\x00\xff") for _ in range(r.choice([1800, 2047, 2048, 2500])))) if big else \
                (lambda: bytes(r.choice(b"abcxyz\x00\xff") for _ in range(r.choice([5, 8, 8, 13, 31, 40]))))
        steps = ["P 0 1 0 0 10 1 0 0 x%s" % (f_set_array([piece() for _ in range(r.randint(0, 2))]) if arr else f_set(piece())).hex()]
        n = r.randint(30, 45)
        rec_at = r.randrange(n)
        for i in range(n):
            fr = f_push(piece()) if arr else f_append(piece())
            if i == rec_at:
                steps.append("P 0 1 0 0 10 1 0 1 x%s" % fr.hex())
                steps.append("R 0")
            else:
                steps.append("P 0 1 0 0 10 1 0 0 x%s" % fr.hex())
            if r.random() < 0.15:
                steps.append("G")
        steps.append("G")
        for _ in range(r.randint(1, 4)):
            steps.append("P 0 1 0 0 10 1 0 0 x%s" % (f_pop(r.randint(1, 3)) if r.random() < 0.5 else f_shift(r.randint(1, 3))).hex())
        for _ in range(r.randint(2, 6)):
            steps.append("P 0 1 0 0 10 1 0 0 x%s" % (f_push(piece()) if arr else f_append(piece())).hex())
        steps.append("G")
        return " ; ".join(steps)

    def recover_case(self):
        """value built by a few operations, then one operation with requireRecover immediately recovered"""
        r = self.r
        steps = []
        for _ in range(r.randint(0, 3)):
            kind, fr = self.op(kinds=["SET", "SETARR", "INCR", "APPEND", "PUSH", "PUSH", "UNSET"])
            steps.append("P 0 1 0 0 10 1 0 0 x%s" % fr.hex())
        kind, fr = self.op()
        steps.append("P 1 1 0 0 10 1 0 1 x%s" % fr.hex())
        steps.append("R 1")
        steps.append("G")
        return " ; ".join(steps)

    # ---- malformed stream
    def mutate(self, fr):
        r = self.r
        b = bytearray(fr)
        c = r.random()
        if c < 0.25 and len(b) > 0:                       # truncate (keeping the prefix consistent half of the time)
            b = b[:r.randrange(len(b))]
            if r.random() < 0.5 and len(b) >= 4:
                b[0:4] = le32(len(b) - 4)
        elif c < 0.45 and len(b) >= 8:                    # lie in the property header
            b[5] |= 0x10
            b[6:8] = struct.pack("<H", r.choice([0, 1, 2, len(b) - 8, len(b) - 7, len(b), 65535, r.randrange(65536)]) & 0xffff)
        elif c < 0.6 and len(b) > 6:                      # lie in some 4-byte length inside the payload
            i = r.randrange(6, len(b))
            b[i:i + 4] = le32(r.choice([0, 1, 2, 5, len(b), 0xffffffff, 0x7fffffff, r.randrange(1 << 16)]))[:max(0, min(4, len(b) - i))]
        elif c < 0.75 and len(b) > 4:                     # flip header bits
            b[4] = r.choice([b[4] ^ (1 << r.randrange(8)), r.randrange(256), r.choice([0, 1, 2, 3, 4, 6, 7, 8, 9, 63])])
            if r.random() < 0.5:
                b[5] = r.choice([b[5] ^ (1 << r.randrange(8)), r.randrange(256)])
        elif c < 0.9:                                     # random bytes of every length 0..64 with a plausible header
            n = r.randrange(65)
            b = bytearray(r.randrange(256) for _ in range(n))
            if n >= 4 and r.random() < 0.8:
                b[0:4] = le32(n - 4)
            if n >= 6 and r.random() < 0.8:
                b[4] = r.choice([0, 1, 2, 3, 4, 6, 7, 8])
                b[5] = r.choice([0, 1, 2, 0x10, 0x12, 0x20, 0x11, r.randrange(256)])
        else:
            for _ in range(r.randint(1, 3)):
                if b:
                    b[r.randrange(len(b))] = r.randrange(256)
        # EXECUTE (type 5) is outside the model: avoid producing it at the top level on purpose (it may still appear nested)
        if len(b) >= 5 and (b[4] & 0x3f) == 5:
            b[4] ^= 1
        return bytes(b)

    def malformed_case(self, idx):
        r = self.r
        steps = []
        # a stored value first (possibly itself malformed: client SET frames are stored verbatim)
        c = r.random()
        if c < 0.3:
            pass
        elif c < 0.65:
            _, fr = self.op(kinds=["SET", "SETARR", "SETARR", "INCR", "APPEND", "PUSH", "PIPELINE"])
            steps.append("P 0 1 0 0 10 1 0 0 x%s" % fr.hex())
        else:
            _, fr = self.op(kinds=["SET", "SETARR", "SETARR", "PUSH"])
            m = bytearray(self.mutate(fr))
            if len(m) >= 5:
                m[4] = 0                                   # keep it a SET so that it is stored
            steps.append("P 0 1 0 0 10 1 0 0 x%s" % bytes(m).hex())
        if idx < 65 * 4:                                   # every length 0..64, four header variants
            n, variant = idx // 4, idx % 4
            b = bytearray(r.randrange(256) for _ in range(n))
            if n >= 4:
                b[0:4] = le32(n - 4)
            if n >= 5:
                b[4] = [0, 2, 6, 8][variant] if r.random() < 0.7 else r.choice([1, 3, 4, 7])
            if n >= 6:
                b[5] = r.choice([0, 0x10, 0x02, 0x12, 0x01])
            fr = bytes(b)
        else:
            _, good = self.op()
            fr = self.mutate(good)
            if r.random() < 0.3:                           # wrap the malformed frame into a (valid or cut) pipeline
                items = [self.op(1)[1] for _ in range(r.randint(0, 2))] + [fr] + [self.op(1)[1] for _ in range(r.randint(0, 2))]
                fr = f_pipeline(items)
                if r.random() < 0.3:
                    fr = fr[:len(fr) - r.randint(1, 5)]
                    fr = le32(len(fr) - 4) + fr[4:] if len(fr) >= 4 else fr
        rec = 1 if r.random() < 0.25 else 0
        steps.append("P 1 %s x%s" % (self.env(rec), fr.hex()))
        if r.random() < 0.35:
            _, fr2 = self.op(kinds=["POP", "POP", "SHIFT", "PUSH", "APPEND", "INCR"])
            steps.append("P 2 1 0 0 10 1 0 0 x%s" % fr2.hex())
        if rec:
            steps.append("R 1")
        return " ; ".join(steps)


# ------------------------------------------------------------------------------------------------ running both sides
def run_lines(cmd, lines, timeout):
    inp = ("\n".join(lines) + "\n").encode()
    p = subprocess.run(cmd, input=inp, stdout=subprocess.PIPE, stderr=subprocess.PIPE, timeout=timeout)
    if p.returncode != 0:
        raise vlib.BuildError("%s exited with %d: %s" % (cmd[0], p.returncode, p.stderr.decode("utf-8", "replace")[-2000:]))
    out = p.stdout.decode().split("\n")
    if out and out[-1] == "":
        out.pop()
    return out


def strip_cause(line):
    return re.sub(r"(panic:[^ #;]*)#[A-Z-]*", r"\1", line)


def step_kind(step):
    f = step.split()
    if f[0] == "P":
        fr = bytes.fromhex(f[9][1:])
        if len(fr) < 6:
            return "SHORT"
        return OPNAMES.get(fr[4] & 0x3f, "OTHER")
    return {"R": "RECOVER", "A": "ACK", "F": "AOF", "G": "GET", "C": "SETUP", "L": "SETUP"}[f[0]]


def parse_obs(part):
    """'ok[:ret] cur=.. ld=a b c d' -> (result, cur, [ld...])   |  'panic:site' -> (result, None, None)"""
    f = part.split()
    if len(f) == 1:
        return f[0], None, None
    return f[0], f[1][4:], [f[2][3:]] + f[3:]


def value_hex(cur):
    """hex of GetLockData() from a printed currentData"""
    if cur == "-":
        return "-"
    d, _cap, typ, _aof = cur.split("/")
    return "-" if typ == "1" else d


def env_gate_open(f, fr):
    """does the frame pass the stage / first-or-last gate of ProcessLockData?"""
    if fr[4] >> 6 != 0:
        return False
    if fr[5] & 0x20:
        islock, locked, waited = f[2] == "1", int(f[6]), f[7] == "1"
        return locked == 1 if islock else (locked == 0 and not waited)
    return True


def monitors(case, go_line, model_line):
    """evaluate the property monitors on the Go observations of one case.
    yields (signature, what, detail)"""
    steps = [s.strip() for s in case.split(";") if s.strip()]
    gparts = [p.strip() for p in go_line.split(" ; ")] if go_line else []
    mparts = [p.strip() for p in model_line.split(" ; ")] if model_line else []
    cur_before, lds_before = "-", ["-"] * 4
    for i, st in enumerate(steps):
        if i >= len(gparts):
            break
        res, cur, lds = parse_obs(gparts[i])
        kind = step_kind(st)
        f = st.split()
        if res.startswith("panic:"):
            fn = res[6:]
            cause = "?"
            if i < len(mparts) and mparts[i].startswith("panic:") and "#" in mparts[i]:
                cause = mparts[i].split("#", 1)[1].split()[0]
            yield ("panic:%s:%s" % (fn, cause), "%s step panics in %s (cause %s)" % (kind, fn, cause), {"step": i, "kind": kind})
            return
        if f[0] == "P":
            fr = bytes.fromhex(f[9][1:])
            if len(fr) >= 6 and env_gate_open(f, fr):
                want = spec_apply(abs_value(value_hex(cur_before)), fr)
                got = abs_value(value_hex(cur))
                if want != "n/a" and not (isinstance(got, tuple) and got[0] == "?") and want != got:
                    yield ("value:%s" % kind, "value after a well-formed %s differs from the sequential interpreter" % kind,
                           {"step": i, "kind": kind, "want": repr(want), "got": repr(got)})
            # recover monitor: P(recover=1) ; R on the same slot right after
            before = abs_value(value_hex(cur_before))
            before_wf = not (isinstance(before, tuple) and (before[0] == "?" or (before[0] & 2 and
                             b"".join(le32(len(e)) + e for e in parse_array(before[2])) != before[2])))
            if f[8] == "1" and before_wf and lds_before[int(f[1])] == "-" and frame_parts(fr) is not None and i + 1 < len(steps) and i + 1 < len(gparts) and steps[i + 1].split() == ["R", f[1]]:
                r2, cur2, _ = parse_obs(gparts[i + 1])
                if r2 == "ok" and norm_value(abs_value(value_hex(cur2))) != norm_value(abs_value(value_hex(cur_before))):
                    yield ("recover:%s" % kind, "ProcessRecoverLockData right after a %s with requireRecover does not restore the value" % kind,
                           {"step": i, "kind": kind, "before": value_hex(cur_before), "after_recover": value_hex(cur2)})
        cur_before, lds_before = cur, lds


def shrink(case, pred, budget=200):
    """greedy removal of steps while pred(case) stays true"""
    steps = [s.strip() for s in case.split(";") if s.strip()]
    changed = True
    while changed and budget > 0:
        changed = False
        for i in range(len(steps)):
            cand = steps[:i] + steps[i + 1:]
            budget -= 1
            if cand and pred(" ; ".join(cand)):
                steps, changed = cand, True
                break
    return " ; ".join(steps)


# ------------------------------------------------------------------------------------------------ the check
def run(ctx):
    t0 = time.time()
    repo = vlib.REPO
    coverage = {"evaluations": 0, "distinct_nontrivial": 0, "rule": "", "samples": []}
    # 1. source -> switches
    try:
        fx = derive_fixes(repo)
    except FixDeriveError as e:
        ctx.obligation("model switches derivable from the source text", False, str(e))
        ctx.violation("tie:fixflags", "the guards of the value layer are in a state the model cannot follow: %s" % e,
                      {"broken": "derive_fixes", "detail": str(e)}, found_input=False)
        return ctx.finish(coverage)
    ctx.obligation("model switches derivable from the source text", True)
    with vlib.Lock("coq"):
        vlib.write_if_changed(os.path.join(VERIF, "coq", "Data", "FixFlags.v"), fixflags_v(fx))
    bits = fixbits(fx)
    coverage["fixes_in_force"] = fx
    coverage["variant"] = "unrepaired" if not any(fx.values()) else ("repaired" if all(fx.values()) else "partially repaired")

    # 2. Coq
    ok, log = ctx.coq(["Properties/C15_data.vo"])
    thms = re.findall(r"^(?:Theorem|Lemma) (\w+)", open(os.path.join(VERIF, "coq", "Properties", "C15_data.v")).read(), flags=re.M)
    for t in thms:
        ctx.obligation(t, ok and t in ctx.assumption_report, "" if ok else getattr(ctx, "coq_failure", "")[:600])
    proofs_ok = ok
    # which statements apply to the tree being checked
    coverage["theorems_applicable_to_this_tree"] = (
        "no-panic / refinement theorems for all_fixes apply" if all(fx.values())
        else "refutation lemmas (Data_refuted_*) describe this tree; guarded theorems apply")

    # 3. build both sides
    harness = ctx.go_build("datah", os.path.join(VERIF, "harness", "data"),
                           overlay={"server/zz_verif_data.go": "harness/data/inj/zz_verif_data.go"})
    model = ctx.ocaml_model("data")
    ctx.trusted += [
        "extraction: ocaml/data/Extract.v (ExtrOcamlBasic only), driver ocaml/data/driver.ml (hex/number conversions) -- trusted for the correspondence only",
        "Go harness harness/data/inj/zz_verif_data.go: bare &LockManager{} and &Lock{manager: lm}; frames copied into exact-capacity slices as ReadBytesFrame does",
        "model switches (coq/Data/FixFlags.v) derived from the source text by checks/C15_data.py:derive_fixes (substring tests on the five function bodies)",
        "not modelled: EXECUTE data commands (type 5), LockData.commandDatas; isAof of the LockManagerData objects referenced by lock.data (aliased with currentData in Go, never read) is not compared",
        "aliasing: Go rewrites INCR/APPEND frames in place and stores that slice; the model returns the rewritten frame (process_lock_data_ex) -- compared through currentData and lock.data.aofData",
    ]

    # 4. cases
    g = Gen(ctx.rng)
    thorough = ctx.tier == "thorough"
    n_valid, n_rec, n_mal = (1300, 200, 20000) if not thorough else (60000, 20000, 800000)
    corpus = []
    cdir = os.path.join(VERIF, "corpus", PID)
    for fn in sorted(os.listdir(cdir)) if os.path.isdir(cdir) else []:
        for line in open(os.path.join(cdir, fn)):
            line = line.strip()
            if line and not line.startswith("#"):
                corpus.append(line)
    replay = getattr(ctx, "replay", None)
    if replay:
        rp = json.load(open(replay))["replay"]
        cases, streams = [rp["case"]], [("replay", 1)]
    else:
        valid = [g.valid_case() for _ in range(n_valid)]
        rec = [g.recover_case() for _ in range(n_rec)]
        mal = [g.malformed_case(i) for i in range(n_mal)]
        grow = [g.grow_case(big=(i % 10 == 9)) for i in range(40 if not thorough else 400)]
        cases = corpus + valid + rec + grow + mal
        streams = [("corpus", len(corpus)), ("valid", len(valid)), ("recover", len(rec)), ("grow", len(grow)), ("malformed", len(mal))]
    tg = time.time()
    go_out = run_lines([harness], cases, 1200)
    t_go = time.time() - tg
    tm = time.time()
    mod_out = run_lines([model, bits], cases, 1200)
    t_model = time.time() - tm
    if len(go_out) != len(cases) or len(mod_out) != len(cases):
        raise vlib.BuildError("driver output length mismatch: %d cases, go %d, model %d" % (len(cases), len(go_out), len(mod_out)))

    # 5. diff + monitors
    stats = {"steps": 0, "panic_cases": 0, "unsupported_cases": 0, "mismatch": 0}
    opdist, outcomes, branches, sigs = {}, {}, {}, {}
    mismatches = []
    bounds = []
    acc = 0
    for name, n in streams:
        bounds.append((name, acc, acc + n))
        acc += n

    def stream_of(i):
        for name, a, b in bounds:
            if a <= i < b:
                return name
        return "?"

    for i, case in enumerate(cases):
        gl, ml = go_out[i], mod_out[i]
        steps = [s.strip() for s in case.split(";") if s.strip()]
        mparts = ml.split(" ; ")
        stats["steps"] += len(mparts)
        last = mparts[-1].split()[0] if mparts[-1] else ""
        if last in ("unsupported",):
            stats["unsupported_cases"] += 1
            continue
        if last == "outoffuel":
            mismatches.append((i, "model ran out of fuel"))
            continue
        # distribution / branch coverage
        prev_cur = "-"
        for k, part in enumerate(mparts):
            kind = step_kind(steps[k])
            opdist[kind] = opdist.get(kind, 0) + 1
            res = part.split()[0]
            oc = "panic" if res.startswith("panic:") else "ok"
            outcomes[oc] = outcomes.get(oc, 0) + 1
            if res.startswith("panic:"):
                br = "%s/%s" % (kind, res.split("#", 1)[1] if "#" in res else "panic")
            else:
                _, cur, _ = parse_obs(part)
                if prev_cur == "-":
                    before = "nil"
                else:
                    d, _c, t, _a = prev_cur.split("/")
                    fl = int(d[10:12], 16) if len(d) >= 12 else 0
                    before = "unset" if t == "1" else ("array" if fl & 2 else "number" if fl & 1 else "bytes") + ("+props" if fl & 0x10 else "")
                br = "%s/%s/%s" % (kind, before, "same" if cur == prev_cur else "changed")
                prev_cur = cur
            branches[br] = branches.get(br, 0) + 1
        if strip_cause(ml) != gl:
            stats["mismatch"] += 1
            mismatches.append((i, "model and implementation disagree"))
        if "panic:" in gl:
            stats["panic_cases"] += 1
        for sig, what, det in monitors(case, gl, ml):
            sigs.setdefault(sig, []).append((i, what, det))

    # monitor violations: shrink the first witness of every signature
    def go_pred(sig):
        def pred(c):
            try:
                o = run_lines([harness], [c], 60)[0]
                m = run_lines([model, bits], [c], 60)[0]
            except Exception:
                return False
            return any(s == sig for s, _, _ in monitors(c, o, m))
        return pred

    reported = {}
    for sig, hits in sorted(sigs.items()):
        i, what, det = hits[0]
        small = shrink(cases[i], go_pred(sig)) if len(reported) < 40 else cases[i]
        o = run_lines([harness], [small], 60)[0]
        r = ctx.violation(sig, what, {"case": small, "go_observation": o, "stream": stream_of(i), "count": len(hits), "detail": det,
                                      "how": "printf '%s\\n' '<case>' | build/datah   (harness/data, built with -tags verif -overlay)"})
        reported[sig] = {"status": r, "count": len(hits), "witness": small}
    # correspondence violations
    for i, why in mismatches[:5]:
        def differs(c):
            try:
                return strip_cause(run_lines([model, bits], [c], 60)[0]) != run_lines([harness], [c], 60)[0]
            except Exception:
                return False
        small = shrink(cases[i], differs)
        ctx.violation("corr:data:%s" % stream_of(i), "%s (value layer, fixes=%s)" % (why, bits),
                      {"case": small, "model": run_lines([model, bits], [small], 60)[0], "go": run_lines([harness], [small], 60)[0],
                       "broken": "correspondence Data.v <-> ProcessLockData"}, found_input=False)
    ctx.obligation("correspondence: model = implementation on every generated case", not mismatches,
                   "%d mismatching cases" % len(mismatches) if mismatches else "")
    if not proofs_ok:
        ctx.violation("proof:C15_data", "Properties/C15_data.v no longer checks: %s" % getattr(ctx, "coq_failure", "")[:500],
                      {"broken": "coq", "log": getattr(ctx, "coq_failure", "")}, found_input=False)

    coverage.update({
        "evaluations": len(cases),
        "steps": stats["steps"],
        "distinct_nontrivial": len(branches),
        "rule": "distinct (operation kind / kind of the value before / changed-or-not | panic cause) classes reached by the model",
        "streams": dict(streams),
        "op_distribution": dict(sorted(opdist.items())),
        "outcomes": outcomes,
        "model_branches": dict(sorted(branches.items())),
        "cases_with_go_panic": stats["panic_cases"],
        "cases_unsupported_execute": stats["unsupported_cases"],
        "mismatches": stats["mismatch"],
        "monitor_signatures": reported,
        "samples": cases[len(corpus):len(corpus) + 3] + cases[-2:],
        "timing_s": {"go": round(t_go, 2), "model": round(t_model, 2), "coq": round(getattr(ctx, "coq_time", 0), 2), "total": round(time.time() - t0, 2)},
    })
    return ctx.finish(coverage, assumptions=[
        "every byte of a frame is < 256 (bytes_ok) -- true of Go []byte",
        "the value layer is entered with command.CommandType in {LOCK, UNLOCK} and a non-nil command.Data",
    ])
