"""C01 — mutual exclusion / Count capacity bound (DESIGN.md section 5 C01)."""
from checks import _engine

MANIFEST = dict(
    technique="Coq proof over the executable engine model (induction over action lists / invariant) + differential correspondence check model vs real LockDB",
    text="Theorems in coq/Properties/C01*.v are machine-checked for all states/actions/histories of the lock-engine model: every new holder is admitted only under the doLock rule on the recorded counters (locked <= Count of request and of oldest holder, explicit 0xffff branch), the locked counter equals the sum of outstanding depths in every reachable state of the core subset, and (C01_bound.v) when every request on a key uses Count c < 0xffff the key has at most c + 1 holders (exactly one for Count 0), locked <= (c+1)(p+1) with Rcount <= p; 'locked <= c+1' is refuted under re-entrancy (depth counts levels). The model is tied to server/db.go + server/lock.go on every run by executing the same seeded histories on the real LockDB (in-package harness, manual clock) and on the extracted model and diffing replies, AOF records and full snapshots (holders, waiters, depths, reference counts, counters). A monitor (executable statement of the bound on implementation replies/snapshots) searches a concrete failing history when a proof or the correspondence breaks.",
    note="Trusted: Coq kernel; hand-written model validated by the correspondence check; extraction (ExtrOcamlBasic only); harness + hooks; sequential schedules at request/sweep granularity, one shard (see evidence trusted_base). Lock-free key table (CAS protocol) and PriorityMutex are modelled as atomic, not verified.",
)
PROFILES = [("core", 0.2), ("count", 0.25), ("waiters", 0.15), ("reentrant", 0.1), ("expiry", 0.08), ("sched", 0.12), ("sched2", 0.1), ("many", 0.02)]
MONITORS = ["C01", "C01H", "PANIC"]


def boundary(ctx, run):
    """65 535+ holds on one key (Count 0xffff) and probes around the explicit unlimited branch of doLock: run on the
    implementation only (the extracted model is quadratic at this size); the bound is checked on the replies."""
    import glob, os
    from tools import engine_corr as ec
    out = []
    for f in sorted(glob.glob(os.path.join(_engine.vlib.VERIF, "corpus", "C01", "*.implcase"))):
        txt, err, rc = ec.run_bin(run.impl, f, timeout=300)
        before = 0
        req = {}
        lines = [l.rstrip("\n") for l in open(f)]
        for l in lines:
            if l.startswith("req "):
                x = l.split(); req[int(x[3])] = int(x[11])
        for ln in txt.splitlines():
            if ln.startswith("ev panic"):
                out.append(("panic:" + ln.split()[2].split("/")[-1], "server code panicked in the boundary scenario: " + ln, {"impl_case": lines}))
            if ln.startswith("ev reply"):
                x = ln.split()
                rid, res, lrc = int(x[3]), int(x[4]), int(x[6])
                if res == 0 and lrc == 1 and rid in req and before > 0:
                    c = req[rid]
                    if before > c:
                        sig = "count-bound:unlimited-readers-beyond-65535" if (c == 0xffff and before >= 0xffff) else "count-bound:new-holder-over-count:boundary"
                        out.append((sig, "request %d (Count %d) granted as new holder with %d holds outstanding" % (rid, c, before), {"impl_case": lines, "observed": ln}))
            if ln.startswith("snap "):
                before = int([t for t in ln.split() if t.startswith("LD=")][0][3:])
    return out


def full_key_after_scale_switch(rng, cid0):
    """a key filled to its limit by more holders than the inline holder array takes (the holder list switches to the
    map-indexed queue): a holder in the middle leaves, another LockId takes the free slot, the first one comes back with
    its old LockId -- it is a NEW holder now and must be refused (the key is full), whatever the map still remembers"""
    cases = []
    for j in range(2):
        n = rng.choice([226, 240, 300])
        key = 51 + j
        lines = ["case %d 1000000 1 %d" % (cid0 + j, j)]
        rid = 780000 + 2000 * j
        for i in range(n):
            lines.append("req 1 L %d 0 %d %d 0 0 0 600 %d 0 -" % (rid, 9500 + i, key, n - 1)); rid += 1
        lines.append("req 2 L %d 0 9499 %d 0 0 0 600 %d 0 -" % (rid, key, n - 1)); rid += 1          # full: TIMEOUT
        gone = 9500 + n - rng.choice([3, 20, 40])
        lines.append("req 1 U %d 0 %d %d 0 0 0 0 0 0 -" % (rid, gone, key)); rid += 1
        lines.append("req 2 L %d 0 9498 %d 0 0 0 600 %d 0 -" % (rid, key, n - 1)); rid += 1          # takes the free slot
        lines.append("req 1 L %d 0 %d %d 0 0 0 600 %d 0 -" % (rid, gone, key, n - 1)); rid += 1     # old LockId again: full
        lines.append("req 1 L %d 0 %d %d 0 0 0 600 %d 3 -" % (rid, gone, key, n - 1)); rid += 1     # ... also with Rcount 3
        lines += ["adv 0", "role 1"]
        for i in range(n + 6):
            lines.append("req 1 U %d 1 0 %d 0 0 0 0 0 0 -" % (rid, key)); rid += 1
        lines += ["adv 1", "sweept", "sweepe", "adv 700", "sweept", "sweepe"] + ["adv 1", "sweept", "sweepe"] * 12
        lines.append("end")
        cases.append(lines)
    return cases


def run(ctx):
    if getattr(ctx, "replay", None):
        return _engine.replay(ctx, "C01", MONITORS)
    return _engine.run_engine_check(ctx, "C01", PROFILES, MONITORS, n_quick=500, n_thorough=20000,
                                    extra_targets=["Codec/DecisionBridge.vo"], impl_only=boundary, extra_cases=full_key_after_scale_switch)
