"""C01 — mutual exclusion / Count capacity bound (DESIGN.md section 5 C01)."""
from checks import _engine

MANIFEST = dict(
    technique="Coq proof over the executable engine model (induction over action lists / invariant) + differential correspondence check model vs real LockDB",
    text="Theorems in coq/Properties/C01*.v are machine-checked for all states/actions/histories of the lock-engine model: every new holder is admitted only under the doLock rule on the recorded counters (locked <= Count of request and of oldest holder, explicit 0xffff branch), and the locked counter equals the sum of outstanding depths in every reachable state of the core subset. The model is tied to server/db.go + server/lock.go on every run by executing the same seeded histories on the real LockDB (in-package harness, manual clock) and on the extracted model and diffing replies, AOF records and full snapshots (holders, waiters, depths, reference counts, counters). A monitor (executable statement of the bound on implementation replies/snapshots) searches a concrete failing history when a proof or the correspondence breaks.",
    note="Trusted: Coq kernel; hand-written model validated by the correspondence check; extraction (ExtrOcamlBasic only); harness + hooks; sequential schedules at request/sweep granularity, one shard (see evidence trusted_base). Lock-free key table (CAS protocol) and PriorityMutex are modelled as atomic, not verified.",
)
PROFILES = [("core", 0.25), ("count", 0.3), ("waiters", 0.2), ("reentrant", 0.1), ("expiry", 0.1), ("many", 0.02)]
MONITORS = ["C01", "PANIC"]


def run(ctx):
    if getattr(ctx, "replay", None):
        return _engine.replay(ctx, "C01", MONITORS)
    return _engine.run_engine_check(ctx, "C01", PROFILES, MONITORS, n_quick=500, n_thorough=20000)
