"""C09 -- followers apply the leader's log exactly and converge.

1. Coq: Properties/C09.vo (ring refinement + sync protocol invariant, all schedules).
2. Ring correspondence: the real ReplicationBufferQueue (harness/repl, injected in-package) and the extracted
   Coq model (ocaml/repl) run the same generated operation sequences; every return value, error class and the final
   contents of both linked lists are diffed.  The *monitor* (executable statement, evaluated on the implementation's
   own trace) says: what a cursor pops is a contiguous, duplicate-free, in-order run of the pushed sequence, never a
   wrong record, and a gap is always reported as an error.
3. Process level: real slock binaries (leader + follower through harness/repl/cmd/faultproxy), connection cuts in
   both phases, follower's append files compared record by record with the leader's (one scenario on a rotated log).
4. Publication order (Handover.v): the variant of the lock hand-over in Aof.PushLock is read off the source text; a stress
   run on a real in-process node (concurrent PushLock calls, directly and through the shards' AofChannel goroutines, with
   rotation) compares the order of (AofIndex, AofOffset) in the ring with the order in the append files.
5. Full transfer on rotated logs (Transfer.v): the variant of the boundary test in sendFiles is read off the source text;
   the real sendFiles runs on generated rotated (and compacted) logs for every boundary and is compared with the
   extracted Transfer.send_files; the monitor says: what is sent is exactly the persisted records below the boundary.
"""
import json, os, re, shutil, signal, socket, struct, subprocess, sys, tempfile, time

from tools import vlib

MANIFEST = {
    "property": "C09",
    "coq": ["Repl/Ring.v", "Repl/Sync.v", "Repl/ReplProofs.v", "Repl/SyncProofs.v", "Repl/Transfer.v", "Repl/Handover.v",
            "Properties/C09.v"],
    "harness": "harness/repl",
    "model": "ocaml/repl",
}

THEOREMS = []  # filled from Properties/C09.v at run time


# ------------------------------------------------------------------------------------------------ generator
class Gen:
    """One ring case = header + op list.  Lifecycle mode mirrors how ReplicationServer uses a cursor
    (init by nothing/Head/Search/resume-at-end, AddPoll, {Sent, Pop}*, RemovePoll); chaos mode mixes freely."""

    def __init__(self, rng):
        self.rng = rng

    def case(self, mode=None):
        r = self.rng
        mode = mode or r.choice(["life", "life", "life", "chaos", "slow"])
        bs = r.choice([0, 64, 128, 192, 256, 320, 512, 1024, 2048])
        mx = r.choice([bs, bs, 2 * bs, 4 * bs, 8 * bs, 0, 100000])
        ops = []
        st = {"idx": r.choice([1, 1, 2, 7]), "off": r.choice([0, 0, 5, 1000]), "tm": 1000 + r.randrange(50), "n": 0,
              "ids": []}
        st["last0"] = (st["off"], st["idx"], st["tm"]) if st["off"] > 0 and r.random() < 0.8 else (0, st["idx"], 0)

        def push():
            if r.random() < 0.06:
                st["idx"] += 1
                st["off"] = 0
            st["off"] += 1
            st["tm"] += r.choice([0, 0, 0, 1, 2])
            tag = 1000 + st["n"]
            st["n"] += 1
            if r.random() < 0.2:
                dl, fill = r.choice([0, 1, 7, 60, 64, 200, 500]), r.randrange(1, 255)
            else:
                dl, fill = -1, 0
            st["ids"].append((st["off"], st["idx"], st["tm"]))
            ops.append("P %d %d %d %d %d %d" % (st["off"], st["idx"], st["tm"], tag, dl, fill))

        def some_id():
            k = r.random()
            if st["ids"] and k < 0.75:
                # recent ids mostly (likely buffered), sometimes old (likely evicted)
                if r.random() < 0.6:
                    return st["ids"][max(0, len(st["ids"]) - 1 - r.randrange(6))]
                return r.choice(st["ids"])
            if st["ids"] and k < 0.85:
                o, i, t = r.choice(st["ids"])
                return (o, i, t + 1)  # same position, different time: never existed
            return (st["off"] + 50, st["idx"], st["tm"])

        ncur = r.choice([1, 1, 2, 3])
        if mode == "chaos":
            for k in range(ncur):
                ops.append("C %d" % k)
            for _ in range(r.randrange(20, 90)):
                x = r.random()
                k = r.randrange(ncur)
                if x < 0.45:
                    push()
                elif x < 0.70:
                    ops.append("O %d" % k)
                elif x < 0.78:
                    ops.append("W %d" % k)
                elif x < 0.83:
                    ops.append("S %d %d %d %d" % ((k,) + some_id()))
                elif x < 0.86:
                    ops.append("H %d" % k)
                elif x < 0.90:
                    ops.append("A %d" % k)
                elif x < 0.94:
                    ops.append("R %d" % k)
                elif x < 0.97:
                    ops.append("C %d" % k)
                else:
                    ops.append("Y %d %d %d %d" % ((k,) + (some_id() if r.random() < 0.7 else st["last0"])))
            return "%d %d %d %d %d | %s" % (bs, mx, st["last0"][0], st["last0"][1], st["last0"][2], " | ".join(ops))

        # lifecycle / slow-follower mode: per cursor a little state machine, interleaved with pushes
        phase = {}  # k -> "none" | "init" | "polling"
        for k in range(ncur):
            phase[k] = "none"
        for _ in range(r.randrange(4)):
            push()
        nsteps = r.randrange(25, 110)
        speed = {k: (r.choice([0.05, 0.1, 0.3]) if mode == "slow" else r.choice([0.3, 0.6, 0.9])) for k in range(ncur)}
        for _ in range(nsteps):
            x = r.random()
            if x < (0.55 if mode == "slow" else 0.4):
                push()
                continue
            k = r.randrange(ncur)
            if phase[k] == "none":
                ops.append("C %d" % k)
                y = r.random()
                if y < 0.3:
                    ops.append("H %d" % k)
                elif y < 0.65:
                    ops.append("Y %d %d %d %d" % ((k,) + some_id()))
                elif y < 0.8:
                    ops.append("Y %d %d %d %d" % ((k,) + (st["ids"][-1] if st["ids"] and r.random() < 0.5 else (st["ids"][-1] if st["ids"] else st["last0"]) if r.random() < 0.5 else some_id())))
                phase[k] = "init"
            elif phase[k] == "init":
                # the window between handleInitSync and addServerChannel: pushes may intervene
                ops.append("A %d" % k)
                phase[k] = "polling"
            else:
                if r.random() < 0.04:
                    ops.append("R %d" % k)
                    phase[k] = "none"
                elif r.random() < speed[k] or mode != "slow":
                    ops.append("W %d" % k)
                    ops.append("O %d" % k)
        return "%d %d %d %d %d | %s" % (bs, mx, st["last0"][0], st["last0"][1], st["last0"][2], " | ".join(ops))


# ------------------------------------------------------------------------------------------------ monitor
def hexs(tok):
    return [int(x, 16) for x in tok.split(".")]


def monitor_ring(case, outline):
    """Executable statement on an implementation trace.  Returns list of (kind, detail)."""
    bad = []
    ops = [o.split() for o in case.split("|")[1:]]
    ops = [o for o in ops if o]
    left = outline.split("|")[0].split()
    if "PANIC" in outline:
        bad.append(("panic", outline[-200:]))
    pushed = []  # (off, idx, time, tag, dlenobs, fill)
    bytag = {}
    pos = {}  # cursor -> index of the record it stands on (None = never positioned)
    for i, o in enumerate(ops):
        if i >= len(left):
            break
        ob = left[i]
        if ob.startswith("PANIC"):
            break
        if o[0] == "P":
            dl = int(o[5])
            rec = (int(o[1]), int(o[2]), int(o[3]), int(o[4]), 0 if dl < 0 else dl + 1, 0 if dl <= 0 else int(o[6]))
            bytag[rec[3]] = len(pushed)
            pushed.append(rec)
            continue
        k = int(o[1])
        if o[0] == "C":
            pos[k] = None
            continue
        if ob == "63":
            continue
        v = hexs(ob)
        if o[0] == "Y" and v[0] == 7:
            pos[k] = len(pushed) - 1 if pushed else None
            if pushed and pushed[-1][:3] != (int(o[2]), int(o[3]), int(o[4])):
                pos[k] = None  # resumed on the initial id: nothing of this history pushed yet
            continue
        if o[0] in ("O", "H", "S", "Y"):
            if v[0] == 0:
                off, idx, tm, tag, dl, fill, seq = v[1:8]
                j = bytag.get(tag)
                if j is None or pushed[j] != (off, idx, tm, tag, dl, fill):
                    bad.append(("wrong-record", "op %d %s delivered %r" % (i, " ".join(o), v)))
                    pos[k] = None
                    continue
                if o[0] == "O":
                    p = pos.get(k)
                    if p is not None and j > p + 1:
                        bad.append(("gap", "op %d cursor %d stood on record %d, Pop delivered record %d without error" % (i, k, p, j)))
                    elif p is not None and j <= p:
                        bad.append(("dup-or-reorder", "op %d cursor %d stood on record %d, Pop delivered record %d" % (i, k, p, j)))
                elif o[0] == "H" and j != len(pushed) - 1:
                    bad.append(("head-not-last", "op %d" % i))
                elif o[0] in ("S", "Y") and pushed[j][:3] != (int(o[2]), int(o[3]), int(o[4])):
                    bad.append(("search-wrong-id", "op %d" % i))
                pos[k] = j
            elif v[0] == 1 and o[0] == "O":
                p = pos.get(k)
                if p is not None and p < len(pushed) - 1:
                    bad.append(("false-eof", "op %d cursor %d stands on %d of %d pushed but Pop says EOF" % (i, k, p, len(pushed))))
    return bad


def lifecycle_ok(case):
    """True when every cursor is used the way ReplicationServer uses it: C, optional H/S/E, A, (W O)*, R."""
    ops = [o.split() for o in case.split("|")[1:]]
    st = {}
    for o in ops:
        if not o or o[0] == "P":
            continue
        k = int(o[1])
        s = st.get(k, "none")
        if o[0] == "C":
            if s not in ("none",):
                return False
            st[k] = "new"
        elif o[0] in ("H", "Y"):
            if s != "new":
                return False
            st[k] = "inited"
        elif o[0] == "A":
            if s not in ("new", "inited"):
                return False
            st[k] = "poll"
        elif o[0] in ("W", "O"):
            if s != "poll":
                return False
        elif o[0] == "S":
            return False
        elif o[0] == "R":
            if s != "poll":
                return False
            st[k] = "none"
    return True


def ring_root_cause(case, outline):
    """seq0-evicted-before-addpoll: some cursor was positioned (Head / handleInitSync) on the item with seq 0 and at its AddPoll
    the ring's oldest buffered seq (rseq - live count) was already > 0."""
    ops = [o.split() for o in case.split("|")[1:] if o.strip()]
    left = outline.split("|")[0].split()
    seq_of = {}
    for o, ob in zip(ops, left):
        if o[0] in ("H", "Y", "S") and ob.startswith("0."):
            seq_of[int(o[1])] = hexs(ob)[7]
        elif o[0] == "C":
            seq_of.pop(int(o[1]), None)
        elif o[0] == "A" and seq_of.get(int(o[1])) == 0:
            v = hexs(ob)
            if v[0] - v[5] > 0:
                return "seq0-evicted-before-addpoll"
    return "other"


def run_lines(exe, lines, timeout=600, args=()):
    p = subprocess.run([exe] + list(args), input=("\n".join(lines) + "\n").encode(), stdout=subprocess.PIPE, stderr=subprocess.STDOUT,
                       timeout=timeout)
    return p.stdout.decode("utf-8", "replace").splitlines()


def shrink_case(case, pred):
    """Greedy removal of ops while pred(case) keeps holding."""
    hdr, ops = case.split("|")[0], [o.strip() for o in case.split("|")[1:] if o.strip()]
    changed = True
    while changed:
        changed = False
        i = len(ops) - 1
        while i >= 0:
            cand = ops[:i] + ops[i + 1:]
            c = hdr.strip() + " | " + " | ".join(cand)
            try:
                if cand and pred(c):
                    ops = cand
                    changed = True
            except Exception:
                pass
            i -= 1
    return hdr.strip() + " | " + " | ".join(ops)


def ring_signature(case, kind):
    """Stable signature of a monitor failure: kind + how the offending cursor was positioned."""
    ops = [o.split() for o in case.split("|")[1:] if o.strip()]
    kinds = "".join(o[0] for o in ops if o[0] != "P")
    kinds = re.sub(r"(WO)+", "(WO)", kinds)
    kinds = re.sub(r"O+", "O", kinds)
    return "ring:%s:%s" % (kind, kinds[:24])


# ------------------------------------------------------------------------------------------------ check
def ring_part(ctx, impl, model, ncases, cov, flags):
    g = Gen(ctx.rng)
    cases = []
    cdir = os.path.join(vlib.VERIF, "corpus", "C09")
    if os.path.isdir(cdir):
        for f in sorted(os.listdir(cdir)):
            if f.endswith(".ring"):
                cases += [l.strip() for l in open(os.path.join(cdir, f)) if l.strip() and not l.startswith("#")]
    ncorpus = len(cases)
    while len(cases) < ncorpus + ncases:
        cases.append(g.case())
    t0 = time.time()
    margs = ["1" if flags["fresh_exempt"] else "0", "1" if flags["poll_freed"] else "0"]
    oi = run_lines(impl, cases)
    om = run_lines(model, cases, args=margs)
    cov["ring_time_s"] = round(time.time() - t0, 2)
    ndiff = 0
    stats = {"ops": 0, "push": 0, "pop_ok": 0, "pop_eof": 0, "pop_oob": 0, "search_ok": 0, "search_err": 0, "evicting_cases": 0,
             "grown_cases": 0, "lifecycle_cases": 0}
    distinct = set()
    monitor_hits = {}
    for i, c in enumerate(cases):
        a = oi[i] if i < len(oi) else "<missing>"
        b = om[i] if i < len(om) else "<missing>"
        ops = [o.split() for o in c.split("|")[1:] if o.strip()]
        stats["ops"] += len(ops)
        stats["push"] += sum(1 for o in ops if o[0] == "P")
        left = a.split("|")[0].split()
        for o, ob in zip(ops, left):
            if o[0] == "O":
                stats["pop_ok" if ob.startswith("0.") else ("pop_eof" if ob == "1" else "pop_oob")] += 1
            if o[0] == "S":
                stats["search_ok" if ob.startswith("0.") else "search_err"] += 1
        dumpl = a.split("|")[1].split() if "|" in a else []
        if dumpl:
            hd = hexs(dumpl[0])
            if hd[0] > hd[5]:
                stats["evicting_cases"] += 1
            if hd[4] > 0:
                stats["grown_cases"] += 1
        lc = lifecycle_ok(c)
        stats["lifecycle_cases"] += 1 if lc else 0
        distinct.add(a)
        if a != b:
            ndiff += 1
            if ndiff <= 3:
                def differs(cc):
                    x, y = run_lines(impl, [cc], 30), run_lines(model, [cc], 30, margs)
                    return x != y
                sc = shrink_case(c, differs)
                x, y = run_lines(impl, [sc], 30), run_lines(model, [sc], 30, margs)
                # a model/implementation disagreement: decide by the monitor on the implementation trace
                mb = monitor_ring(sc, x[0] if x else "")
                ctx.violation("ring-correspondence:" + (mb[0][0] if mb else "model-differs"),
                              "ReplicationBufferQueue and Ring.v disagree on a generated operation sequence",
                              {"case": sc, "impl": x, "model": y, "monitor": mb,
                               "how": "echo '<case>' | build/c09-implrun ; ocaml/repl/modelrun"}, found_input=bool(mb))
        for kind, det in monitor_ring(c, a):
            monitor_hits.setdefault((kind, lc), []).append((c, det))
    # shrink + report monitor hits (one per kind / lifecycle class)
    for (kind, lc), hits in sorted(monitor_hits.items()):
        if not lc:
            continue  # cursor discipline of ReplicationServer not respected (e.g. RemovePoll without AddPoll): counted only
        c0 = min(hits, key=lambda h: len(h[0]))[0]

        def still(cc, kind=kind, lc=lc):
            if lc and not lifecycle_ok(cc):
                return False
            o = run_lines(impl, [cc], 30)
            return any(k == kind for k, _ in monitor_ring(cc, o[0] if o else ""))
        sc = shrink_case(c0, still)
        o = run_lines(impl, [sc], 30)
        mb = monitor_ring(sc, o[0] if o else "")
        cause = ring_root_cause(sc, o[0] if o else "")
        if cause == "seq0-evicted-before-addpoll" and not flags["poll_freed"]:
            cause += ":despite-fix"
        sig = "ring:%s:lifecycle:%s" % (kind, cause)
        ctx.violation(sig, "ring monitor: %s (%d generated sequences, %s cursor use)" % (kind, len(hits), "server-lifecycle" if lc else "arbitrary"),
                      {"case": sc, "impl": o, "monitor": mb, "how": "echo '<case>' | build/c09-implrun"}, found_input=True)
    cov["ring_cases"] = len(cases)
    cov["ring_corpus_cases"] = ncorpus
    cov["ring_model_impl_diffs"] = ndiff
    cov["ring_distribution"] = stats
    cov["ring_monitor_hits"] = {"%s/%s" % (k, "lifecycle" if lc else "free-use"): len(v) for (k, lc), v in monitor_hits.items()}
    return len(cases), len(distinct), cases[:3]


# ------------------------------------------------------------------------------------------------ process level
def parse_dir(d):
    """parse_dir_once, repeated while the node's background compaction renames / removes files under the reader"""
    for _ in range(40):
        try:
            return parse_dir_once(d)
        except FileNotFoundError:
            time.sleep(0.05)
    return parse_dir_once(d)


def parse_dir_once(d):
    """All records of rewrite.aof + append.aof.N in file order:
    [(id = (file index, offset, command time), 64 record bytes with the REWRITED bit cleared, value frame or None)]."""
    files = []
    if os.path.exists(os.path.join(d, "rewrite.aof")):
        files.append("rewrite.aof")
    idx = sorted(int(f.split(".")[-1]) for f in os.listdir(d) if f.startswith("append.aof.") and not f.endswith(".dat"))
    files += ["append.aof.%d" % i for i in idx]
    recs = []
    for f in files:
        b = open(os.path.join(d, f), "rb").read()
        dat = b""
        if os.path.exists(os.path.join(d, f + ".dat")):
            dat = open(os.path.join(d, f + ".dat"), "rb").read()
        dp = 0
        if len(b) < 12:
            continue
        p = 12 + struct.unpack("<H", b[10:12])[0]
        while p + 64 <= len(b):
            r = bytearray(b[p:p + 64])
            p += 64
            r[55] &= 0xfe
            off, ix = struct.unpack("<II", bytes(r[3:11]))
            tm = struct.unpack("<Q", bytes(r[11:19]))[0]
            data = None
            if r[56] & 0x20:
                if dp + 4 <= len(dat):
                    ln = struct.unpack("<I", dat[dp:dp + 4])[0]
                    data = dat[dp:dp + 4 + ln]
                    dp += 4 + ln
                else:
                    data = b"<missing>"
            recs.append(((ix, off, tm), bytes(r), data))
        if p != len(b):
            recs.append((("torn", f, len(b) - p), b"", None))
    return recs


def lid_all(L):
    return [r[0] for r in (L or []) if isinstance(r[0][0], int)]


def monitor_proc(L, F):
    """Executable statement at quiescence: the follower's persisted record sequence is exactly the leader's.
    Returns (kind, detail) or None."""
    if L == F:
        return None
    lid, fid = [r[0] for r in L], [r[0] for r in F]
    lset, fset = set(lid), set(fid)
    extra = [i for i in fid if i not in lset]
    missing = [i for i in lid if i not in fset]
    if extra:
        return ("extra-record", "follower persisted %d record(s) the leader never wrote, first %r" % (len(extra), extra[0]))
    if len(fid) != len(fset):
        pos = {}
        for i, x in enumerate(fid):
            pos.setdefault(x, []).append(i)
        spread = max(p[-1] - p[0] for p in pos.values() if len(p) > 1)
        return ("duplicate-record", "follower persisted %d records, %d distinct ids; copies of one record are at most %d positions apart"
                % (len(fid), len(fset), spread), spread)
    if missing:
        pos = lid.index(missing[0])
        kind = "missing-prefix" if pos == 0 else "gap"
        return (kind, "follower lacks %d of the leader's %d records, first missing %r (position %d), follower continues with later records"
                % (len(missing), len(lid), missing[0], pos), missing)
    if fid != [i for i in lid]:
        return ("reordered", "same ids, different order")
    if all(a[1] == b[1] for a, b in zip(L, F)):
        n = sum(1 for a, b in zip(L, F) if a[2] != b[2])
        return ("value-frames-differ", "same ids and record bytes, but the value frames (.dat) of %d records differ: the follower's data file is "
                "misaligned from the first one on" % n)
    return ("record-bytes-differ", "same ids, different record bytes")


class Scenario:
    def __init__(self, ctx, bins, slot, name, cuts, rst=False, pre=200, during=150, post=100, extra=None, seed=1, unlock=30,
                 data=20, big=0, throttle=0, sleep_us=20000, delay_started=0, restart_leader=False, during_delay=0.0, tail_restart=False):
        self.__dict__.update(locals())
        self.base = 15900 + 10 * slot
        self.dir = "/tmp/c09-%d-%s" % (os.getpid(), name)
        self.log = []
        self.result = None

    def start(self, cmd, out):
        return subprocess.Popen(cmd, stdout=open(out, "w"), stderr=subprocess.STDOUT)

    def workload(self, n, seed, start, sleep_us=0):
        p = subprocess.run([self.bins["workload"], "-port", str(self.base), "-n", str(n), "-seed", str(seed), "-start", str(start),
                            "-unlock", str(self.unlock), "-data", str(self.data), "-big", str(self.big), "-sleep-us", str(sleep_us)],
                           stdout=subprocess.PIPE, stderr=subprocess.STDOUT, timeout=120)
        self.log.append(p.stdout.decode().strip())

    def up(self, port):
        for _ in range(100):
            try:
                socket.create_connection(("127.0.0.1", port), timeout=0.2).close()
                return True
            except OSError:
                time.sleep(0.1)
        return False

    def run_tail_restart(self):
        """the leader stops while its newest append file holds exactly ONE record and the follower has everything but
        that record; the leader is restarted (empty ring: the resume decision falls back to the tail read from the
        files), the follower reconnects and resumes by id: it must end up with the record (resume or full resync)"""
        d = self.dir
        shutil.rmtree(d, ignore_errors=True)
        os.makedirs(d + "/leader")
        os.makedirs(d + "/follower")
        procs = {}
        t_start = time.time()
        try:
            common = ["--bind", "127.0.0.1", "--db_fast_key_count", "1024", "--db_concurrent", "2", "--aof_file_rewrite_size", "524"]
            lcmd = [self.bins["slock"], "--port", str(self.base), "--data_dir", d + "/leader", "--log", d + "/leader.log"] + common
            pcmd = [self.bins["faultproxy"], "-listen", "127.0.0.1:%d" % (self.base + 1), "-target", "127.0.0.1:%d" % self.base, "-cuts", "-1"]
            procs["leader"] = self.start(lcmd, d + "/leader.out")
            self.up(self.base)
            procs["proxy"] = self.start(pcmd, d + "/proxy.out")
            time.sleep(0.2)
            procs["follower"] = self.start([self.bins["slock"], "--port", str(self.base + 2), "--data_dir", d + "/follower", "--log", d + "/follower.log",
                                            "--slaveof", "127.0.0.1:%d" % (self.base + 1)] + common, d + "/follower.out")
            self.up(self.base + 2)
            time.sleep(1.0)

            def agree(n, secs):
                t0 = time.time()
                L = F = None
                while time.time() - t0 < secs:
                    L, F = parse_dir(d + "/leader"), parse_dir(d + "/follower")
                    if L == F and len(L) >= n:
                        break
                    time.sleep(0.3)
                return L, F
            self.workload(self.pre, self.seed, 0)                      # fills the first append file
            L, F = agree(self.pre, 12)
            synced = L == F and len(L) == self.pre
            procs.pop("proxy").kill()                                  # the follower is cut off ...
            time.sleep(0.3)
            self.workload(1, self.seed + 1, 100000)                    # ... exactly before this record
            time.sleep(0.6)
            idx = sorted(int(f.split(".")[-1]) for f in os.listdir(d + "/leader") if f.startswith("append.aof.") and not f.endswith(".dat"))
            newest = os.path.getsize(d + "/leader/append.aof.%d" % idx[-1]) if idx else -1
            procs["leader"].terminate()
            try:
                procs["leader"].wait(timeout=10)
            except Exception:
                procs["leader"].kill()
            procs["leader"] = self.start(lcmd, d + "/leader.out")
            self.up(self.base)
            procs["proxy"] = self.start(pcmd, d + "/proxy2.out")
            L, F = agree(self.pre + 1, 20)                             # the follower retries every 5 s
            self.workload(1, self.seed + 2, 200000)
            L, F = agree(self.pre + 2, 12)
            m = monitor_proc(L, F)
            flog = open(d + "/follower.log").read() if os.path.exists(d + "/follower.log") else ""
            self.result = {"name": self.name, "cuts": "proxy stopped before the last record", "rst": False, "leader_records": len(L), "follower_records": len(F),
                           "equal": m is None, "monitor": m[:2] if m else None, "cause": "restarted-leader-one-record-tail" if m else "other",
                           "newest_leader_file_bytes_at_stop": newest, "boundary_hit": newest == 76, "in_sync_before_the_cut": synced,
                           "workload": self.log, "wall_s": round(time.time() - t_start, 1),
                           "follower_log": [l for l in flog.splitlines() if "Replication client" in l][-14:] if m else []}
        except Exception as e:
            self.result = {"name": self.name, "cuts": "", "error": repr(e), "equal": False, "monitor": ("infrastructure", repr(e)), "cause": "infrastructure"}
        finally:
            for p_ in procs.values():
                try:
                    p_.kill()
                except Exception:
                    pass
            for p_ in procs.values():
                try:
                    p_.wait(timeout=5)
                except Exception:
                    pass
            shutil.rmtree(d, ignore_errors=True)
        return self.result

    def run(self):
        if getattr(self, "tail_restart", False):
            return self.run_tail_restart()
        d = self.dir
        shutil.rmtree(d, ignore_errors=True)
        os.makedirs(d + "/leader")
        os.makedirs(d + "/follower")
        procs = []
        t_start = time.time()
        try:
            common = ["--bind", "127.0.0.1", "--db_fast_key_count", "1024", "--db_concurrent", "2"] + (self.extra or [])
            procs.append(self.start([self.bins["slock"], "--port", str(self.base), "--data_dir", d + "/leader", "--log", d + "/leader.log"] + common,
                                    d + "/leader.out"))
            for _ in range(50):
                try:
                    socket.create_connection(("127.0.0.1", self.base), timeout=0.2).close()
                    break
                except OSError:
                    time.sleep(0.1)
            self.workload(self.pre, self.seed, 0)
            if self.restart_leader:
                # a leader that was restarted and has logged nothing since: its ring is empty at the follower's handshake,
                # the boundary of the full transfer comes from the append file position (handleInitSync)
                time.sleep(0.5)
                procs[0].terminate()
                try:
                    procs[0].wait(timeout=10)
                except Exception:
                    procs[0].kill()
                procs[0] = self.start([self.bins["slock"], "--port", str(self.base), "--data_dir", d + "/leader", "--log", d + "/leader.log"] + common,
                                      d + "/leader.out")
                for _ in range(100):
                    try:
                        socket.create_connection(("127.0.0.1", self.base), timeout=0.2).close()
                        break
                    except OSError:
                        time.sleep(0.1)
            pc = [self.bins["faultproxy"], "-listen", "127.0.0.1:%d" % (self.base + 1), "-target", "127.0.0.1:%d" % self.base, "-cuts", self.cuts]
            if self.rst:
                pc.append("-rst")
            if self.throttle:
                pc += ["-throttle", str(self.throttle)]
            if self.delay_started:
                pc += ["-delay-started-ms", str(self.delay_started)]
            procs.append(self.start(pc, d + "/proxy.out"))
            time.sleep(0.2)
            procs.append(self.start([self.bins["slock"], "--port", str(self.base + 2), "--data_dir", d + "/follower", "--log", d + "/follower.log",
                                     "--slaveof", "127.0.0.1:%d" % (self.base + 1)] + common, d + "/follower.out"))
            if self.during_delay:
                time.sleep(self.during_delay)
            self.workload(self.during, self.seed + 1, 100000, self.sleep_us)
            ncuts = len([c for c in self.cuts.split(",") if c.strip() and c.strip() != "-1"])
            t0 = time.time()
            while time.time() - t0 < 8 + 6 * ncuts:  # every cut costs the follower's 5 s reconnect sleep
                if open(d + "/proxy.out").read().count("accepted") > ncuts:
                    break
                time.sleep(0.25)
            self.workload(self.post, self.seed + 2, 200000)
            t0 = time.time()
            L = F = None
            # cuts that the stream has not reached yet will still fire (each costs the 5 s reconnect sleep)
            pending = max(0, ncuts + 1 - open(d + "/proxy.out").read().count("accepted"))
            while time.time() - t0 < 8 + 7 * pending:  # quiescence: leader idle, follower flushes every 200 ms
                L, F = parse_dir(d + "/leader"), parse_dir(d + "/follower")
                if L == F and len(L) > 0:
                    break
                time.sleep(0.3)
            flog = open(d + "/follower.log").read() if os.path.exists(d + "/follower.log") else ""
            m = monitor_proc(L, F)
            cause = "other"
            if m and m[0] == "duplicate-record" and m[2] <= 64:
                cause = "same-write-buffer"  # both copies fit one 4 KiB AofFile write buffer
            if m and m[0] == "value-frames-differ":
                cause = "data-file-misaligned"
            if m and m[0] in ("gap", "missing-prefix") and len(m) > 2:
                # records lost inside a file transfer that the follower reported as finished
                fin = re.findall(r"start recv files util aofId (\w{8})(\w{8})\w{16}\n(?:(?!start recv files).*\n)*?.*recv files finish", flog)
                if fin:
                    bidx, boff = int(fin[-1][0], 16), int(fin[-1][1], 16)
                    if all((i[0], i[1]) < (bidx, boff) for i in m[2]) and len(m[2]) <= 64:
                        cause = "within-completed-file-transfer"
                    elif all((i[0], i[1]) < (bidx, boff) for i in m[2]) and len({i[0] for i in lid_all(L)}) > 1:
                        cause = "full-transfer-of-rotated-log-ended-early"
            if m:
                m = m[:2]
            llog = open(d + "/leader.log").read() if os.path.exists(d + "/leader.log") else ""
            if re.search(r"send files start by aofId \w{16}0{16}", llog) and m and m[0] in ("missing-prefix", "gap"):
                cause = "empty-ring-handshake-then-overflow"
            elif re.search(r"start sync, waiting from aofId 0{32}", flog):
                cause = "full-transfer-consumed-as-live-stream"
            else:
                heads = re.findall(r"start recv files util aofId (\w+)", flog)
                for h in heads:
                    if re.search(r"start recv files util aofId %s\n(?:(?!recv file ).*\n)*?.*send start sync by aofId %s" % (h, h), flog):
                        cause = "resume-from-unreceived-head-id"
            self.result = {"name": self.name, "cuts": self.cuts, "rst": self.rst, "leader_records": len(L), "follower_records": len(F),
                           "equal": m is None, "monitor": m, "cause": cause, "proxy": open(d + "/proxy.out").read().splitlines()[-12:],
                           "workload": self.log, "wall_s": round(time.time() - t_start, 1),
                           "follower_log": [l for l in flog.splitlines() if "Replication client" in l][-14:] if m else []}
        except Exception as e:  # infrastructure problem: reported, never silently passed
            self.result = {"name": self.name, "cuts": self.cuts, "error": repr(e), "equal": False, "monitor": ("infrastructure", repr(e)),
                           "cause": "infrastructure"}
        finally:
            for p in procs:
                try:
                    p.kill()
                except Exception:
                    pass
            for p in procs:
                try:
                    p.wait(timeout=5)
                except Exception:
                    pass
            shutil.rmtree(d, ignore_errors=True)
        return self.result


def proc_part(ctx, bins, thorough, cov, flags):
    import threading
    r = ctx.rng
    scs = [
        # regular scenario: one cut in the middle of the file transfer, one in the live stream, then catch-up
        dict(name="cuts-both-phases", cuts="%d,resp+%d,-1" % (98 + 64 * r.randrange(20, 120) + r.randrange(64), 64 * r.randrange(150, 300) + r.randrange(64))),
        # the leader->follower stream ends exactly after the SYNC call result
        dict(name="cut-after-sync-response", cuts="resp,-1"),
        # same place, connection reset so that the follower's "started" write fails
        dict(name="reset-after-sync-response", cuts="98,-1", rst=True),
        # fresh leader (empty ring) + slow link during the handshake + ring small enough to overflow meanwhile
        dict(name="empty-ring-slow-handshake-overflow", cuts="-1", pre=0, during=120, post=20, delay_started=2500, unlock=0, data=0,
             sleep_us=2000, extra=["--aof_ring_buffer_size", "1024", "--aof_ring_buffer_max_size", "1024"]),
        # full transfer of a rotated log (128 records per append file, nothing unlocked so that compaction keeps every record): the
        # boundary is in the third file, the older files hold larger offsets
        # restarted leader, nothing logged since (empty ring): the full transfer must include the last record of the log
        dict(name="restarted-leader-empty-ring-full-transfer", cuts="-1", pre=40, during=20, post=10, unlock=0, data=0, restart_leader=True, during_delay=2.0),
        # restarted leader whose newest append file holds exactly one record, follower one record behind (8 records per file)
        dict(name="restarted-leader-one-record-tail", cuts="-1", pre=8, unlock=0, data=0, tail_restart=True),
        dict(name="rotated-log-full-transfer", cuts="-1", pre=300, during=60, post=40, unlock=0, extra=["--aof_file_rewrite_size", "8192"]),
    ]
    if thorough:
        for i in range(24):
            k = r.random()
            ncut = r.choice([1, 2, 3])
            cuts = []
            for _ in range(ncut):
                if r.random() < 0.5:
                    cuts.append(str(r.randrange(0, 30000)))
                else:
                    cuts.append("resp+%d" % r.randrange(1, 30000))
            cuts.append("-1")
            sc = dict(name="rand%d" % i, cuts=",".join(cuts), seed=10 + i, pre=r.choice([0, 50, 300]), during=r.choice([100, 200]),
                      unlock=r.choice([0, 30, 60]), data=r.choice([0, 20, 50]))
            if k < 0.35:
                # ring small enough to overflow: a resume position is evicted -> ERR_NOT_FOUND -> full resync
                sc["extra"] = ["--aof_ring_buffer_size", str(r.choice([1024, 4096])), "--aof_ring_buffer_max_size", str(r.choice([4096, 8192]))]
            elif k < 0.5:
                sc["throttle"] = r.choice([256, 1024])   # slow follower
            elif k < 0.6:
                # log rotation: nothing is ever unlocked so that compaction (rewrite) may not drop records
                sc["extra"] = ["--aof_file_rewrite_size", "8192"]
                sc["unlock"] = 0
            scs.append(sc)
    results = []
    lock = threading.Lock()
    slots = list(range(9))
    queue = list(enumerate(scs))

    def worker(slot):
        while True:
            with lock:
                if not queue:
                    return
                i, sc = queue.pop(0)
            res = Scenario(ctx, bins, slot, **sc).run()
            with lock:
                results.append((i, sc, res))
    th = [threading.Thread(target=worker, args=(s,)) for s in slots[:min(len(scs), 6)]]
    t0 = time.time()
    for t in th:
        t.start()
    for t in th:
        t.join()
    results.sort(key=lambda x: x[0])
    summary = []
    for i, sc, res in results:
        row = {k: res.get(k) for k in ("name", "cuts", "rst", "leader_records", "follower_records", "equal", "cause", "wall_s")}
        for k in ("newest_leader_file_bytes_at_stop", "boundary_hit", "in_sync_before_the_cut"):
            if k in res:
                row[k] = res[k]
        row["options"] = " ".join(sc.get("extra") or []) + (" throttle=%d" % sc["throttle"] if sc.get("throttle") else "") + \
            (" delay_started=%d" % sc["delay_started"] if sc.get("delay_started") else "")
        summary.append(row)
        if res.get("monitor"):
            kind, det = res["monitor"]
            cause = res["cause"]
            fixed = {"resume-from-unreceived-head-id": not flags["early_id"],
                     "full-transfer-consumed-as-live-stream": not flags["keep_aoflock"],
                     "empty-ring-handshake-then-overflow": not flags["fresh_exempt"]}.get(cause, False)
            sig = "proc:%s:%s%s" % (kind, cause, ":despite-fix" if fixed else "")
            ctx.violation(sig, "two-node scenario %s: %s" % (res["name"], det),
                          {"scenario": sc, "result": res,
                           "how": "leader + follower (--slaveof through build/c09-faultproxy -cuts <cuts>%s); compare data_dir/append.aof.* "
                                  "record by record after quiescence" % (" -rst" if sc.get("rst") else "")}, found_input=True)
    # resynchronisation from scratch judged on the LOCK TABLES (harness/repl/cmd/resyncscratch, free ports): long-expiry holds
    # taken in a burst, some released early (holes in the long expiry table), follower cut off past the ring's capacity, the
    # leader releases the rest and compacts (REWRITEAOF), the follower reconnects, is told ERR_NOT_FOUND and resynchronises
    # from scratch (FlushDB + full transfer): SHOW * / SHOW <key> on both nodes must agree (keys, lock ids, depths, values,
    # deadlines within 2 s)
    rs = None
    for attempt in range(2):
        try:
            pr = subprocess.run([bins["resyncscratch"], bins["slock"]], stdout=subprocess.PIPE, stderr=subprocess.STDOUT, timeout=180)
            rs = (pr.returncode, pr.stdout.decode("utf-8", "replace"))
        except subprocess.TimeoutExpired as ex:
            rs = (2, "timeout: " + (ex.stdout or b"").decode("utf-8", "replace")[-600:])
        if rs[0] in (0, 1):
            break
    ctx.obligation("scenario resync-from-scratch-lock-tables ran to a verdict", rs[0] in (0, 1), "" if rs[0] in (0, 1) else rs[1][-500:])
    summary.append({"name": "resync-from-scratch-lock-tables", "equal": rs[0] == 0, "cause": "other" if rs[0] == 0 else "follower-lock-table-differs",
                    "verdict": [l for l in rs[1].splitlines() if l.startswith(("PASS", "FAIL", "phase"))][-6:]})
    if rs[0] == 1:
        ctx.violation("proc:follower-lock-table-differs:resync-from-scratch", "two-node scenario resync-from-scratch-lock-tables: after the resynchronisation from "
                      "scratch the follower's lock table is not the leader's: " + " ".join(l.strip() for l in rs[1].splitlines() if l.strip().startswith("- "))[:500],
                      {"scenario": "harness/repl/cmd/resyncscratch/main.go", "transcript": rs[1][-4000:],
                       "how": "go build ./cmd/slock ./cmd/resyncscratch (harness/repl); resyncscratch <slock binary>"}, found_input=True)
    cov["proc_scenarios"] = summary
    cov["proc_time_s"] = round(time.time() - t0, 1)
    return len(results) + 1


# ------------------------------------------------------------------------------------------------ publication order (Handover.v)
def parse_kv(line):
    return dict(t.split("=", 1) for t in line.split()[1:] if "=" in t)


def stress_part(ctx, impl, thorough, cov, flags):
    """Concurrent Aof.PushLock on a real node; monitor = the ring holds the records in append-file order."""
    r = ctx.rng
    runs = [("direct", 8, 2000, 4, None), ("db", 8, 1000, 4, 262144)]
    for _ in range(12 if thorough else 1):
        g = r.choice([2, 3, 4, 8, 16])
        mode = r.choice(["direct", "db"])
        runs.append((mode, g, r.choice([500, 1500, 3000]), r.choice([1, 2, 4, 8]), r.choice([None, 65536, 262144]) if mode == "db" else None))
    base = tempfile.mkdtemp(prefix="c09-stress-", dir="/tmp")
    rows, bad = [], []
    t0 = time.time()
    try:
        for i, (mode, g, rounds, per, rw) in enumerate(runs):
            d = os.path.join(base, "n%d" % i, "data")
            cmd = [impl, "stress", d, mode, str(g), str(rounds), str(per), "4000"] + ([str(rw)] if rw else [])
            try:
                out = subprocess.run(cmd, stdout=subprocess.PIPE, stderr=subprocess.STDOUT, timeout=120).stdout.decode("utf-8", "replace").splitlines()
            except subprocess.TimeoutExpired:
                out = ["<timeout>"]
            line = next((l for l in out if l.startswith("stress ")), None)
            if line is None:
                bad.append(("pushlock:stress-run-failed", "the stress scenario did not complete", {"cmd": " ".join(cmd), "output": out[-12:]}, False))
                continue
            kv = parse_kv(line)
            row = {k: kv.get(k) for k in ("mode", "goroutines", "rounds", "per_round", "records_ring", "records_file", "inversions", "max_back",
                                          "file_order_equals_ring_order", "file_index", "elapsed_ms")}
            rows.append(row)
            first = next((l for l in out if l.startswith("first-inversion")), "")
            if int(kv["inversions"]) > 0 or kv["file_order_equals_ring_order"] != "true":
                bad.append(("pushlock:ring-order-differs-from-file-order",
                            "%s records went through Aof.PushLock from %s goroutines (%s): the ring holds them in an order that differs from the append file "
                            "(%s adjacent inversions, a record is published up to %s positions late) -- a live follower applies them reordered and a "
                            "follower whose full transfer is bounded by a late head never receives the overtaken records"
                            % (kv["records_ring"], kv["goroutines"], mode, kv["inversions"], kv["max_back"]),
                            {"how": "build/c09-implrun stress <dir> %s %d %d %d 4000%s" % (mode, g, rounds, per, " %d" % rw if rw else ""),
                             "observation": line, "first_inversion": first, "model": "Handover.hstep; C09_handover_swapped_refuted is the 2-shard schedule"}, True))
            elif int(kv["records_ring"]) != int(kv["expected"]) or int(kv["records_file"]) != int(kv["expected"]):
                bad.append(("pushlock:records-lost", "records pushed through Aof.PushLock are missing from the ring or the append files",
                            {"how": " ".join(cmd), "observation": line}, True))
    finally:
        shutil.rmtree(base, ignore_errors=True)
    cov["pushlock_stress"] = {"runs": rows, "time_s": round(time.time() - t0, 2),
                              "records": sum(int(x["records_ring"] or 0) for x in rows),
                              "runs_with_inversions": sum(1 for x in rows if int(x["inversions"] or 0) > 0)}
    seen = set()
    for sig, what, replay, found in bad:
        if sig not in seen:
            seen.add(sig)
            ctx.violation(sig, what, replay, found_input=found)
    exhibited = any(sig == "pushlock:ring-order-differs-from-file-order" for sig, _, _, _ in bad)
    if not flags["handover"] and not exhibited:
        ctx.violation("tie:pushlock-handover", "Aof.PushLock releases aofGlock before it takes replGlock: ring order = file order (assumed by Sync.v, proved for "
                      "the hand-over in C09_handover_ring_is_file) is refuted for this statement order by C09_handover_swapped_refuted; the stress "
                      "scenario did not exhibit it in its time budget", {"broken": "C09_handover_ring_is_file", "refutation": "C09_handover_swapped_refuted",
                                                                        "stress": rows}, found_input=False)
    return len(rows), {"%s/%s/%s" % (x["mode"], x["goroutines"], x["file_index"]) for x in rows}


# ------------------------------------------------------------------------------------------------ full transfer on rotated logs (Transfer.v)
def gen_transfer_case(r, small=False):
    """ops: L lock a fresh key, U unlock the oldest held key, R the next record rotates the append file."""
    nfiles = r.choice([1, 2, 2, 3, 3, 4] if not small else [2, 3])
    ops = []
    for f in range(nfiles):
        n = r.choice([1, 2, 3, 5, 8, 13] if not small else [1, 2, 3, 4])
        for k in range(n):
            if f < nfiles - 1 and k == n - 1:
                ops.append("R")
            ops.append("U" if ops.count("L") > ops.count("U") and r.random() < 0.15 else "L")
    return "ops " + " ".join(ops)


def lex_below(disk, b):
    return [x for x in disk if x < b]


def run_transfer(impl, case, base, n):
    d = os.path.join(base, "t%d" % n, "data")
    p = subprocess.run([impl, "transfer", d], input=(case + "\nb all\n").encode(), stdout=subprocess.PIPE, stderr=subprocess.STDOUT, timeout=120)
    out = p.stdout.decode("utf-8", "replace").splitlines()
    shutil.rmtree(os.path.dirname(d), ignore_errors=True)
    disk, sent, node = None, [], ""
    for l in out:
        if l.startswith("disk "):
            disk = [tuple(int(v) for v in t.split(":")[:2]) for t in l.split()[1:]]
        elif l.startswith("disk"):
            disk = []
        elif l.startswith("node "):
            node = l
        elif l.startswith("sent "):
            h, ids, tail = [x.strip() for x in l[5:].split(";")]
            sent.append((tuple(int(v) for v in h.split(":")), ids.split(), tail))
    return disk, sent, node, out


def transfer_monitor(disk, b, ids, tail):
    """what sendFiles wrote for boundary b is exactly the persisted records below b, then the end marker"""
    want = ["%d:%d" % x for x in lex_below(disk, b)]
    if tail != "marker=1 trailing=0 err=-":
        return "bad-stream", want
    if ids == want:
        return None, want
    if ids == want[:len(ids)]:
        return "stops-early", want
    if want == ids[:len(want)]:
        return "sends-beyond-boundary", want
    return "wrong-records", want


def transfer_part(ctx, impl, model, thorough, cov, flags):
    r = ctx.rng
    cases = []
    cdir = os.path.join(vlib.VERIF, "corpus", "C09")
    for f in sorted(os.listdir(cdir)) if os.path.isdir(cdir) else []:
        if f.endswith(".xfer"):
            cases += [l.strip() for l in open(os.path.join(cdir, f)) if l.strip() and not l.startswith("#")]
    ncorpus = len(cases)
    for _ in range(120 if thorough else 10):
        cases.append(gen_transfer_case(r))
    variant = "lex" if flags["bound_lex"] else "off"
    base = tempfile.mkdtemp(prefix="c09-xfer-", dir="/tmp")
    t0 = time.time()
    nb = ndiff = 0
    shapes = set()
    hits = {}
    stats = {"cases": len(cases), "corpus_cases": ncorpus, "boundaries": 0, "rotated_logs": 0, "compacted_logs": 0, "max_files": 0,
             "boundaries_in_older_file_with_larger_offsets_below": 0}
    try:
        for n, case in enumerate(cases):
            disk, sent, node, out = run_transfer(impl, case, base, n)
            if disk is None or not sent:
                ctx.violation("transfer:harness-run-failed", "the in-process full-transfer scenario did not complete",
                              {"case": case, "output": out[-10:]}, found_input=False)
                continue
            files = sorted({x[0] for x in disk})
            stats["rotated_logs"] += 1 if len(files) > 1 else 0
            stats["compacted_logs"] += 1 if "rewrite.aof=" in node else 0
            stats["max_files"] = max(stats["max_files"], len(files))
            shapes.add(tuple(sum(1 for x in disk if x[0] == i) for i in files))
            lines = ["%s ; %s ; %d:%d" % (variant, " ".join("%d:%d" % x for x in disk), b[0], b[1]) for b, _, _ in sent]
            mo = run_lines(model, lines, 60, args=["transfer"])
            for k, (b, ids, tail) in enumerate(sent):
                nb += 1
                if any(x[0] < b[0] and x[1] >= b[1] for x in disk):
                    stats["boundaries_in_older_file_with_larger_offsets_below"] += 1
                kind, want = transfer_monitor(disk, b, ids, tail)
                m = mo[k].split() if k < len(mo) else ["<missing>"]
                if m != ids:
                    ndiff += 1
                if kind or m != ids:
                    hits.setdefault(kind or "model-differs", []).append((case, b, ids, want, m, tail, disk))
    finally:
        shutil.rmtree(base, ignore_errors=True)
    stats["boundaries"] = nb
    for kind, hs in sorted(hits.items()):
        case, b, ids, want, m, tail, disk = min(hs, key=lambda h: (len(h[0]), len(h[3])))
        # shrink: drop ops while the same kind of failure persists for some boundary
        ops = case.split()[1:]
        base2 = tempfile.mkdtemp(prefix="c09-xfer-", dir="/tmp")
        try:
            def failing(opl):
                disk, sent, _, _ = run_transfer(impl, "ops " + " ".join(opl), base2, 0)
                if disk is None:
                    return None
                for bb, ii, tt in sent:
                    kk, ww = transfer_monitor(disk, bb, ii, tt)
                    if kk == kind:
                        return (bb, ii, ww, tt, disk)
                return None
            if kind != "model-differs":
                i = len(ops) - 1
                while i >= 0:
                    cand = ops[:i] + ops[i + 1:]
                    if cand and failing(cand):
                        ops = cand
                    i -= 1
                got = failing(ops)
                if got:
                    b, ids, want, tail, disk = got
                    case = "ops " + " ".join(ops)
        finally:
            shutil.rmtree(base2, ignore_errors=True)
        rotated = len({x[0] for x in disk} | {b[0]}) > 1      # records and boundary not all in one file
        sig = "transfer:%s:%s" % (kind, "rotated-log" if rotated else "single-file")
        found = kind != "model-differs"
        ctx.violation(sig, "full transfer with boundary %d/%d on the persisted log of `%s`: sendFiles sent %d record(s) %s, the records below the boundary are %d %s "
                      "(%d boundaries of %d logs show this)" % (b[0], b[1], case, len(ids), ids[:6], len(want), want[:8], len(hs), len({h[0] for h in hs})),
                      {"case": case, "boundary": list(b), "sent": ids, "records_below_boundary": want, "model": m, "stream": tail,
                       "how": "printf '%s\\nb all\\n' | build/c09-implrun transfer <dir>/data" % case,
                       "model_variant": variant, "theorem": "C09_transfer_then_live_is_log / C09_transfer_offset_only_refuted"}, found_input=found)
    if not flags["bound_lex"] and not any(k != "model-differs" for k in hits):
        ctx.violation("tie:sendfiles-boundary", "the boundary test of sendFiles is not the lexicographic (index, offset) comparison: C09_transfer_then_live_is_log does "
                      "not apply, C09_transfer_offset_only_refuted does; no failing log was generated", {"broken": "C09_transfer_then_live_is_log"}, found_input=False)
    stats["model_impl_diffs"] = ndiff
    stats["time_s"] = round(time.time() - t0, 2)
    stats["log_shapes"] = sorted(shapes)[:40]
    cov["transfer"] = stats
    return nb, {("xfer",) + sh for sh in shapes}


def func_body(src, header):
    """Text of a top-level Go function whose declaration starts with `header` (up to the next top-level 'func ')."""
    i = src.find(header)
    if i < 0:
        return None
    j = src.find("\nfunc ", i + 1)
    return src[i:j if j > 0 else len(src)]


def source_cfg():
    """Model switches derived from the source text of <repo>/server/replication.go (see Sync.v cfg, Ring.v rcfg).
    Returns (flags, problems); a function that can no longer be found is a broken tie."""
    src = open(os.path.join(vlib.REPO, "server", "replication.go")).read()
    problems = []
    pop = func_body(src, "func (self *ReplicationBufferQueue) Pop(")
    addp = func_body(src, "func (self *ReplicationBufferQueue) AddPoll(")
    remp = func_body(src, "func (self *ReplicationBufferQueue) RemovePoll(")
    sync = func_body(src, "func (self *ReplicationClient) sendSyncCommand(")
    init = func_body(src, "func (self *ReplicationClient) InitSync(")
    for n, b in (("Pop", pop), ("AddPoll", addp), ("RemovePoll", remp), ("sendSyncCommand", sync), ("InitSync", init)):
        if b is None:
            problems.append(n)
    if problems:
        return None, problems
    flags = {}
    cond = re.search(r"if currentItem\.seq-cursor\.seq != 1([^{]*)\{", pop)
    if not cond:
        problems.append("Pop continuity check")
    flags["fresh_exempt"] = bool(cond and "cursor.seq != 0xffffffffffffffff" in cond.group(1))
    skip_a = re.search(r"currentItem\.pollCount == 0xffffffff", addp) is not None
    skip_r = re.search(r"currentItem\.pollCount == 0xffffffff", remp) is not None
    if skip_a != skip_r:
        problems.append("AddPoll/RemovePoll treat freed items differently")
    flags["poll_freed"] = not skip_a
    # the empty-id branch of sendSyncCommand: between `aofId = ""` and the request
    m = re.search(r'aofId = ""(.*?)request := ', sync, flags=re.S)
    if not m:
        problems.append("sendSyncCommand empty-id branch")
    flags["keep_aoflock"] = not (m and "self.aofLock = nil" in m.group(1))
    # InitSync: currentAofId assigned from the response id before recvFiles
    tail = init[init.rfind("self.aofLock = NewAofLock()"):]
    flags["early_id"] = re.search(r"self\.currentAofId\[15\]\s*=\s*aofId\[0\]", tail) is not None
    if "return self.recvFiles()" not in tail:
        problems.append("InitSync full branch")
    # Aof.PushLock: the two statements between `self.aofLockCount++` and the ring push (Handover.v: handover / swapped)
    asrc = open(os.path.join(vlib.REPO, "server", "aof.go")).read()
    push = func_body(asrc, "func (self *Aof) PushLock(")
    flags["handover"] = True
    m = re.search(r"self\.aofLockCount\+\+\s*\n(.*?)\n[^\n]*replicationManager\.PushLock\(", push or "", flags=re.S)
    stm = [l.strip() for l in m.group(1).splitlines() if l.strip() and not l.strip().startswith("//")] if m else None
    after = re.search(r"replicationManager\.PushLock\([^\n]*\n\s*self\.replGlock\.Unlock\(\)", push or "")
    first = re.search(r"PushLock\([^)]*\) error \{\s*\n\s*self\.aofGlock\.Lock\(\)", push or "")
    if stm == ["self.replGlock.Lock()", "self.aofGlock.Unlock()"] and after and first:
        flags["handover"] = True
    elif stm == ["self.aofGlock.Unlock()", "self.replGlock.Lock()"] and after and first:
        flags["handover"] = False
    else:
        problems.append("Aof.PushLock lock hand-over (statements between aofLockCount++ and the ring push: %r)" % (stm,))
    # sendFiles: the boundary test of the closure handed to LoadAofFiles (Transfer.v: CmpLex / CmpOffOnly)
    sf = func_body(src, "func (self *ReplicationServer) sendFiles(")
    flags["bound_lex"] = True
    m = re.search(r"LoadAofFiles\([^\n]*\{\s*\n\s*if (.*?) \{\s*\n\s*return false, nil", sf or "")
    cond = re.sub(r"\s+", " ", m.group(1)).strip() if m else None
    lex = "lock.AofIndex > self.waofLock.AofIndex || (lock.AofIndex == self.waofLock.AofIndex && lock.AofOffset >= self.waofLock.AofOffset)"
    offonly = "lock.AofIndex > self.waofLock.AofIndex || lock.AofOffset >= self.waofLock.AofOffset"
    if cond == lex:
        flags["bound_lex"] = True
    elif cond == offonly:
        flags["bound_lex"] = False
    else:
        problems.append("sendFiles boundary test (%r)" % (cond,))
    return flags, problems


def harvest_theorems():
    p = os.path.join(vlib.COQ, "Properties", "C09.v")
    txt = open(p).read()
    return re.findall(r"^Theorem\s+(\S+)", txt, flags=re.M)


def run(ctx):
    thorough = ctx.tier == "thorough"
    cov = {}
    ok, log = ctx.coq(["Properties/C09.vo"])
    ths = harvest_theorems()
    for th in ths:
        ctx.obligation(th, ok and th in ctx.assumption_report and "Closed under the global context" in ctx.assumption_report.get(th, ""),
                       "" if ok else getattr(ctx, "coq_failure", "")[:500])
    if not ok:
        ctx.violation("proof:C09", "Properties/C09.v no longer checks", {"theorems": ths, "log": getattr(ctx, "coq_failure", log[-1500:])},
                      found_input=False)
    if thorough and ok:
        okc, outc = ctx.coqchk(["Slock.Properties.C09"])
        ctx.obligation("coqchk -o Slock.Properties.C09", okc, "" if okc else outc[-800:])
        cov["coqchk"] = " ".join(outc.split())[-600:]
        if not okc:
            ctx.violation("proof:coqchk", "coqchk rejects the compiled C09 cone", {"log": outc[-2000:]}, found_input=False)
    flags, problems = source_cfg()
    ctx.obligation("model switches can be read off server/replication.go (Pop, AddPoll/RemovePoll, sendSyncCommand, InitSync, sendFiles) and "
                   "server/aof.go (Aof.PushLock)", not problems, "; ".join(problems))
    if problems:
        ctx.violation("tie:source-cfg", "the source patterns that select the model configuration are gone: " + "; ".join(problems),
                      {"broken": "source_cfg", "problems": problems}, found_input=False)
        flags = flags or {"fresh_exempt": True, "poll_freed": True, "keep_aoflock": True, "early_id": True, "handover": True, "bound_lex": True}
    cov["source_cfg"] = flags
    # Sync.v takes "ring order = append-file order" and the lexicographic sendFiles bound for granted: both are theorems about the
    # source variant found above (Handover.v, Transfer.v); for the other variant the refutation applies and a failing input is searched below
    ctx.obligation("Aof.PushLock hands over aofGlock -> replGlock (ring order = file order: C09_handover_ring_is_file applies, assumed by Sync.v)",
                   flags["handover"], "" if flags["handover"] else "statement order is Unlock(aofGlock); Lock(replGlock): C09_handover_swapped_refuted applies")
    ctx.obligation("sendFiles bounds the full transfer by the lexicographic (AofIndex, AofOffset) test (C09_transfer_then_live_is_log applies, = Sync.l_send_file)",
                   flags["bound_lex"], "" if flags["bound_lex"] else "offset-only test: C09_transfer_offset_only_refuted applies")
    cov["applicable_theorems"] = (
        ["C09_sync_prefix_fixed (all schedules, no guard)"] if not (flags["early_id"] or flags["keep_aoflock"] or flags["fresh_exempt"])
        else ["C09_sync_prefix_guarded (schedules outside the defect windows)"]
             + (["C09_sync_F1_refuted"] if flags["early_id"] else []) + (["C09_sync_F2_refuted"] if flags["fresh_exempt"] else [])
             + (["C09_sync_F3_refuted"] if flags["keep_aoflock"] else [])) + \
        ["C09_ring_pop_refines" + ("" if not flags["poll_freed"] else " (guard addpoll_safe)")] + \
        (["C09_ring_R1_refuted"] if flags["poll_freed"] else []) + \
        (["C09_handover_ring_is_file", "C09_handover_full_transfer_gapfree"] if flags["handover"] else ["C09_handover_swapped_refuted"]) + \
        (["C09_transfer_then_live_is_log", "C09_transfer_sync_leader"] if flags["bound_lex"]
         else ["C09_transfer_offset_only_single_file (guard: no rotation)", "C09_transfer_offset_only_refuted"])
    impl = ctx.go_build("c09-implrun", os.path.join(vlib.VERIF, "harness", "repl"),
                        overlay={"server/zz_verif_repl.go": "harness/repl/inj/zz_verif_repl.go",
                                 "server/zz_verif_repl_node.go": "harness/repl/inj/zz_verif_repl_node.go"})
    model = ctx.ocaml_model("repl")
    n = 4000 if thorough else 400
    neval, ndist, samples = ring_part(ctx, impl, model, n, cov, flags)
    ns, ds = stress_part(ctx, impl, thorough, cov, flags)
    nx, dx = transfer_part(ctx, impl, model, thorough, cov, flags)
    neval += ns + nx
    ndist += len(ds) + len(dx)
    ctx.trusted += [
        "extraction: ExtrOcamlBasic only (N/positive/nat as Coq datatypes); ocaml/repl/driver.ml (hex printing, op parsing)",
        "harness/repl/inj/zz_verif_repl.go: two cursor manipulations are transcribed from ReplicationServer rather than called: "
        "op W = replication.go:1431-1432 (writed=true; pollIndex++), op Y = replication.go:1225-1246 (handleInitSync with an id)",
        "Ring.v represents the two linked lists as Coq lists of items with pointer identities; Push is modelled without the 10 ms glock.Wait "
        "(manager == nil in the harness)",
        "Handover.v (interleavings of Aof.PushLock: two mutexes, append with optional rotation, ring push) is a hand transcription; tied by the "
        "variant switch read from the statement order in the source text and by the publication-order monitor on the real node "
        "(harness/repl/inj/zz_verif_repl_node.go stress: real Aof.PushLock / AofChannel / ReplicationBufferQueue); sync.Mutex is modelled as an "
        "owner field (no fairness, no spinning), a blocked goroutine as a stuttering step",
        "Transfer.send_files (take-while over the persisted records in load order) vs the real sendFiles + LoadAofFiles on real rotated and "
        "compacted files: differential on every generated log and boundary (extraction, ocaml/repl/driver.ml transfer mode); the boundary is "
        "written into waofLock by the harness instead of by handleInitSync; expiry filter of LoadAofFile not exercised (unlimited holds)",
    ]
    bins = {"slock": ctx.go_build("c09-slock", os.path.join(vlib.VERIF, "harness", "repl"), pkg="./cmd/slock", tags="",
                                  overlay={os.path.join(vlib.VERIF, "harness/repl/cmd/slock/main.go"): os.path.join(vlib.REPO, "main.go")}),
            "faultproxy": ctx.go_build("c09-faultproxy", os.path.join(vlib.VERIF, "harness", "repl"), pkg="./cmd/faultproxy", tags=""),
            "workload": ctx.go_build("c09-workload", os.path.join(vlib.VERIF, "harness", "repl"), pkg="./cmd/workload", tags=""),
            "resyncscratch": ctx.go_build("c09-resyncscratch", os.path.join(vlib.VERIF, "harness", "repl"), pkg="./cmd/resyncscratch", tags="")}
    nproc = proc_part(ctx, bins, thorough, cov, flags)
    neval += nproc
    ctx.trusted += [
        "process level: harness/repl/cmd/faultproxy (byte-exact cut of the leader->follower direction), cmd/workload (client package), "
        "the real slock command built from <repo>/main.go by overlay; comparison ignores the REWRITED flag bit and file boundaries",
    ]
    coverage = {"evaluations": neval, "distinct_nontrivial": ndist,
                "rule": "distinct implementation observation lines (per-op results + final dump of both lists)", "samples": samples}
    coverage.update(cov)
    return ctx.finish(coverage, assumptions=[
        "connection cut at any byte offset == cut at a record boundary: client.Stream.ReadBytes delivers a 64-byte record whole or fails",
        "record ids name records of one leader history (a stale directory is a prefix of the same history)",
    ])
