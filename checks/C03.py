"""C03 — exactly one terminal reply per request (DESIGN.md section 5 C03)."""
from checks import _engine, C03_net
from checks.C05 import long_wait_holes

MANIFEST = dict(
    technique="Coq proof over the executable engine model (induction over action lists / invariants) and over the command-pool ownership model (no reply reads a recycled command) + differential correspondence check model vs real LockDB + connection-level monitor on a real server process (binary and text connections, real goroutine schedules)",
    text='Theorems in coq/Properties/C03*.v (every request is answered at once or queued; at most one terminal reply and at most one EXPRIED notice per RequestId in every core history; replies go to the issuing connection) are machine-checked over the engine model; tie = differential correspondence (every reply of every connection is compared, in order) on drained histories; monitor = reply multiset per (connection, RequestId) on implementation traces incl. completeness after the drain phase.',
    note="Trusted: Coq kernel; hand-written model validated by the correspondence check of the same run; extraction (ExtrOcamlBasic only); harness + hooks; sequential schedules at request/sweep granularity, one shard, manual clock (sweeper driver loops replayed by the harness); see evidence trusted_base for the full list of modelled-not-verified parts. Ownership of pooled command objects and real socket delivery are decided by the sub-check checks/C03_net.py (coq/ReplyNet/Pool.v, coq/Properties/C03_net.v; real server child process; schedules are the Go runtime's: statistical, plus a deterministic replay of the recycled-command defect fixed in /repo 9866a3d).",
)
PROFILES = [("core", 0.25), ("waiters", 0.2), ("timeouts", 0.15), ("expiry", 0.15), ("reentrant", 0.05), ("sched", 0.1), ("sched2", 0.1), ("schedsweep", 0.08)]
MONITORS = ['C03', 'PANIC']


def run(ctx):
    if getattr(ctx, "replay", None):
        return _engine.replay(ctx, 'C03', MONITORS)
    return _engine.run_engine_check(ctx, 'C03', PROFILES, MONITORS, n_quick=500, n_thorough=20000,
                                    subs=[('C03_net', C03_net)], extra_cases=long_wait_holes)
