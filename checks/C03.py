"""C03 — exactly one terminal reply per request (DESIGN.md section 5 C03)."""
from checks import _engine

MANIFEST = dict(
    technique="Coq proof over the executable engine model (induction over action lists / invariants) + differential correspondence check model vs real LockDB",
    text='Theorems in coq/Properties/C03*.v (every request is answered at once or queued; at most one terminal reply and at most one EXPRIED notice per RequestId in every core history; replies go to the issuing connection) are machine-checked over the engine model; tie = differential correspondence (every reply of every connection is compared, in order) on drained histories; monitor = reply multiset per (connection, RequestId) on implementation traces incl. completeness after the drain phase.',
    note="Trusted: Coq kernel; hand-written model validated by the correspondence check of the same run; extraction (ExtrOcamlBasic only); harness + hooks; sequential schedules at request/sweep granularity, one shard, manual clock (sweeper driver loops replayed by the harness); see evidence trusted_base for the full list of modelled-not-verified parts.",
)
PROFILES = [("core", 0.25), ("waiters", 0.2), ("timeouts", 0.15), ("expiry", 0.15), ("reentrant", 0.05), ("sched", 0.1), ("sched2", 0.1)]
MONITORS = ['C03', 'PANIC']


def run(ctx):
    if getattr(ctx, "replay", None):
        return _engine.replay(ctx, 'C03', MONITORS)
    return _engine.run_engine_check(ctx, 'C03', PROFILES, MONITORS, n_quick=500, n_thorough=20000)
