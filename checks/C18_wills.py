"""C18_wills -- the will clause of C18 on the two connection kinds coq/Conn/Conn.v does NOT model (DESIGN.md section 5,
C18): sessions nested by the binary ADMIN command and connections accepted by a non-leader (Transparency*ServerProtocol)
that end after the node has become leader.  No theorem here: real slock processes built from $VERIF_REPO over TCP (free
loopback ports, scratch data directories), the property statement as the oracle -- every registered will is executed
exactly once, on the node the connection belongs to, in registration order, and never while the connection is open;
"executed n times" is read off an ordinary re-entrant LOCK of the will's LockId (LRCOUNT - 1).  Control connections
(plain text, plain binary, follower that stays follower) show in every run that the observation method sees an executed
will.  Scenario programs: harness/wills/admin (plain close and QUIT variant, order against a will registered before ADMIN),
harness/wills/switch (binary / text, will registered before / after the switch, with and without a forwarded INIT)."""
import os, re, shutil, subprocess, tempfile, time

from tools import vlib

MANIFEST = {
    "property": "C18",
    "part": "wills of ADMIN-nested sessions and of connections of a follower that became leader, over real processes (called from checks/C18.py via vlib.run_sub)",
    "harness": "harness/wills",
    "technique": "scenario replay on real slock processes with the property statement as oracle (runtime check; these connection kinds are outside the Coq model)",
}

SCENARIOS = [("admin", "admin", {}), ("admin-quit", "admin", {"REPRO_QUIT": "1"}), ("switch", "switch", {})]


def slug(s):
    return re.sub(r"[^a-z0-9]+", "-", s.lower()).strip("-")


def judge(name, out, rc):
    """signatures from the transcript of one scenario program"""
    sigs = []
    for l in out.splitlines():
        m = re.match(r"^(.*?)\s*: WILL (NOT EXECUTED|EXECUTED \(exactly once\)|EXECUTED (\d+) TIMES)\s*$", l)
        if m:
            who = slug(m.group(1))
            if who.startswith("control"):
                if "exactly once" not in m.group(2):
                    sigs.append(("harness:control-will-not-observed:%s:%s" % (name, who), l.strip()))
                continue
            if m.group(2) == "NOT EXECUTED":
                sigs.append(("will-not-executed:%s:%s" % (name, who), l.strip()))
            elif m.group(3):
                sigs.append(("will-executed-twice:%s:%s" % (name, who), l.strip()))
            continue
        if re.search(r"ran BEFORE the connection ended|the will ran early", l):
            sigs.append(("will-early:%s:%s" % (name, slug(l.split(":")[0])), l.strip()))
        m = re.match(r"^(.*?)\s*: the will ran (\d+) time\(s\) on the OLD leader", l)
        if m:
            sigs.append(("will-on-other-node:%s:%s" % (name, slug(m.group(1))), l.strip()))
        if "still held afterwards" in l:
            sigs.append(("will-order:%s" % name, l.strip()))
    if rc not in (0, 1) and not sigs:
        sigs.append(("harness:scenario-failed:%s" % name, "exit code %d: %s" % (rc, out[-300:])))
    if rc == 1 and not sigs:
        sigs.append(("will-clause-violated:%s" % name, out[-300:]))
    return sigs


def run(ctx):
    t0 = time.time()
    mod = os.path.join(vlib.VERIF, "harness", "wills")
    server = ctx.go_build("c18w-slock", mod, tags=None, pkg="github.com/snower/slock")
    progs = {p: ctx.go_build("c18w-" + p, mod, tags=None, pkg="./" + p) for p in ("admin", "switch")}
    ctx.obligation("harness builds against %s's working tree" % vlib.REPO, True)
    results, judged = {}, 0
    for name, prog, env in SCENARIOS:
        scratch = tempfile.mkdtemp(prefix="verif-c18w-")
        for attempt in range(2):
            e = dict(os.environ); e.update(env)
            try:
                p = subprocess.run([progs[prog], server, scratch], stdout=subprocess.PIPE, stderr=subprocess.STDOUT, timeout=240, env=e)
                rc, out = p.returncode, p.stdout.decode("utf-8", "replace")
            except subprocess.TimeoutExpired as ex:
                rc, out = 2, "timeout after 240 s: " + (ex.stdout or b"").decode("utf-8", "replace")[-600:]
            if rc in (0, 1):
                break
            time.sleep(2)                      # rc 2 / 3 = the scenario could not be set up (port taken, node slow to start): once more
        shutil.rmtree(scratch, ignore_errors=True)
        subprocess.run(["pkill", "-f", scratch], stdout=subprocess.DEVNULL, stderr=subprocess.DEVNULL)
        sigs = judge(name, out, rc)
        judged += len(re.findall(r": WILL (NOT )?EXECUTED", out))
        results[name] = {"rc": rc, "verdicts": [l.strip() for l in out.splitlines() if ": WILL " in l or "OLD leader" in l or "order (" in l], "signatures": [s for s, _ in sigs]}
        ctx.obligation("scenario %s ran to a verdict" % name, rc in (0, 1), "" if rc in (0, 1) else out[-400:])
        for sig, what in sigs:
            ctx.violation(sig, "C18 will clause: %s" % what, {"scenario": name, "program": "harness/wills/%s/main.go" % prog, "env": env, "transcript": out[-4000:],
                          "how": "go build -o slock github.com/snower/slock (from harness/wills); go run ./%s <slock> <scratch dir>" % prog}, found_input=not sig.startswith("harness:"))
    ctx.trusted += [
        "C18_wills: NO Coq model of ADMIN-nested sessions or of the transparency (follower) protocols; the verdict is the property statement evaluated on real "
        "processes for the fixed scenarios of harness/wills (binary ADMIN + nested text will, plain close / QUIT, order against an earlier will; follower promoted by "
        "SLAVEOF with wills registered before / after the switch on binary, INITed binary and text connections); a will is observed through a re-entrant LOCK of its LockId",
    ]
    cov = {"evaluations": len(SCENARIOS), "distinct_nontrivial": len(SCENARIOS), "rule": "one per scenario program run", "samples": [n for n, _, _ in SCENARIOS],
           "wills_judged": judged, "scenarios": results, "seconds": round(time.time() - t0, 1)}
    return ctx.finish(cov, assumptions=["fixed scenarios, Go runtime schedules as they fall; loopback TCP"])
