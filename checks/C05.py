"""C05 — wait timeouts in [T, T+2s] (DESIGN.md section 5 C05)."""
from checks import _engine

MANIFEST = dict(
    technique="Coq proof over the executable engine model (induction over action lists / invariants) + differential correspondence check model vs real LockDB",
    text='Theorems in coq/Properties/C05*.v (never early for any tick size / sweep lag; zero timeout answers at once and queues nothing; tombstone exclusion grant vs timeout; no waiter is lost by a sweep that lags fewer than 7 s behind, exact firing time under regular schedules, without any panic hypothesis for core runs (C05_nopanic.v, from the heap invariant)) are machine-checked over the engine model; tie = differential correspondence with the manual clock (deadlines, re-check counters via reference counts, long-table migration) ; monitor = reply time window on implementation traces. Millisecond waits are outside the model (real-time behaviour; see DESIGN.md).',
    note="Trusted: Coq kernel; hand-written model validated by the correspondence check of the same run; extraction (ExtrOcamlBasic only); harness + hooks; sequential schedules at request/sweep granularity, one shard, manual clock (sweeper driver loops replayed by the harness); see evidence trusted_base for the full list of modelled-not-verified parts.",
)
PROFILES = [("timeouts", 0.5), ("longwait", 0.12), ("waiters", 0.18), ("core", 0.2), ("schedsweep", 0.08)]
MONITORS = ['C05', 'PANIC']


def realtime(ctx, run):
    """millisecond wheels run on the wall clock and are not modelled: checked on the implementation in real time"""
    from tools import engine_rt
    res, txt = engine_rt.run(run.impl, which=("C05",))
    ctx.notes.append("real-time millisecond scenario: %d reply lines" % txt.count("rt reply"))
    return res


def run(ctx):
    if getattr(ctx, "replay", None):
        return _engine.replay(ctx, 'C05', MONITORS)
    return _engine.run_engine_check(ctx, 'C05', PROFILES, MONITORS, n_quick=450, n_thorough=18000, impl_only=realtime)
