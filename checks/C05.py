"""C05 — wait timeouts in [T, T+2s] (DESIGN.md section 5 C05)."""
from checks import _engine

MANIFEST = dict(
    technique="Coq proof over the executable engine model (induction over action lists / invariants) + differential correspondence check model vs real LockDB",
    text='Theorems in coq/Properties/C05*.v (never early for any tick size / sweep lag; zero timeout answers at once and queues nothing; tombstone exclusion grant vs timeout; no waiter is lost by a sweep that lags fewer than 7 s behind, exact firing time under regular schedules, without any panic hypothesis for core runs (C05_nopanic.v, from the heap invariant)) are machine-checked over the engine model; tie = differential correspondence with the manual clock (deadlines, re-check counters via reference counts, long-table migration) ; monitor = reply time window on implementation traces. Millisecond waits are outside the model (real-time behaviour; see DESIGN.md).',
    note="Trusted: Coq kernel; hand-written model validated by the correspondence check of the same run; extraction (ExtrOcamlBasic only); harness + hooks; sequential schedules at request/sweep granularity, one shard, manual clock (sweeper driver loops replayed by the harness); see evidence trusted_base for the full list of modelled-not-verified parts.",
)
PROFILES = [("timeouts", 0.5), ("longwait", 0.12), ("waiters", 0.18), ("core", 0.2), ("schedsweep", 0.08)]
MONITORS = ['C05', 'PANIC']


def realtime(ctx, run):
    """millisecond wheels run on the wall clock and are not modelled: checked on the implementation in real time"""
    from tools import engine_rt
    res, txt = engine_rt.run(run.impl, which=("C05",))
    ctx.notes.append("real-time millisecond scenario: %d reply lines" % txt.count("rt reply"))
    return res


def long_wait_holes(rng, cid0):
    """several waiters filed in ONE bucket of the long wait table (same deadline second; a wait reaches the long table
    after its eighth re-check, i.e. with T > 44 s), some of them leaving early -- cancelled at different stages of their
    wait, or granted -- so that the bucket has holes when the sweeper drains it: every remaining waiter must still get
    its TIMEOUT at the deadline (and exactly one reply)"""
    cases = []
    for j in range(4):
        key = 71 + j
        n = rng.choice([3, 4, 6, 9])
        T = rng.choice([46, 50, 60, 100])
        lines = ["case %d 1000000 %d %d" % (cid0 + j, rng.choice([0, 1]), rng.choice([0, 1]))]
        rid = 795000 + 1000 * j
        lines.append("req 1 L %d 0 9800 %d 0 0 0 600 0 0 -" % (rid, key)); rid += 1
        for i in range(n):
            lines.append("req %d L %d 0 %d %d 0 %d 0 30 0 0 -" % (2 + i % 3, rid, 9801 + i, key, T)); rid += 1
        leave = sorted(rng.sample(range(n - 1), rng.randrange(1, n - 1)) if n > 2 else [0])
        when = {i: rng.choice([1, 20, 41, 44, 45, T - 2, T - 1]) for i in leave}
        for t in range(1, T + 21):
            lines += ["adv 1", "sweept", "sweepe"]
            for i in leave:
                if when[i] == t:
                    lines.append("req %d U %d 2 %d %d 0 0 0 0 0 0 -" % (2 + i % 3, rid, 9801 + i, key)); rid += 1
        lines += ["adv 0", "role 1"]
        for _ in range(3):
            lines.append("req 1 U %d 1 0 %d 0 0 0 0 0 0 -" % (rid, key)); rid += 1
        lines += ["adv 1", "sweept", "sweepe"] * 10 + ["adv 100", "sweept", "sweepe"] + ["adv 1", "sweept", "sweepe"] * 10
        lines.append("end")
        cases.append(lines)
    return cases


def run(ctx):
    if getattr(ctx, "replay", None):
        return _engine.replay(ctx, 'C05', MONITORS)
    return _engine.run_engine_check(ctx, 'C05', PROFILES, MONITORS, n_quick=450, n_thorough=18000, impl_only=realtime, extra_cases=long_wait_holes)
