"""C11 — ack-required locks (DESIGN.md section 5 C11)."""
from checks import _engine, C11_glue

MANIFEST = dict(
    technique="Coq proof over the executable engine model (ack branch, DoAckLock single-shot, rollback) + differential correspondence with injected acknowledgements",
    text="Theorems in coq/Properties/C11*.v over the engine model (a fresh ack-lock is granted without reply, answered SUCCED only by DoAckLock(true); DoAckLock is single-shot; negative ack / ack timeout remove the hold, undo the value via recover and leave a wake-up pending; other requests naming the LockId get LOCK_ACK_WAITING and change nothing; UNLOCK records of a registered lock drop the registration: a later acknowledgement for it does nothing; in a monitored run an acknowledgement answers only the request it was registered for) and refutations for the defects found. Tie = differential correspondence: the harness plays the replication layer as ReplicationManager.PushLock does -- every LOCK / UNLOCK record carrying a lock pointer goes through the real ProcessLeaderPushLock / ProcessLeaderPushUnLock -- and acknowledges the records in generated orders (positive / negative / late / never; half of the histories with free-list recycling of Lock objects, incl. the interleaving ack timeout -> new ack-lock -> late acknowledgement), comparing replies, snapshots incl. ackCount and reference counts. Monitors: ack discipline (incl. SUCCED only through an acknowledgement addressed to the request's own registration), one reply per request, census.",
    note="Trusted: Coq kernel; model validated by the correspondence check; the counting of acknowledgements runs through the real ReplicationAckDB (ProcessLeaderPushLock / PushUnLock / Aofed / Acked); the quorum bookkeeping of the replication manager (which count an ack DB holds when followers join / leave) and the ack reporting of AofFile.Flush are decided by the sub-check checks/C11_glue.py (coq/AckGlue, coq/Properties/C11_glue.v: generated UpdateDBAckCount, real ReplicationManager and AofFile with injected write errors); 'distinct followers' is an assumption about the stream. Known findings in known_findings/C11.json.",
)
PROFILES = [("ack", 1.0)]
MONITORS = ["C11", "C03", "C17", "PANIC"]


def with_values(rng, cid0):
    """ack-lock histories whose requests carry value operations (rollback of the value on a failed acknowledgement)"""
    from checks import C15
    import engine_corr as ec
    g = ec.Gen(rng, "ack", with_data=C15.with_data)
    n = 150 if len(CASES_TIER) == 0 or CASES_TIER[0] == "quick" else 6000
    return [g.case(cid0 + i, drain=True) for i in range(n)]


CASES_TIER = []


def run(ctx):
    if getattr(ctx, "replay", None):
        return _engine.replay(ctx, "C11", MONITORS)
    CASES_TIER[:] = [ctx.tier]
    return _engine.run_engine_check(ctx, "C11", PROFILES, MONITORS, n_quick=500, n_thorough=20000, extra_cases=with_values,
                                    subs=[("C11_glue", C11_glue)])
