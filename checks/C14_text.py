"""C14 (text-protocol half) -- text parser framing independence + round trip, key/id normalisation, text LOCK/UNLOCK mapping.

1. Coq: Properties/C14_text.vo (models coq/Text/{TextParse,KeyNorm,TextCmd}.v, proofs coq/Text/*Proofs.v).
2. Source tie (re-run on every check, on the tree in VERIF_REPO):
   a. correspondence: the same seeded cases run on the real protocol.TextParser / TextCommandConverter (harness/text,
      built from the tree under test; a 5-line accessor for the parser's private fields is injected by
      `go build -overlay`) and on the OCaml extraction of the Coq model (ocaml/text).  Observation lines (emitted
      commands, per-read parser state stage/cargIndex/cargLen/argsCount/bufIndex/bufLen, error class / panic)
      are compared textually.
   b. a source probe reads the bound test of ConvertArgs2Flag (`i+i` today, `i+1` when repaired) and passes it
      to the model as the run parameter `bound_off` (TextCmd.args2flag is proved panic-free for the `i+1`
      form and refuted for the `i+i` form).
3. Monitor: the property text itself evaluated on the Go observations: a well-formed BuildRequest/BuildResponse
   stream, however it is cut into reads, must yield exactly the original argument lists.  Failing inputs are
   minimised, classified by a stable signature and matched against known_findings/C14_text.json.
"""
import hashlib, json, os, re, subprocess, sys, time
from tools import vlib

MANIFEST = {
    "property": "C14",
    "part": "text protocol",
    "theorems": "coq/Properties/C14_text.v",
    "model": ["coq/Text/TextParse.v", "coq/Text/KeyNorm.v", "coq/Text/TextCmd.v"],
    "proofs": ["coq/Text/TextParseProofs.v", "coq/Text/KeyNormProofs.v", "coq/Text/TextCmdProofs.v"],
    "harness": "harness/text",
    "ocaml": "ocaml/text",
}

VERIF = vlib.VERIF
PROP = "C14"        # property id used in violation lines

# ------------------------------------------------------------------ helpers shared with the two drivers' formats
def fnv(b):
    h = 0xcbf29ce484222325
    for c in b:
        h ^= c
        h = (h * 0x100000001b3) & 0xffffffffffffffff
    return h


def repr_b(b):
    return b.hex() if len(b) <= 64 else "#%d:%016x" % (len(b), fnv(b))


def repr_list(l):
    return "%d:%s" % (len(l), ",".join(repr_b(a) for a in l))


def hx(b):
    return b.hex() if b else "-"


def build_request(args):
    out = b"*%d\r\n" % len(args)
    for a in args:
        out += b"$%d\r\n" % len(a) + a + b"\r\n"
    return out


def build_response(success, message, results):
    if not success:
        return b"-" + message + b"\r\n"
    if not results:
        return b"+" + message + b"\r\n"
    if len(results) == 1:
        return b"$%d\r\n" % len(results[0]) + results[0] + b"\r\n"
    out = b"*%d\r\n" % len(results)
    for a in results:
        out += b"$%d\r\n" % len(a) + a + b"\r\n"
    return out


def data_spans(stream_parts):
    """stream_parts: list of (bytes, is_data) -> list of (s, e) positions of argument data"""
    spans, pos = [], 0
    for b, is_data in stream_parts:
        if is_data:
            spans.append((pos, pos + len(b)))
        pos += len(b)
    return spans


def request_parts(args):
    parts = [(b"*%d\r\n" % len(args), False)]
    for a in args:
        parts += [(b"$%d\r\n" % len(a), False), (a, True), (b"\r\n", False)]
    return parts


def cut(stream, sizes):
    chunks, pos = [], 0
    for n in sizes:
        chunks.append(stream[pos:pos + n])
        pos += n
    assert pos == len(stream), (pos, len(stream))
    return chunks


def chunk_intervals(chunks):
    res, pos = [], 0
    for c in chunks:
        res.append((pos, pos + len(c)))
        pos += len(c)
    return res


def guard_bad(spans, chunks):
    """the defect's trigger (theorem hypothesis `good_chunking`, negated): some read [a,b) starts strictly inside
    an argument's data (s < a < e) and ends right after that data or between its CR and LF (e <= b <= e+1)"""
    for (a, b) in chunk_intervals(chunks):
        for (s, e) in spans:
            if s < a < e and e <= b <= e + 1:
                return True
    return False


# ------------------------------------------------------------------ generators
ALPHA_EVIL = [b"\r", b"\n", b"$", b"*", b"\r\n", b"+", b"-", b" ", b"0", b"1", b"\x00", b"\xff"]


def gen_arg(rng, big_ok=True):
    r = rng.random()
    if r < 0.12:
        return b""
    if r < 0.45:
        return bytes(rng.choice(b"abcXYZ019") for _ in range(rng.randint(1, 6)))
    if r < 0.70:
        return b"".join(rng.choice(ALPHA_EVIL) for _ in range(rng.randint(1, 8)))
    if r < 0.93:
        return bytes(rng.randrange(256) for _ in range(rng.randint(1, 40)))
    if big_ok and r < 0.97:
        return bytes(rng.randrange(256) for _ in range(rng.randint(100, 3000)))
    if big_ok:
        n = rng.choice([1023, 1024, 1025, 4095, 4096, 8181, 65535, 65536])
        seed = rng.randrange(256)
        return bytes((seed + i * 7) & 0xff for i in range(n))
    return b"x"


def gen_args(rng, big_ok=True):
    r = rng.random()
    n = 1 if r < 0.3 else rng.randint(2, 5) if r < 0.9 else rng.randint(6, 40)
    return [gen_arg(rng, big_ok and n <= 5) for _ in range(n)]


def gen_sizes(rng, total, cap, structural):
    """random chunk sizes summing to total, each in 1..cap; structural = interesting cut positions"""
    style = rng.random()
    if style < 0.12:
        sizes = [1] * total if total <= 400 else None
        if sizes:
            return sizes
    if style < 0.25 or total > 6000:
        # full buffers, as a blocking read on a busy socket delivers them, optional short first read
        first = rng.randint(1, cap) if rng.random() < 0.5 else cap
        sizes, left = [], total
        n = min(first, left)
        while left > 0:
            sizes.append(n)
            left -= n
            n = min(cap, left)
        return sizes
    cuts = set()
    if structural and rng.random() < 0.7:
        for _ in range(rng.randint(1, 4)):
            p = rng.choice(structural) + rng.choice([-1, 0, 0, 1, 2])
            if 0 < p < total:
                cuts.add(p)
    for _ in range(rng.randint(0, 5)):
        if total > 1:
            cuts.add(rng.randint(1, total - 1))
    pts = [0] + sorted(cuts) + [total]
    sizes = []
    for a, b in zip(pts, pts[1:]):
        n = b - a
        while n > cap:
            sizes.append(cap)
            n -= cap
        if n:
            sizes.append(n)
    return sizes


class Case:
    __slots__ = ("line", "kind", "expect", "meta")

    def __init__(self, line, kind, expect=None, meta=None):
        self.line, self.kind, self.expect, self.meta = line, kind, expect, meta or {}


def parse_case(resp, cap, chunks):
    return "P %d %d %s" % (1 if resp else 0, cap, " ".join(hx(c) for c in chunks))


def wf_request_case(args_list, sizes, cap, origin):
    """args_list: list of requests (pipelined)"""
    parts = []
    for args in args_list:
        parts += request_parts(args)
    stream = b"".join(p for p, _ in parts)
    chunks = cut(stream, sizes)
    spans = data_spans(parts)
    return Case(parse_case(False, cap, chunks), "wf-request",
                expect=[(0, a) for a in args_list],
                meta={"origin": origin, "spans": spans, "chunks": chunks, "args_list": args_list, "cap": cap,
                      "bad": guard_bad(spans, chunks)})


def response_parts(form, message, results):
    if form == "status":
        return [(b"+", False), (message, False), (b"\r\n", False)]
    if form == "error":
        return [(b"-", False), (message, False), (b"\r\n", False)]
    if form == "bulk":
        a = results[0]
        return [(b"$%d\r\n" % len(a), False), (a, True), (b"\r\n", False)]
    parts = [(b"*%d\r\n" % len(results), False)]
    for a in results:
        parts += [(b"$%d\r\n" % len(a), False), (a, True), (b"\r\n", False)]
    return parts


def wf_response_case(form, message, results, sizes, cap, origin):
    parts = response_parts(form, message, results)
    stream = b"".join(p for p, _ in parts)
    assert stream == build_response(form != "error", message, results if form in ("bulk", "array") else [])
    chunks = cut(stream, sizes)
    spans = data_spans(parts)
    if form == "status":
        expect = [(1, [message])]
    elif form == "error":
        sp = message.find(b" ")
        expect = [(2, [message, b""])] if sp < 0 else [(2, [message[:sp], message[sp + 1:]])]
    elif form == "bulk":
        expect = [(3, results)]
    else:
        expect = [(4, results)]
    # status/error lines: the defect's trigger is a read starting at the CR/LF terminator (or at the separating space),
    # an empty message / error word, or CR LF inside the text (not binary safe by construction of the format)
    bad = guard_bad(spans, chunks)
    why = "split-arg" if bad else ""
    if form in ("status", "error"):
        starts = [a for a, _ in chunk_intervals(chunks)]
        tpos = 1 + len(message)
        if form == "status":
            if message == b"":
                bad, why = True, "empty-status"
            elif b"\r" in message or b"\n" in message:
                bad, why = True, "crlf-in-status"
            elif tpos in starts or tpos + 1 in starts:
                bad, why = True, "read-starts-at-terminator"
        else:
            sp = message.find(b" ")
            word = message if sp < 0 else message[:sp]
            rest = b"x" if sp < 0 else message[sp + 1:]
            if word == b"" or rest == b"":
                bad, why = True, "empty-error-word-or-text"
            elif b"\r" in message or b"\n" in message:
                bad, why = True, "crlf-in-status"
            elif tpos in starts or tpos + 1 in starts or (sp >= 0 and 1 + sp in starts):
                bad, why = True, "read-starts-at-terminator"
    return Case(parse_case(True, cap, chunks), "wf-response-" + form, expect=expect,
                meta={"origin": origin, "spans": spans, "chunks": chunks, "form": form, "message": message,
                      "results": results, "cap": cap, "bad": bad, "why": why})


def structural_positions(parts):
    res, pos = [], 0
    for b, _ in parts:
        res.append(pos)
        pos += len(b)
    res.append(pos)
    return res


def gen_parser_cases(rng, tier):
    cases = []
    scale = 1 if tier == "quick" else 25
    # (a) exhaustive 2-chunk splits of small requests / responses, and all 3-chunk splits of two tiny ones
    small = [[b""], [b"a"], [b"ab"], [b"abc"], [b"LOCK", b"k"], [b"a\r\nb", b"", b"$1"], [b"x" * 10, b"yz"],
             [b"\r", b"\n"], [b"*2\r\n$1\r\nA\r\n", b"0123456789ab"]]
    for args in small:
        st = build_request(args)
        for i in range(1, len(st)):
            cases.append(wf_request_case([args], [i, len(st) - i], 1024, "exh2"))
    for args in ([b"abc"], [b"ab", b""], [b"abcd", b"e"]):
        st = build_request(args)
        for i in range(1, len(st) - 1):
            for j in range(i + 1, len(st)):
                cases.append(wf_request_case([args], [i, j - i, len(st) - j], 1024, "exh3"))
    for form, msg, res in [("status", b"OK", []), ("status", b"", []), ("error", b"ERR Unknown Command", []),
                           ("error", b"ERR", []), ("bulk", b"", [b"hello"]), ("bulk", b"", [b""]),
                           ("array", b"", [b"0", b"OK", b"LOCK_ID", b"abc"])]:
        st = b"".join(p for p, _ in response_parts(form, msg, res))
        cases.append(wf_response_case(form, msg, res, [len(st)], 1024, "exh1"))
        for i in range(1, len(st)):
            cases.append(wf_response_case(form, msg, res, [i, len(st) - i], 1024, "exh2"))
    # (b) random requests x random chunkings
    for _ in range(220 * scale):
        npipe = 1 if rng.random() < 0.8 else rng.randint(2, 4)
        args_list = [gen_args(rng, big_ok=(npipe == 1)) for _ in range(npipe)]
        parts = []
        for a in args_list:
            parts += request_parts(a)
        total = sum(len(p) for p, _ in parts)
        cap = rng.choice([4, 16, 64, 1024, 1024, 4096]) if total < 6000 else rng.choice([1024, 4096])
        cases.append(wf_request_case(args_list, gen_sizes(rng, total, cap, structural_positions(parts)), cap, "rnd"))
    # (c) the boundary family: an argument whose data ends exactly at a full-buffer boundary
    for cap in (16, 64, 1024):
        for delta in (-2, -1, 0, 1, 2):
            for hdr_args in ([], [b"SET"]):
                head = build_request(hdr_args + [b""])  # approximate header length, fixed up below
                for extra in range(0, 3):
                    alen = 2 * cap + delta + extra * cap
                    args = hdr_args + [bytes((i * 13 + delta) & 0xff for i in range(alen))]
                    parts = request_parts(args)
                    total = sum(len(p) for p, _ in parts)
                    cases.append(wf_request_case([args], gen_sizes(rng, total, cap, None) if False else
                                                 [cap] * (total // cap) + ([total % cap] if total % cap else []), cap, "fullbuf"))
    # (d) responses
    for _ in range(120 * scale):
        r = rng.random()
        if r < 0.25:
            form, msg, res = "status", rng.choice([b"OK", b"PONG", b"", b"none", b"string", b"a b c"]), []
        elif r < 0.5:
            form, msg, res = "error", rng.choice([b"ERR Unknwon Command", b"ERR 5", b"ERR", b"ERR ", b" x",
                                                   b"Command Parse Args Count Error"]), []
        elif r < 0.7:
            form, msg, res = "bulk", b"", [gen_arg(rng)]
        else:
            form, msg, res = "array", b"", [gen_arg(rng, False) for _ in range(rng.randint(2, 14))]
        parts = response_parts(form, msg, res)
        total = sum(len(p) for p, _ in parts)
        cap = rng.choice([4, 16, 64, 1024, 4096]) if total < 6000 else rng.choice([1024, 4096])
        cases.append(wf_response_case(form, msg, res, gen_sizes(rng, total, cap, structural_positions(parts)), cap, "rnd"))
    # (e) malformed stream: mutated encodings, outcome classes compared model vs code only
    for _ in range(200 * scale):
        resp = rng.random() < 0.35
        if resp:
            form = rng.choice(["status", "error", "bulk", "array"])
            base = bytearray(b"".join(p for p, _ in response_parts(form, rng.choice([b"OK", b"ERR x y", b""]),
                                                                   [gen_arg(rng, False) for _ in range(rng.randint(1, 4))])))
        else:
            base = bytearray(build_request(gen_args(rng, False)))
        for _ in range(rng.randint(1, 4)):
            op = rng.random()
            pos = rng.randrange(len(base) + 1)
            if op < 0.3 and pos < len(base):
                base[pos] = rng.choice(b"\r\n$*+-: 0123456789aZ\x00\xff")
            elif op < 0.55 and pos < len(base):
                del base[pos]
            elif op < 0.8:
                base[pos:pos] = rng.choice([b"\r", b"\n", b"-", b"+", b"9" * rng.randint(1, 140), b"$", b"*", b"\r\n",
                                            b"99999999999999999999", b"-1", b"0"])
            else:
                del base[pos:]
        if not base:
            base = bytearray(b"\n")
        cap = rng.choice([4, 16, 64, 1024])
        sizes = gen_sizes(rng, len(base), cap, None)
        cases.append(Case(parse_case(resp, cap, cut(bytes(base), sizes)), "malformed"))
    # (f) raw noise from the structural alphabet
    for _ in range(60 * scale):
        n = rng.randint(1, 60)
        base = bytes(rng.choice(b"\r\n$*+- 0123456789ab") for _ in range(n))
        cap = rng.choice([4, 16, 1024])
        cases.append(Case(parse_case(rng.random() < 0.4, cap, cut(base, gen_sizes(rng, n, cap, None))), "noise"))
    return cases


# ------------------------------------------------------------------ running both sides
def run_lines(exe, lines, timeout=1200):
    p = subprocess.run([exe], input=("\n".join(lines) + "\n").encode(), stdout=subprocess.PIPE,
                       stderr=subprocess.PIPE, timeout=timeout)
    out = p.stdout.decode("utf-8", "replace").split("\n")
    if out and out[-1] == "":
        out.pop()
    return p.returncode, out, p.stderr.decode("utf-8", "replace")


def monitor_wf(case, obs):
    """the property on one observation line of the implementation: exactly the expected commands, nothing left"""
    toks = obs.split(" ")
    cmds = [t for t in toks if t.startswith("C:")]
    want = ["C:%d:%s" % (ty, repr_list(a)) for ty, a in case.expect]
    if any(t.startswith("R:") and t != "R:ok" for t in toks):
        return False, "parser reported %s" % [t for t in toks if t.startswith("R:") and t != "R:ok"][0]
    if cmds != want:
        return False, "commands %s expected %s" % (cmds[:3], want[:3])
    if toks[-1] != "A:0:":
        return False, "left-over partial arguments " + toks[-1][:80]
    st = [t for t in toks if t.startswith("S:")]
    if st:
        f = st[-1][2:].split(",")
        if f[0] != "0" or f[4] != f[5]:
            return False, "parser not idle at the end: " + st[-1]
    return True, ""


def shrink_wf_request(goexe, case):
    """minimise a failing well-formed request case: fewer pipelined requests, fewer/shorter args, fewer cuts"""
    best = case

    def fails(c):
        rc, out, _ = run_lines(goexe, [c.line], timeout=60)
        return bool(out) and not monitor_wf(c, out[0])[0]

    changed, rounds = True, 0
    while changed and rounds < 40:
        changed, rounds = False, rounds + 1
        al, chunks, cap = best.meta["args_list"], best.meta["chunks"], best.meta["cap"]
        sizes = [len(c) for c in chunks]
        cands = []
        if len(al) > 1:
            for i in range(len(al)):
                cands.append((al[:i] + al[i + 1:], None))
        for ri, args in enumerate(al):
            if len(args) > 1:
                for i in range(len(args)):
                    cands.append((al[:ri] + [args[:i] + args[i + 1:]] + al[ri + 1:], None))
            for i, a in enumerate(args):
                if len(a) > 2:
                    for na in (a[:len(a) // 2], a[:-1], b"a" * len(a)):
                        if na != a:
                            cands.append((al[:ri] + [args[:i] + [na] + args[i + 1:]] + al[ri + 1:], None))
        for i in range(len(sizes) - 1):
            if sizes[i] + sizes[i + 1] <= cap:
                cands.append((al, sizes[:i] + [sizes[i] + sizes[i + 1]] + sizes[i + 2:]))
        for nal, nsizes in cands:
            total = sum(len(build_request(a)) for a in nal)
            if nsizes is None:
                # keep the cut structure relative to the end of the stream (the defect is at data ends): re-cut proportionally
                old_total = sum(sizes)
                if old_total == total:
                    nsizes = sizes
                else:
                    cuts, acc = [], 0
                    for s in sizes[:-1]:
                        acc += s
                        cuts.append(acc)
                    tries = []
                    tries.append(sorted(set(min(max(1, c - (old_total - total)), total - 1) for c in cuts if total > 1)))
                    tries.append(sorted(set(c for c in cuts if 0 < c < total)))
                    ok = False
                    for cs in tries:
                        pts = [0] + cs + [total]
                        ns = [b - a for a, b in zip(pts, pts[1:]) if b > a]
                        if all(n <= cap for n in ns) and sum(ns) == total:
                            c2 = wf_request_case(nal, ns, cap, "shrunk")
                            if fails(c2):
                                best, changed, ok = c2, True, True
                                break
                    if ok:
                        break
                    continue
            if sum(nsizes) != total or any(n > cap or n <= 0 for n in nsizes):
                continue
            c2 = wf_request_case(nal, nsizes, cap, "shrunk")
            if fails(c2):
                best, changed = c2, True
                break
    return best


def source_probe(repo):
    """the bound test used by ConvertArgs2Flag for EX/PX/TX/PTX: returns ('i+i'|'i+1'|None, count)"""
    src = open(os.path.join(repo, "protocol", "textcommand.go")).read()
    m = re.search(r"func \(self \*TextCommandConverter\) ConvertArgs2Flag\(.*?^}\n", src, flags=re.S | re.M)
    if not m:
        return None, 0
    body = m.group(0)
    tests = re.findall(r"if\s+(i\s*\+\s*\w+)\s*>=\s*len\(args\)", body)
    forms = set(t.replace(" ", "") for t in tests)
    if len(tests) == 4 and len(forms) == 1 and forms <= {"i+i", "i+1"}:
        return forms.pop(), len(tests)
    return None, len(tests)

# ------------------------------------------------------------------ command part (key normalisation, LOCK/UNLOCK mapping)
KEYWORDS = [b"LOCK_ID", b"FLAG", b"TIMEOUT", b"EXPRIED", b"COUNT", b"RCOUNT", b"WILL", b"SET", b"UNSET", b"INCR", b"APPEND",
            b"SHIFT", b"EXECUTE", b"PUSH", b"POP"]
NUMS = [b"0", b"1", b"2", b"5", b"-1", b"255", b"256", b"65535", b"65536", b"65537", b"131087", b"4294967295", b"4294967296",
        b"9223372036854775807", b"9223372036854775808", b"-9223372036854775808", b"+7", b"007", b"", b"x", b"1_0", b" 1", b"0x10",
        b"3000", b"3001", b"65535000", b"65535001", b"120000", b"3600", b"99999999999"]


def mixcase(rng, w):
    r = rng.random()
    if r < 0.6:
        return w
    if r < 0.8:
        return w.lower()
    if r < 0.9:
        return bytes(c ^ 0x20 if rng.random() < 0.5 and 65 <= (c & ~0x20) <= 90 else c for c in w)
    # non-ASCII runes that upper-case into ASCII: U+017F -> S, U+0131 -> I ; plus a lookalike that must not match
    return w.replace(b"S", "ſ".encode(), 1) if rng.random() < 0.5 else w.replace(b"I", "ı".encode(), 1) \
        if rng.random() < 0.7 else w.replace(b"K", "K".encode(), 1)


def gen_key(rng):
    r = rng.random()
    n = rng.choice([0, 1, 2, 7, 15, 16, 17, 31, 32, 33, 48, 64]) if r < 0.6 else rng.randint(0, 64)
    if n == 32 and rng.random() < 0.7:
        k = bytes(rng.choice(b"0123456789abcdefABCDEF") for _ in range(32))
        if rng.random() < 0.3:
            i = rng.randrange(32)
            k = k[:i] + bytes([rng.choice(b"gG/:@`xz \xff")]) + k[i + 1:]
        return k
    if rng.random() < 0.5:
        return bytes(rng.choice(b"abcxyz0189_-:") for _ in range(n))
    return bytes(rng.randrange(256) for _ in range(n))


def gen_lock_args(rng, depth=0):
    name = rng.choice([b"LOCK", b"UNLOCK", b"lock", b"Unlock", b"PUSH", b"FOO"]) if depth else \
        mixcase(rng, rng.choice([b"LOCK", b"LOCK", b"UNLOCK"]))
    args = [name, gen_key(rng)]
    for _ in range(rng.choice([0, 1, 1, 2, 3, 5])):
        kw = rng.choice(KEYWORDS)
        if kw == b"EXECUTE":
            if depth < 2 and rng.random() < 0.8:
                args += [mixcase(rng, kw), mixcase(rng, rng.choice([b"UNLOCK", b"TIMEOUT", b"EXPRIED", b"CURRENT", b""]))]
                args += gen_lock_args(rng, depth + 1)
                if rng.random() < 0.2:
                    args = args[:-2]
                return args
            kw = b"SET"
        if kw == b"LOCK_ID":
            v = gen_key(rng)
        elif kw in (b"SET", b"APPEND", b"PUSH", b"UNSET"):
            v = gen_arg(rng, False)
        else:
            v = rng.choice(NUMS) if rng.random() < 0.8 else str(rng.randint(-70000, 5000000000)).encode()
        if rng.random() < 0.06:
            kw = rng.choice([b"NOPE", b"", b"COUNTX", b"\xffSET"])
        args += [mixcase(rng, kw), v]
    r = rng.random()
    if depth == 0 and r < 0.05:
        args = args[:-1]
    elif depth == 0 and r < 0.08:
        args = args[:1]
    return args


def gen_set_args(rng):
    args = [rng.choice([b"SET", b"set", b"GETSET"]), gen_key(rng), gen_arg(rng, False)]
    for _ in range(rng.choice([0, 0, 1, 1, 2, 3, 4])):
        kw = rng.choice([b"EX", b"PX", b"TX", b"PTX", b"NX", b"XX", b"ACK", b"NAOF", b"ZZ", b""])
        args.append(mixcase(rng, kw))
        if kw in (b"EX", b"PX", b"TX", b"PTX") and rng.random() < 0.8:
            args.append(rng.choice(NUMS))
    if rng.random() < 0.1:
        args = args[:rng.randint(1, 2)]
    return args


def source_probes(repo):
    """everything the model takes from the source text of the tree under test"""
    res = {"problems": []}
    form, n = source_probe(repo)
    res["args2flag_bound"] = form
    if form is None:
        res["problems"].append("ConvertArgs2Flag: bound tests not recognised (found %d)" % n)
    tp = open(os.path.join(repo, "protocol", "textparse.go")).read()
    a = len(re.findall(r"^\s*self\.cargIndex = cargLen\s*$", tp, flags=re.M))
    b = len(re.findall(r"^\s*self\.cargIndex = self\.cargLen\s*$", tp, flags=re.M))
    res["cargidx"] = "shipped" if (a, b) == (2, 0) else "repaired" if (a, b) == (0, 2) else None
    if res["cargidx"] is None:
        res["problems"].append("textparse.go stage 4: `self.cargIndex = ...` after a complete argument not recognised (%d/%d)" % (a, b))
    a = len(re.findall(r"startBufIndex, endBufIndex := self\.bufIndex, self\.bufIndex\s*$", tp, flags=re.M))
    b = len(re.findall(r"startBufIndex, endBufIndex := self\.bufIndex, self\.bufIndex\s*-\s*1\s*$", tp, flags=re.M))
    res["msgend"] = "shipped" if (a, b) == (2, 0) else "repaired" if (a, b) == (0, 2) else None
    if res["msgend"] is None:
        res["problems"].append("textparse.go stage 5/6: initialisation of endBufIndex not recognised (%d/%d)" % (a, b))
    cg = open(os.path.join(repo, "protocol", "command.go")).read()
    m = re.search(r"var ERROR_MSG \[\]string = \[\]string\{(.*?)\n\}", cg, flags=re.S)
    msgs = re.findall(r'"([^"\\]*)"', m.group(1)) if m else None
    res["error_msg"] = msgs
    if msgs is None:
        res["problems"].append("command.go: ERROR_MSG table not recognised")
    m = re.search(r"RESULT_SUCCED = iota(.*?)\)", cg, flags=re.S)
    res["result_codes"] = 1 + len(re.findall(r"^\s*RESULT_\w+\s*$", m.group(1), flags=re.M)) if m else None
    want = {"COMMAND_LOCK": 1, "COMMAND_UNLOCK": 2, "LOCK_FLAG_CONTAINS_DATA": 0x20, "UNLOCK_FLAG_CONTAINS_DATA": 0x20,
            "LOCK_FLAG_UPDATE_WHEN_LOCKED": 2, "TIMEOUT_FLAG_MINUTE_TIME": 0x40, "TIMEOUT_FLAG_MILLISECOND_TIME": 0x400,
            "TIMEOUT_FLAG_LOCK_WAIT_WHEN_UNLOCK": 0x200, "TIMEOUT_FLAG_REQUIRE_ACKED": 0x1000, "EXPRIED_FLAG_MINUTE_TIME": 0x40,
            "EXPRIED_FLAG_MILLISECOND_TIME": 0x400, "EXPRIED_FLAG_UNLIMITED_AOF_TIME": 0x200, "EXPRIED_FLAG_ZEOR_AOF_TIME": 0x100,
            "EXPRIED_FLAG_UPDATE_NO_RESET_EXPRIED_CHECKED_COUNT": 0x2000, "EXPRIED_FLAG_UNLIMITED_EXPRIED_TIME": 0x4000,
            "LOCK_DATA_STAGE_UNLOCK": 1, "LOCK_DATA_STAGE_TIMEOUT": 2, "LOCK_DATA_STAGE_EXPRIED": 3,
            "LOCK_DATA_COMMAND_TYPE_SET": 0, "LOCK_DATA_COMMAND_TYPE_UNSET": 1, "LOCK_DATA_COMMAND_TYPE_INCR": 2,
            "LOCK_DATA_COMMAND_TYPE_APPEND": 3, "LOCK_DATA_COMMAND_TYPE_SHIFT": 4, "LOCK_DATA_COMMAND_TYPE_EXECUTE": 5,
            "LOCK_DATA_COMMAND_TYPE_PUSH": 7, "LOCK_DATA_COMMAND_TYPE_POP": 8, "LOCK_DATA_FLAG_VALUE_TYPE_NUMBER": 1,
            "LOCK_DATA_FLAG_CONTAINS_PROPERTY": 0x10, "LOCK_DATA_PROPERTY_CODE_KEY": 1}
    for name, val in want.items():
        m = re.search(r"^\s*(?:const\s+)?%s\s*=\s*(0x[0-9a-fA-F]+|\d+)\s*$" % name, cg, flags=re.M)
        if not m or int(m.group(1), 0) != val:
            res["problems"].append("constant %s: model uses %d, source has %s" % (name, val, m.group(1) if m else "?"))
    return res


def cmd_gen_cases(ctx, repo):
    rng = ctx.rng
    scale = 1 if ctx.tier == "quick" else 25
    cases = []
    # K: every length 0..64 twice (printable / binary), 32-hex valid + invalid, upper/lower case
    for n in range(0, 65):
        cases.append(Case("K " + hx(bytes((97 + (i % 26)) for i in range(n))), "key"))
        cases.append(Case("K " + hx(bytes(rng.randrange(256) for _ in range(n))), "key"))
    for _ in range(60 * scale):
        cases.append(Case("K " + hx(gen_key(rng)), "key"))
    # T: LOCK / UNLOCK argument lists
    fixed = [[b"LOCK", b"k"], [b"UNLOCK", b"k"], [b"LOCK"], [b"LOCK", b"k", b"COUNT"], [b"LOCK", b"k", b"COUNT", b"5", b"RCOUNT", b"3"],
             [b"LOCK", b"k", b"TIMEOUT", b"131087", b"EXPRIED", b"65546"], [b"LOCK", b"k", b"WILL", b"1"], [b"UNLOCK", b"k", b"WILL", b"1"],
             [b"LOCK", b"k", b"EXECUTE", b"UNLOCK", b"UNLOCK", b"k2", b"TIMEOUT", b"5"], [b"LOCK", b"k", b"EXECUTE", b"UNLOCK"],
             [b"LOCK", b"k", b"SET", b"v", b"FLAG", b"0"], [b"LOCK", b"k", b"EXECUTE", b"x", b"LOCK", b"k2", b"SET", b"v", b"FLAG", b"0"],
             [b"LOCK", b"k", b"COUNT", b"65536"], [b"LOCK", b"k", b"RCOUNT", b"256"], [b"LOCK", b"k", b"COUNT", b"-1"],
             ["ſET".encode(), b"k"], [b"LOCK", b"k", "ſET".encode(), b"v"], [b"LOCK", b"k", "TıMEOUT".encode(), b"9"],
             [b"LOCK", b"k", "LOCK_ID".encode(), b"9"]]
    for a in fixed:
        cases.append(Case("T " + " ".join(hx(x) for x in a), "lock-args"))
    for _ in range(400 * scale):
        cases.append(Case("T " + " ".join(hx(x) for x in gen_lock_args(rng)), "lock-args"))
    # F: SET / GETSET through ConvertArgs2Flag
    for a in ([b"SET", b"k", b"v", b"EX"], [b"SET", b"k", b"v", b"EX", b"10"], [b"SET", b"k", b"v", b"NX", b"EX", b"10"],
              [b"SET", b"k", b"v", b"NX", b"NX", b"EX"], [b"SET", b"k", b"v", b"PX"], [b"SET", b"k", b"v", b"XX", b"TX"],
              [b"SET", b"k", b"v", b"XX", b"ACK", b"PTX"], [b"SET", b"k", b"v", b"NX", b"XX", b"EX", b"5"]):
        cases.append(Case("F " + " ".join(hx(x) for x in a), "set-args"))
    for _ in range(250 * scale):
        cases.append(Case("F " + " ".join(hx(x) for x in gen_set_args(rng)), "set-args"))
    # W: rendering of results: every result code 0..15 and boundary counters
    for code in range(0, 16):
        cases.append(Case("W %d 0 %s 1 2 3 4" % (code, "00" * 15 + "01"), "render"))
    for _ in range(150 * scale):
        code = rng.choice([0, 0, 5, 6, 7, 8, 9, 10, 11, 12, rng.randrange(256)])
        lid = bytes(rng.randrange(256) for _ in range(16)).hex()
        cnt = rng.choice([0, 1, 65534, 65535, rng.randrange(65536)])
        rc = rng.choice([0, 1, 254, 255, rng.randrange(256)])
        flag = rng.choice([0, 0, 0, 0x20, 0x21, 1])
        data = "nil"
        if flag & 0x20 and rng.random() < 0.9:
            val = gen_arg(rng, False)
            r = rng.random()
            if r < 0.6:
                frame = (len(val) + 2).to_bytes(4, "little") + bytes([0, 0]) + val
            elif r < 0.8:
                key = gen_key(rng)
                pl = len(key) + 3
                frame = (len(val) + 2 + pl + 2).to_bytes(4, "little") + bytes([0, 0x10]) + pl.to_bytes(2, "little") + \
                    bytes([1]) + len(key).to_bytes(2, "little") + key + val
            elif r < 0.9:
                frame = bytes([2, 0, 0, 0, 1, 0])
            else:
                frame = bytes([2, 0, 0, 0, 0, 0x10]) + val[:1]     # property flag without a property block
            data = frame.hex()
        cases.append(Case("W %d %d %s %d %d %d %d %s" % (code, flag, lid, rng.randrange(65536), cnt, rng.randrange(256), rc, data), "render"))
    return cases


def needs_md5(line):
    f = line.split(" ")
    if f[0] in ("K", "T", "F"):
        return [x for x in f[1:] if x != "-" and len(x) > 32]
    return []


_probe_cache = {}


def model_lines(cases, cmd_cases, goexe=None, repo=None):
    pr = _probe_cache["probes"]
    head = ["V %d %d %d" % (1 if pr["cargidx"] == "repaired" else 0, 1 if pr["msgend"] == "repaired" else 0,
                            1 if pr["args2flag_bound"] == "i+1" else 0),
            "E " + " ".join(hx(m.encode()) for m in (pr["error_msg"] or []))]
    # MD5 digests are computed by Go's crypto/md5 (harness command MD5) and handed to the model
    want = sorted(set(h for c in cmd_cases for h in needs_md5(c.line)))
    if want:
        rc, out, err = run_lines(_probe_cache["goexe"], ["MD5 " + h for h in want])
        if rc != 0 or len(out) != len(want):
            raise vlib.BuildError("textrun MD5 pass failed: " + err[-500:])
        head += ["M %s %s" % (h, d) for h, d in zip(want, out)]
    _probe_cache["md5_inputs"] = len(want)
    return head + [c.line for c in cases] + [c.line for c in cmd_cases]


def norm_gen(g, m):
    """GenLockId() is random: where the model says lockid=GEN accept any id of the code that is not the key"""
    if "lockid=GEN" in m:
        mm = re.search(r"lockid=([0-9a-f]{32}) key=([0-9a-f]{32})", g)
        if mm and mm.group(1) != mm.group(2):
            g = g.replace("lockid=" + mm.group(1), "lockid=GEN", 1)
    return g


def py_arg2id(s):
    if len(s) == 16:
        return s
    if len(s) > 16:
        if len(s) == 32:
            try:
                return bytes.fromhex(s.decode("ascii")) if re.fullmatch(rb"[0-9a-fA-F]{32}", s) else hashlib.md5(s).digest()
            except Exception:
                return hashlib.md5(s).digest()
        return hashlib.md5(s).digest()
    return b"\x00" * (16 - len(s)) + s


def cmd_evaluate(ctx, cmd_cases, out_g, out_m, goexe, repo):
    pr = _probe_cache["probes"]
    kinds, mism, outcomes = {}, 0, {}
    distinct = set()
    panics = {}
    key_classes = {"<16": 0, "=16": 0, "hex32": 0, "md5": 0}
    for c, g, m in zip(cmd_cases, out_g, out_m):
        kinds[c.kind] = kinds.get(c.kind, 0) + 1
        distinct.add(c.line)
        g2 = norm_gen(g, m)
        cls = "ok" if c.kind == "key" else g.split(" ")[0].split("=")[0]
        outcomes[c.kind + ":" + cls] = outcomes.get(c.kind + ":" + cls, 0) + 1
        if m == "unmodelled":
            outcomes[c.kind + ":unmodelled"] = outcomes.get(c.kind + ":unmodelled", 0) + 1
            continue
        if g2 != m:
            mism += 1
            if mism <= 3:
                ctx.violation("corr:textcmd:" + c.kind, "model and code disagree on " + c.kind,
                              {"correspondence": "coq/Text/TextCmd.v / KeyNorm.v vs protocol.TextCommandConverter", "case": c.line[:3000],
                               "go": g[:2000], "model": m[:2000]}, found_input=False)
        if c.kind == "key":
            # monitor: the documented normalisation, evaluated on the code's answer
            s = bytes.fromhex(c.line.split(" ")[1]) if c.line.split(" ")[1] != "-" else b""
            want = py_arg2id(s).hex()
            key_classes["<16" if len(s) < 16 else "=16" if len(s) == 16 else
                        "hex32" if re.fullmatch(rb"[0-9a-fA-F]{32}", s) else "md5"] += 1
            if g != want + " " + want:
                ctx.violation("keynorm:len%d" % len(s), "key/id normalisation differs from the documented rule",
                              {"string": s.hex(), "code": g, "documented": want})
        if g == "panic":
            f = c.line.split(" ")
            if c.kind == "set-args":
                sig = "panic:protocol/textcommand.go:ConvertArgs2Flag:index-out-of-range"
            elif c.kind == "render":
                code, flag = int(f[1]), int(f[2])
                nmsg = len(pr["error_msg"] or [])
                if code >= nmsg:
                    sig = "panic:protocol/textcommand.go:WriteTextLockAndUnLockCommandResult:ERROR_MSG[%s]" % \
                          ("result_code" if code < (pr["result_codes"] or 0) else "undefined_code")
                elif flag & 0x20 and f[-1] == "nil":
                    sig = "panic:protocol/textcommand.go:WriteTextLockAndUnLockCommandResult:nil-data-with-data-flag"
                else:
                    sig = "panic:protocol/textcommand.go:WriteTextLockAndUnLockCommandResult:data-frame"
            else:
                sig = "panic:protocol/textcommand.go:" + c.kind
            if sig not in panics or len(c.line) < len(panics[sig].line):
                panics[sig] = c
    for sig, c in sorted(panics.items()):
        f = c.line.split(" ")
        if c.kind == "render":
            replay = {"call": "TextCommandConverter.WriteTextLockAndUnLockCommandResult under recover()",
                      "result": {"Result": int(f[1]), "Flag": int(f[2]), "LockId": f[3], "Lcount": int(f[4]), "Count": int(f[5]),
                                 "Lrcount": int(f[6]), "Rcount": int(f[7]), "Data": f[8] if len(f) > 8 else "nil"},
                      "case_line": c.line, "rerun": "echo '<case_line>' | build/textrun"}
            # undefined result codes / hand-made data frames are outside the property's quantifier (defined codes, engine-made data)
            if sig.endswith("undefined_code]") or sig.endswith("nil-data-with-data-flag") or sig.endswith("data-frame"):
                ctx.notes.append("outside the quantifier, not reported: %s (%s)" % (sig, c.line[:80]))
                continue
        else:
            replay = {"call": "TextCommandConverter.ConvertTextKeyOperateValueCommand under recover()",
                      "args": [bytes.fromhex(x).decode("latin1") if x != "-" else "" for x in f[1:]],
                      "case_line": c.line, "rerun": "echo '<case_line>' | build/textrun"}
        ctx.violation(sig, "panic (index out of range) in the text command layer", replay)
    return {"distinct": len(distinct), "cases": len(cmd_cases), "kinds": kinds, "outcome_classes": outcomes,
            "model_vs_code_mismatches": mism, "key_length_classes": key_classes, "md5_inputs_from_go": _probe_cache.get("md5_inputs", 0),
            "source_probes": {k: v for k, v in pr.items() if k != "problems"}}


def run(ctx):
    repo = vlib.REPO
    t_start = time.time()
    timings = {}
    # ---- 1. proofs
    ok, log = ctx.coq(["Properties/C14_text.vo"])
    timings["coq_s"] = round(getattr(ctx, "coq_time", 0), 1)
    thms = re.findall(r"^Theorem (\w+)", open(os.path.join(VERIF, "coq/Properties/C14_text.v")).read(), flags=re.M)
    for th in thms:
        th_ok = ok and th in ctx.assumption_report
        ctx.obligation(th, th_ok, "" if th_ok else getattr(ctx, "coq_failure", "not reached"))
    if not ok:
        ctx.violation("proof:C14_text", "the Coq development no longer checks",
                      {"theorems": thms, "log": getattr(ctx, "coq_failure", log[-1500:])}, found_input=False)
    if ctx.tier == "thorough" and ok:
        cok, clog = ctx.coqchk(["Slock.Properties.C14_text"])
        ctx.obligation("coqchk -o Slock.Properties.C14_text", cok, "" if cok else clog[-800:])
        ctx.notes.append("coqchk: " + " ".join(clog.split())[-400:])

    # ---- 2. builds from the tree under test
    t0 = time.time()
    goexe = ctx.go_build("textrun", os.path.join(VERIF, "harness/text"),
                         overlay={"protocol/zz_verif_text.go": "harness/text/inj/zz_verif_text.go"})
    model = ctx.ocaml_model("text")
    timings["build_s"] = round(time.time() - t0, 1)

    probes = source_probes(repo)
    _probe_cache["probes"], _probe_cache["goexe"] = probes, goexe
    ctx.obligation("source probes recognise the expressions the model is parameterised by", not probes["problems"],
                   "; ".join(probes["problems"]))
    if probes["problems"]:
        ctx.violation("probe:C14_text", "the source text the model follows has changed shape: " + "; ".join(probes["problems"]),
                      {"broken": "source probe (checks/C14_text.py source_probes)", "detail": probes["problems"]}, found_input=False)

    # ---- 3. cases: corpus first, then generated
    cases = []
    cdir = os.path.join(VERIF, "corpus", "C14_text")
    ncorpus = 0
    for fn in sorted(os.listdir(cdir)) if os.path.isdir(cdir) else []:
        if not fn.endswith(".json"):
            continue
        for ent in json.load(open(os.path.join(cdir, fn))):
            if ent["kind"] == "wf-request":
                al = [[bytes.fromhex(a) for a in args] for args in ent["args_list"]]
                cases.append(wf_request_case(al, ent["sizes"], ent["cap"], "corpus:" + fn))
                ncorpus += 1
            elif ent["kind"].startswith("wf-response-"):
                cases.append(wf_response_case(ent["form"], bytes.fromhex(ent["message"]),
                                              [bytes.fromhex(a) for a in ent["results"]], ent["sizes"], ent["cap"], "corpus:" + fn))
                ncorpus += 1
            elif ent["kind"] == "raw":
                cases.append(Case(ent["line"], "corpus-raw"))
                ncorpus += 1
    cases += gen_parser_cases(ctx.rng, ctx.tier)
    # the theorem's hypothesis good_chunking (Coq, extracted) evaluated on every well-formed request / bulk / array case
    guard_cases = [Case("G " + c.line[2] + " " + c.line.split(" ", 3)[3], "guard", meta=c.meta)
                   for c in cases if c.kind in ("wf-request", "wf-response-bulk", "wf-response-array")
                   and sum(len(x) for x in c.meta["chunks"]) <= 1500]     # the byte automaton is quadratic in the argument length
    cases += guard_cases
    cmd_cases = cmd_gen_cases(ctx, repo)
    all_lines = [c.line for c in cases] + [c.line for c in cmd_cases]

    t0 = time.time()
    rc_g, out_g, err_g = run_lines(goexe, all_lines)
    timings["go_run_s"] = round(time.time() - t0, 1)
    t0 = time.time()
    rc_m, out_m, err_m = run_lines(model, model_lines(cases, cmd_cases))
    timings["model_run_s"] = round(time.time() - t0, 1)
    if rc_g != 0 or len(out_g) != len(all_lines):
        raise vlib.BuildError("textrun failed rc=%s lines=%d/%d: %s" % (rc_g, len(out_g), len(all_lines), err_g[-800:]))
    if rc_m != 0 or len(out_m) != len(all_lines):
        raise vlib.BuildError("modelrun failed rc=%s lines=%d/%d: %s" % (rc_m, len(out_m), len(all_lines), err_m[-800:]))

    # ---- 4. parser: correspondence + monitor
    dist = {}
    n_mismatch = 0
    n_monitor_fail = 0
    n_bad_guard, n_bad_guard_but_ok = 0, 0
    n_guard_eval, n_guard_disagree = 0, 0
    explained = {}
    first_fail = {}
    chunk_hist = {"1": 0, "2-3": 0, "4-15": 0, "16+": 0}
    byte_total = 0
    distinct = set()
    for i, c in enumerate(cases):
        g, m = out_g[i], out_m[i]
        dist[c.kind] = dist.get(c.kind, 0) + 1
        distinct.add(hashlib.sha1(c.line.encode()).hexdigest())
        nch = c.line.count(" ") - 2
        chunk_hist["1" if nch <= 1 else "2-3" if nch <= 3 else "4-15" if nch <= 15 else "16+"] += 1
        byte_total += (len(c.line) - 8) // 2
        if c.kind == "guard":
            n_guard_eval += 1
            if (m == "good") == bool(c.meta["bad"]):
                n_guard_disagree += 1
                ctx.violation("corr:good_chunking", "Coq good_chunking and the position-based guard of the check disagree",
                              {"correspondence": "TextSpec.good_chunking vs checks/C14_text.py guard_bad", "case": c.line[:3000], "model": m},
                              found_input=False)
            continue
        if g != m:
            n_mismatch += 1
            if n_mismatch <= 3:
                mon_ok = True
                if c.expect is not None:
                    mon_ok, _ = monitor_wf(c, g)
                ctx.violation("corr:textparse:%s" % c.kind,
                              "model and code disagree on a parser run (%s)" % c.kind,
                              {"correspondence": "coq/Text/TextParse.v feed_all vs protocol.TextParser", "case": c.line[:4000],
                               "go": g[:2000], "model": m[:2000]}, found_input=not mon_ok)
        if c.expect is None:
            continue
        okm, why = monitor_wf(c, g)
        bad = c.meta["bad"]
        if bad:
            n_bad_guard += 1
            if okm:
                n_bad_guard_but_ok += 1
        if not okm:
            n_monitor_fail += 1
            if c.kind == "wf-request":
                sig = "textparse:request:" + ("split-arg-data-then-read-ends-before-its-LF" if bad else "unexplained")
            else:
                sig = "textparse:response:%s:%s" % (c.meta["form"], c.meta["why"] if bad else "unexplained")
            explained[sig] = explained.get(sig, 0) + 1
            if sig not in first_fail or len(c.line) < len(first_fail[sig][0].line):
                first_fail[sig] = (c, g, why)
    for sig, (c, g, why) in sorted(first_fail.items()):
        if c.kind == "wf-request":
            c2 = shrink_wf_request(goexe, c)
            _, o2, _ = run_lines(goexe, [c2.line])
            replay = {"monitor": "BuildRequest stream cut into reads must parse to exactly the original args",
                      "args_list": [[a.hex() for a in args] for args in c2.meta["args_list"]],
                      "read_sizes": [len(x) for x in c2.meta["chunks"]], "rbuf_capacity": c2.meta["cap"],
                      "case_line": c2.line[:6000], "go_observation": o2[0][:3000], "why": monitor_wf(c2, o2[0])[1],
                      "rerun": "echo '<case_line>' | build/textrun"}
        else:
            replay = {"monitor": "BuildResponse stream cut into reads must parse to the original response",
                      "form": c.meta["form"], "message": c.meta["message"].hex(), "results": [a.hex() for a in c.meta["results"]],
                      "read_sizes": [len(x) for x in c.meta["chunks"]], "case_line": c.line[:6000], "go_observation": g[:3000], "why": why}
        ctx.violation(sig, "text parser result depends on how the stream is split into reads / does not round-trip: " + why[:200], replay)

    # ---- 5. command part
    cmd_cov = cmd_evaluate(ctx, cmd_cases, out_g[len(cases):], out_m[len(cases):], goexe, repo)

    ctx.trusted += [
        "extraction: ocaml/text/Extract.v (Require ExtrOcamlBasic only; N/Z/positive kept as Coq datatypes; no Extract Constant); OCaml compiler + ocaml/text/driver.ml (hex/decimal printing) trusted for the correspondence only",
        "harness/text/main.go mirrors the read loop of server/protocol.go TextServerProtocol.Process (Read -> BufferUpdate -> ParseRequest -> IsParseFinish -> Reset); 5-line accessor VerifState injected into package protocol by go build -overlay",
        "modelled, not verified: strconv.Atoi/ParseInt (model: optional sign, decimal digits, int64 range), fmt %d/%x, strings.ToUpper on ASCII, crypto/md5 (Section variable with length 16; the Go digest is passed into the model run), GenRequestId/GenLockId (symbolic ids)",
        "the theorem hypothesis good_chunking (Coq, extracted) is evaluated on every well-formed request/bulk/array case and compared with the position-based guard of the check (read [a,b) and data span [s,e): s<a<e and e<=b<=e+1); 'guard violated => code fails' (completeness of the guard) is measured on all samples, not proved",
    ]
    cov = {
        "evaluations": len(all_lines),
        "distinct_nontrivial": len(distinct) + cmd_cov.get("distinct", 0),
        "rule": "distinct case lines (parser: mode,capacity,chunk sequence; commands: argument lists / result records)",
        "samples": [c.line[:160] for c in cases[:2]] + [c.line[:160] for c in cmd_cases[:2]],
        "parser_cases": len(cases), "corpus_cases": ncorpus, "kinds": dist, "reads_per_case_hist": chunk_hist,
        "stream_bytes_total": byte_total,
        "model_vs_code_mismatches": n_mismatch,
        "wellformed_cases": sum(1 for c in cases if c.expect is not None),
        "wellformed_failing_on_code": n_monitor_fail, "failing_by_signature": explained,
        "good_chunking_evaluated_by_extracted_coq": n_guard_eval, "good_chunking_vs_position_guard_disagreements": n_guard_disagree,
        "guard_violated_cases": n_bad_guard, "guard_violated_but_code_correct": n_bad_guard_but_ok,
        "command_part": cmd_cov, "timings": timings,
    }
    assumptions = [
        "reads deliver at least one byte and at most len(rbuf) bytes (net.Conn.Read contract)",
        "chunking theorem holds under good_chunking (no read starts strictly inside an argument's data and ends 0 or 1 bytes after it); refuted without it",
        "status/error lines: text without CR/LF, non-empty; no read starts at the terminator",
    ]
    return ctx.finish(cov, assumptions)
