"""C04 — no lost wake-up; queue order (DESIGN.md section 5 C04)."""
from checks import _engine

MANIFEST = dict(
    technique="Coq proof over the executable engine model (induction over action lists / invariants) + differential correspondence check model vs real LockDB",
    text="Theorems in coq/Properties/C04*.v (every step that lowers a key's locked counter or removes a queued request leaves a wake-up pass pending; a pass only stops at an inadmissible head or an empty queue; never out of fuel) are machine-checked over the engine model for all states; tie = differential correspondence incl. wait-queue contents in pop order after every action; monitor = 'no admissible live head waiter at a quiescent point' + FIFO/priority order of grants on implementation snapshots. Two genuine lost-wake-up defects found by this check were repaired (fix commits fa69cee, 5cd5579).",
    note="Trusted: Coq kernel; hand-written model validated by the correspondence check of the same run; extraction (ExtrOcamlBasic only); harness + hooks; sequential schedules at request/sweep granularity, one shard, manual clock (sweeper driver loops replayed by the harness); see evidence trusted_base for the full list of modelled-not-verified parts.",
)
PROFILES = [('waiters', 0.5), ('core', 0.2), ('timeouts', 0.15), ('count', 0.1), ('many', 0.03)]
MONITORS = ['C04', 'PANIC']


def long_queues(rng, cid0):
    """queues long enough to leave the inline array (> 143 waiters with this runtime's slice growth) and then switch to
    the priority ring when a request of another priority arrives; afterwards the holds are handed over one by one so
    that the grant order is observed (FIFO among equals, higher priority first)."""
    cases = []
    for j in range(2):
        n = rng.choice([150, 170, 230, 300])
        key = rng.choice([5, 9])
        lines = ["case %d 1000000 1 %d" % (cid0 + j, rng.choice([0, 1]))]
        rid = 500000 + 1000 * j
        lines.append("req 1 L %d 0 7000 %d 0 0 0 600 0 0 -" % (rid, key)); rid += 1
        for i in range(n):
            lines.append("req %d L %d 0 %d %d 0 500 0 600 0 0 -" % (1 + i % 3, rid, 7001 + i, key)); rid += 1
            if i == 20 and j == 1:          # a cancelled waiter in the middle: tombstone carried through the switch
                lines.append("req 1 U %d 2 %d %d 0 0 0 0 0 0 -" % (rid, 7001 + 10, key)); rid += 1
        lines.append("req 2 L %d 0 9000 %d 16 500 0 600 0 %d -" % (rid, key, rng.choice([1, 2, 3]))); rid += 1
        lines.append("req 2 L %d 0 9001 %d 0 500 0 600 0 0 -" % (rid, key)); rid += 1
        for i in range(12):
            lines.append("req 1 U %d 1 0 %d 0 0 0 0 0 0 -" % (rid, key)); rid += 1
        lines.append("adv 0")
        lines.append("role 1")
        for i in range(n + 6):
            lines.append("req 1 U %d 1 0 %d 0 0 0 0 0 0 -" % (rid, key)); rid += 1
        for step in [1] * 3 + [700]:
            lines += ["adv %d" % step, "sweept", "sweepe"]
        lines += ["adv 1", "sweept", "sweepe"] * 12
        lines.append("end")
        cases.append(lines)
    return cases


def run(ctx):
    if getattr(ctx, "replay", None):
        return _engine.replay(ctx, 'C04', MONITORS)
    return _engine.run_engine_check(ctx, 'C04', PROFILES, MONITORS, n_quick=500, n_thorough=20000, extra_cases=long_queues)
