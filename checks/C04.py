"""C04 — no lost wake-up; queue order (DESIGN.md section 5 C04)."""
from checks import _engine

MANIFEST = dict(
    technique="Coq proof over the executable engine model (induction over action lists / invariants) + differential correspondence check model vs real LockDB",
    text="Theorems in coq/Properties/C04*.v (every step that lowers a key's locked counter or removes a queued request leaves a wake-up pass pending; a pass only stops at an inadmissible head or an empty queue; never out of fuel) are machine-checked over the engine model for all states; tie = differential correspondence incl. wait-queue contents in pop order after every action; monitor = 'no admissible live head waiter at a quiescent point' + FIFO/priority order of grants on implementation snapshots. Two genuine lost-wake-up defects found by this check were repaired (fix commits fa69cee, 5cd5579).",
    note="Trusted: Coq kernel; hand-written model validated by the correspondence check of the same run; extraction (ExtrOcamlBasic only); harness + hooks; sequential schedules at request/sweep granularity, one shard, manual clock (sweeper driver loops replayed by the harness); see evidence trusted_base for the full list of modelled-not-verified parts.",
)
PROFILES = [('waiters', 0.5), ('core', 0.2), ('timeouts', 0.15), ('count', 0.1), ('many', 0.03)]
MONITORS = ['C04', 'PANIC']


def run(ctx):
    if getattr(ctx, "replay", None):
        return _engine.replay(ctx, 'C04', MONITORS)
    return _engine.run_engine_check(ctx, 'C04', PROFILES, MONITORS, n_quick=500, n_thorough=20000)
