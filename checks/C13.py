"""C13 -- no client byte stream can crash the server.

1. Coq: Properties/C13.vo (models coq/Proto/Binary.v + TextCmds.v: binary frame dispatch, data-frame length handling,
   Redis-style text converters, ERROR_MSG lookup; panics are values). The model is parameterised by `fixes` booleans
   that this check derives from the *source text* of /repo on every run and writes to coq/Proto/SrcFlags.v, so the
   universal theorems are stated for the repaired variant and the `C13_refuted_*` witnesses for the unrepaired one; the
   theorems that talk about the *current* tree (`C13_*_current`) are selected by those flags.
2. Correspondence of the pure model functions with the Go functions (ocaml/proto/modelrun vs. crashrun `pure` mode).
3. Whole-server monitor (the property itself, evaluated on the REAL server): generated client byte streams (binary
   frames of every type with arbitrary fields + data frames of every length, every registered text command with 0..8
   arbitrary arguments, malformed RESP, mutated and random streams, every one in a generated split into reads) are fed
   to a real in-process node through Server.handle (no recover() there) in a CHILD process per batch; a SECOND
   connection is probed (binary INIT/PING/LOCK/UNLOCK, text PING) and the child's exit status / panic trace /
   goroutine dump decide. A dead or hung child is bisected to the offending stream(s) and shrunk; its signature
   `panic:<file>:<function>` is matched against known_findings/C13.json.
"""
import collections, concurrent.futures, json, os, re, shutil, signal, subprocess, sys, tempfile, time
from tools import vlib

sys.path.insert(0, os.path.join(vlib.VERIF, "harness", "crash"))
import c13gen  # noqa: E402

MANIFEST = {
    "property": "C13",
    "theorems": "coq/Properties/C13.v",
    "model": ["coq/Proto/Binary.v", "coq/Proto/TextCmds.v", "coq/Proto/ProtoProofs.v"],
    "harness": "harness/crash",
    "ocaml": "ocaml/proto",
    "engine": "coq",
    "category": "proof",
    "text": "Coq theorems: the binary dispatch / data-frame layer and the Redis-style text converters + result writers never "
            "reach the Panic outcome for ANY input (under the source-derived repair flags; refutation witnesses for today's "
            "code), tied to the Go functions by differential runs; plus a whole-server crash monitor on the real "
            "Server.handle path with bisection and shrinking.",
    "note": "partial: admin, subscribe, CALL handlers other than decode, KEYS/SCAN regexps, the lock engine behind Lock/UnLock "
            "and the value-operation layer (coq/Data, other owner) are covered by the real-server monitor only.",
    "technique": "executable Gallina model with panics as values + universal theorems; OCaml extraction diffed against Go; "
                 "child-process fuzzing of the real server with second-connection probe, delta debugging, known-findings matching",
}

VERIF, REPO, BUILD = vlib.VERIF, vlib.REPO, vlib.BUILD
PORT_BASE = 15700


# ------------------------------------------------------------------------------------------------ source facts
def source_text_commands(repo):
    names = []
    src = open(os.path.join(repo, "server", "protocol.go")).read()
    m = re.search(r"func \(self \*TextServerProtocol\) FindHandler\(.*?\n}\n", src, flags=re.S)
    if m:
        names += re.findall(r'self\.handlers\["([^"]+)"\]', m.group(0))
    adm = open(os.path.join(repo, "server", "admin.go")).read()
    m = re.search(r"func \(self \*Admin\) GetHandlers\(.*?\n}\n", adm, flags=re.S)
    if m:
        names += re.findall(r'handlers\["([^"]+)"\]', m.group(0))
    seen, res = set(), []
    for n in names:
        if n not in seen:
            seen.add(n)
            res.append(n)
    return res


def source_cap(repo):
    m = re.search(r"const CONTENT_DATA_MAX_LENGTH = (\d+)", open(os.path.join(repo, "server", "config.go")).read())
    return int(m.group(1)) if m else None


# ------------------------------------------------------------------------------------------------ running a child
class Outcome:
    pass


def top_slock_frame2(trace):
    """(file:function, line) of the first frame of the first goroutine in the trace that lies in slock's own code"""
    lines = trace.splitlines()
    start = 0
    for i, l in enumerate(lines):
        if l.startswith("goroutine ") and l.rstrip().endswith(":"):
            start = i
            break
    for i in range(start + 1, len(lines)):
        l = lines[i]
        if l.startswith("goroutine ") and i > start + 1:
            break
        if not l.startswith("github.com/snower/slock/"):
            continue
        nxt = lines[i + 1].strip() if i + 1 < len(lines) else ""
        fm = re.match(r"^(\S+\.go):(\d+)", nxt)
        path, line = (fm.group(1), int(fm.group(2))) if fm else ("?", 0)
        if "zz_verif" in path:
            continue
        fn = re.sub(r"\((0x[0-9a-f]+|\{|\.\.\.|\)).*$", "", l.strip())      # drop the argument list
        fn = re.sub(r"\[\.\.\.\]", "", fn)
        short = fn.split("/")[-1]                                               # server.(*LockManager).ProcessLockData
        short = short.split(".", 1)[1] if "." in short else short
        short = short.replace("(*", "").replace(")", "")
        short = re.sub(r"\.func\d+(\.\d+)*$", "", short)
        pm = re.search(r"/(server|protocol|client)/([^/]+\.go)$", path)
        rel = "%s/%s" % (pm.group(1), pm.group(2)) if pm else os.path.basename(path)
        return "%s:%s" % (rel, short), line
    return None, 0


def top_slock_frame(trace):
    return top_slock_frame2(trace)[0]


def crash_signature(stderr):
    """(signature, first line of the panic, source line of the top slock frame)"""
    m = re.search(r"^(panic: .*|fatal error: .*)$", stderr, flags=re.M)
    if not m:
        return None, None, 0
    head = m.group(1)
    kind = "panic" if head.startswith("panic:") else "fatal"
    top, line = top_slock_frame2(stderr[m.start():])
    return "%s:%s" % (kind, top or "unknown"), head, line


def analyse_goroutines(glines):
    """from the harness's goroutine dump(s): connection goroutines (Server.handle) that are not simply waiting.
    With two dumps (separator G2START) only goroutines that are busy in the same function in BOTH dumps count."""
    if "G2START" in glines:
        k = glines.index("G2START")
        b1, w1 = analyse_goroutines_one(glines[:k])
        b2, w2 = analyse_goroutines_one(glines[k + 1:])
        return [x[0] for x in b1 if x in b2], w2
    b, w = analyse_goroutines_one(glines)
    return [x[0] for x in b], w


def analyse_goroutines_one(glines):
    blocks, cur = [], []
    for l in glines:
        if l.startswith("goroutine ") and cur:
            blocks.append(cur)
            cur = []
        if l.strip():
            cur.append(l)
    if cur:
        blocks.append(cur)
    bad, waiting = [], 0
    for b in blocks:
        txt = "\n".join(b)
        if "server.(*Server).handle" not in txt:
            continue
        m = re.match(r"goroutine \d+ \[([^\],]+)", b[0])
        state = m.group(1) if m else "?"
        top = top_slock_frame(txt) or "unknown"
        if state in ("chan receive", "select", "IO wait", "sleep", "chan send", "sync.Cond.Wait"):
            waiting += 1
            continue
        gid = re.match(r"goroutine (\d+)", b[0]).group(1)
        bad.append(("hang:%s:%s" % ("busy" if state in ("running", "runnable") else state.replace(" ", "-"), top), gid))
    return bad, waiting


def run_child(exe, streams, workdir, port=0, subscribe=False, settle=1200, probe_every=200, cover=None, timeout=None, aslimit=0):
    """returns dict: status ok|crash|hang|probe|harness, sig, head, last_started, events(list), stderr, glines"""
    shutil.rmtree(workdir, ignore_errors=True)
    os.makedirs(workdir)
    bpath = os.path.join(workdir, "batch.bin")
    c13gen.write_batch(bpath, streams)
    cmd = [exe, "serve", "-dir", workdir, "-batch", bpath, "-settle", str(settle), "-probe-every", str(probe_every)]
    if port:
        cmd += ["-port", str(port)]
    if subscribe:
        cmd += ["-subscribe"]
    if cover:
        cmd += ["-cover", cover]
    if aslimit:
        cmd += ["-aslimit", str(aslimit)]
    env = dict(os.environ)
    env["GOTRACEBACK"] = "all"
    if cover:
        env["GOCOVERDIR"] = cover
    if timeout is None:
        timeout = 60 + 0.25 * len(streams) + settle / 1000.0
    t0 = time.time()
    p = subprocess.Popen(cmd, stdout=subprocess.PIPE, stderr=subprocess.PIPE, env=env, cwd=workdir, start_new_session=True)
    try:
        so, se = p.communicate(timeout=timeout)
        timed_out = False
    except subprocess.TimeoutExpired:
        timed_out = True
        try:
            os.killpg(p.pid, signal.SIGQUIT)   # makes the Go runtime dump all goroutines
            so, se = p.communicate(timeout=10)
        except Exception:
            try:
                os.killpg(p.pid, signal.SIGKILL)
            except Exception:
                pass
            so, se = p.communicate()
    finally:
        try:
            os.killpg(p.pid, signal.SIGKILL)
        except Exception:
            pass
    so, se = so.decode("utf-8", "replace"), se.decode("utf-8", "replace")
    res = {"rc": p.returncode, "stderr": se, "wall": time.time() - t0, "events": {}, "probes": [], "glines": [], "linger": 0,
           "linger_streams": [], "last_started": -1, "last_ended": -1, "done": None}
    for l in so.splitlines():
        if l.startswith("S "):
            res["last_started"] = int(l[2:])
        elif l.startswith("E "):
            f = l.split()
            res["events"][int(f[1])] = (f[2], int(f[3]), int(f[4]), f[5] if len(f) > 5 else "none")
            res["last_ended"] = int(f[1])
        elif l.startswith("P "):
            res["probes"].append(l[2:])
        elif l == "G2START":
            res["glines"].append("G2START")
        elif l.startswith("G "):
            res["glines"].append(l[2:])
        elif l.startswith("LINGER-STREAM "):
            res["linger_streams"].append(int(l.split()[1]))
        elif l.startswith("LINGER "):
            res["linger"] = int(l.split()[1])
        elif l.startswith("DONE"):
            res["done"] = l[5:]
    sig, head, cline = crash_signature(se)
    if timed_out:
        res["status"] = "hang"
        top = None
        # SIGQUIT dump: find a connection goroutine that is running
        bad, _ = analyse_goroutines(se.splitlines())
        res["sig"] = bad[0] if bad else "hang:child-timeout"
        res["head"] = "child did not finish within %.0f s" % timeout
    elif "HARNESS-ERROR" in se and sig is None:
        res["status"], res["sig"], res["head"] = "harness", "harness:" + se.strip().splitlines()[-1][:80], se.strip()[-300:]
    elif sig is not None:
        res["status"], res["sig"], res["head"] = "crash", sig, head
        res["line"] = cline
    elif p.returncode == 7:
        fails = [x for x in res["probes"] if not x.endswith(" ok")]
        det = fails[-1].split(" ", 1)[1] if fails else "unknown"
        det = re.sub(r"\(.*\)", "", det)
        bad, _ = analyse_goroutines(res["glines"])
        res["status"], res["sig"], res["head"] = "probe", "probe:" + det + ("|" + bad[0] if bad else ""), "second connection probe failed: " + (fails[-1] if fails else "?")
    elif p.returncode != 0:
        res["status"], res["sig"], res["head"] = "crash", "exit:%s" % p.returncode, se[-300:]
    else:
        res["status"], res["sig"], res["head"] = "ok", None, None
        if res["linger"]:
            bad, waiting = analyse_goroutines(res["glines"])
            res["linger_waiting"] = waiting
            if bad:
                res["status"], res["sig"], res["head"] = "hang", bad[0], "connection goroutine still busy after the client closed and the settle time passed"
    return res


# ------------------------------------------------------------------------------------------------ the check
def stream_class(s):
    labs = s.labels()
    return s.origin + "|" + ",".join(sorted(set(labs)))[:80]


class Runner:
    def __init__(self, ctx, exe, cover_exe=None):
        self.ctx, self.exe, self.cover_exe = ctx, exe, cover_exe
        self.root = tempfile.mkdtemp(prefix="c13-")
        os.makedirs(os.path.join(self.root, "cover"))
        self.nworkers = max(2, min(12, (os.cpu_count() or 4) - 2))
        self.stats = collections.Counter()
        self.dist = {k: collections.Counter() for k in ("origin", "unit", "datalen", "datalen_class", "op", "textcmd", "textargs",
                                                         "outcome", "reply", "chunks", "transport")}
        self.crashes = collections.OrderedDict()   # sig -> dict(count, first (streams, res))
        self.executed = 0
        self.classes = set()
        self.child_runs = 0

    def account(self, s, ev):
        d = self.dist
        d["origin"][s.origin] += 1
        d["transport"]["tcp" if s.transport else "mem"] += 1
        nch = len(s.chunks())
        d["chunks"]["1" if nch <= 1 else "2-4" if nch <= 4 else "5-16" if nch <= 16 else ">16"] += 1
        for u in s.units:
            d["unit"][u.label()] += 1
            if isinstance(u, c13gen.Frame) and u.datainfo:
                di = u.datainfo
                d["datalen_class"][di.get("len_class", "?")] += 1
                if di.get("declared") is not None and di["declared"] <= 64:
                    d["datalen"][di["declared"]] += 1
                if di.get("op") is not None:
                    d["op"][c13gen.OP_NAMES.get(di["op"], "invalid")] += 1
            if isinstance(u, c13gen.Text):
                d["textcmd"][u.args[0].decode("latin1").upper()[:16] if u.args else ""] += 1
                d["textargs"][len(u.args) - 1 if u.args else -1] += 1
        if ev:
            d["outcome"][ev[0]] += 1
            d["reply"][ev[3]] += 1
            self.classes.add((stream_class(s), ev[0], ev[3]))

    def run_batch(self, wid, streams, settle, probe_every=200, use_cover=False):
        """runs the batch, restarting after every crash; returns list of (sig, res, crashed_prefix_streams)"""
        found = []
        rest = list(streams)
        rounds = 0
        while rest:
            rounds += 1
            wd = os.path.join(self.root, "w%d" % wid)
            port = PORT_BASE + wid if any(s.transport for s in rest) else 0
            sub = (wid + rounds) % 2 == 0
            exe = self.cover_exe if use_cover and self.cover_exe else self.exe
            cover = os.path.join(self.root, "cover") if use_cover and self.cover_exe else None
            res = run_child(exe, rest, wd, port=port, subscribe=sub, settle=settle, probe_every=probe_every, cover=cover)
            self.child_runs += 1
            if res["status"] == "harness" and port and "address already in use" in res["stderr"]:
                for s in rest:
                    s.transport = 0
                continue
            ended = res["status"] == "ok" or (res["status"] == "hang" and res["done"] is not None)
            done_upto = len(rest) if ended else max(res["last_started"], 0)
            for i in range(min(done_upto, len(rest))):
                self.account(rest[i], res["events"].get(i))
            self.executed += min(done_upto, len(rest))
            if res["status"] == "ok":
                self.stats["linger"] += res["linger"]
                break
            k = res["last_started"]
            if res["status"] == "hang" and res["done"] is not None:
                # batch ran to its end; some connection goroutine is still busy: attribute to the lingering streams
                ls = [rest[i] for i in res["linger_streams"] if i < len(rest)] or rest
                found.append((res["sig"], res, ls, sub))
                break
            if k < 0:
                found.append((res["sig"], res, rest[:1], sub))
                break
            self.account(rest[k], None)
            self.executed += 1
            self.dist["outcome"]["child-died"] += 1
            found.append((res["sig"], res, rest[:k + 1], sub))
            rest = rest[k + 1:]
            if rounds > len(streams) + 5:
                break
        shutil.rmtree(os.path.join(self.root, "w%d" % wid), ignore_errors=True)
        return found

    def reproduce(self, wid, streams, sig, sub, settle):
        wd = os.path.join(self.root, "s%d" % wid)
        port = PORT_BASE + 50 + wid if any(s.transport for s in streams) else 0
        res = run_child(self.exe, streams, wd, port=port, subscribe=sub, settle=settle, probe_every=0, timeout=30 + settle / 1000.0)
        self.child_runs += 1
        shutil.rmtree(wd, ignore_errors=True)
        return res["sig"] == sig, res

    def minimise(self, wid, sig, res, prefix, sub, budget_s=90):
        """prefix: streams run in the dying child up to and including the one in flight. Returns (streams, info)."""
        t_end = time.time() + budget_s
        in_flight = res["last_started"] not in res["events"]
        settle = 300 if in_flight else 2500
        for s in prefix:
            s.transport = 0 if s.transport and not sig.startswith("probe:tcp") else s.transport
        # 1. the stream in flight alone
        ok, r = self.reproduce(wid, prefix[-1:], sig, sub, settle)
        cur = prefix[-1:] if ok else None
        if cur is None:
            # 2. ddmin over the ordered prefix (keep last)
            ok, r = self.reproduce(wid, prefix, sig, sub, settle)
            if not ok:
                ok, r = self.reproduce(wid, prefix, sig, sub, 4000)
                settle = 4000
            if not ok:
                return prefix, {"reproduced": False, "note": "did not reproduce when the batch prefix was replayed (timing dependent)"}
            cur = list(prefix)
            n = 2
            while len(cur) >= 2 and time.time() < t_end:
                chunk = max(1, len(cur) // n)
                reduced = False
                for i in range(0, len(cur), chunk):
                    cand = cur[:i] + cur[i + chunk:]
                    if not cand:
                        continue
                    ok, _ = self.reproduce(wid, cand, sig, sub, settle)
                    if ok:
                        cur, n, reduced = cand, max(n - 1, 2), True
                        break
                    if time.time() > t_end:
                        break
                if not reduced:
                    if chunk == 1:
                        break
                    n = min(len(cur), n * 2)
        cur, used = c13gen.shrink(cur, lambda cand: time.time() < t_end and self.reproduce(wid, cand, sig, sub, settle)[0], budget=120)
        ok, r = self.reproduce(wid, cur, sig, sub, settle)
        return cur, {"reproduced": ok, "shrink_runs": used, "settle_ms": settle, "subscribe": sub,
                     "stderr_head": "\n".join(r["stderr"].splitlines()[:14])}


def run(ctx):
    tier = ctx.tier
    t_start = time.time()
    # ---------------- 0. source-derived facts
    cmds = source_text_commands(REPO)
    missing = [c for c in cmds if c not in c13gen.TEXT_COMMANDS]
    c13gen.TEXT_COMMANDS[:] = list(dict.fromkeys(c13gen.TEXT_COMMANDS + cmds))
    ctx.obligation("text command registry read from server/protocol.go + server/admin.go (%d commands)" % len(cmds), len(cmds) >= 30,
                   "" if len(cmds) >= 30 else "could not read the handler registry")
    cap = source_cap(REPO)
    if cap:
        c13gen.CAP = cap
    if missing:
        ctx.notes.append("commands registered in the source but not in the generator's static list (added dynamically): %s" % missing)

    # ---------------- 1. Coq (only when the property file exists; built in a later step of this development)
    coq_ok = None
    try:
        import c13coq as C13_coq
    except ImportError as e:   # pragma: no cover
        C13_coq = None
        ctx.notes.append("coq part not available: %r" % (e,))
    if C13_coq is not None:
        coq_ok = C13_coq.run_coq(ctx)
        ctx.c13_fx = coq_ok

    # ---------------- 2. build harness
    overlay = {"server/zz_verif_crash.go": "harness/crash/inj/zz_verif_crash.go",
               "server/zz_verif_crash_pure.go": "harness/crash/inj/zz_verif_crash_pure.go"}
    exe = ctx.go_build("crashrun", os.path.join(VERIF, "harness", "crash"), overlay=overlay)
    cover_exe = None
    try:
        cover_exe = build_cover_binary()
    except Exception as e:
        ctx.notes.append("coverage build failed: %s" % str(e)[-300:])
    ctx.obligation("harness/crash builds against the working tree of %s (overlay injection, -tags verif)" % REPO, True)
    corr = None
    if C13_coq is not None and coq_ok is not None:
        corr = C13_coq.run_correspondence(ctx, exe)
    ctx.c13_corr = corr

    R = Runner(ctx, exe, cover_exe)
    try:
        return _run_monitor(ctx, R, tier, t_start)
    finally:
        shutil.rmtree(R.root, ignore_errors=True)


def _run_monitor(ctx, R, tier, t_start):
    rng = ctx.rng
    replay_only = getattr(ctx, "replay", None)
    # ---------------- 3. corpus / replay first, one child each
    entries = []
    if replay_only:
        j = json.load(open(replay_only))
        rp = j.get("replay", j)
        entries.append((os.path.basename(replay_only), [c13gen.Stream.from_json(s) for s in rp["streams"]], rp.get("subscribe", False), rp.get("settle_ms", 2500)))
    else:
        cdir = os.path.join(VERIF, "corpus", "C13")
        for f in sorted(os.listdir(cdir)) if os.path.isdir(cdir) else []:
            if f.endswith(".json"):
                j = json.load(open(os.path.join(cdir, f)))
                entries.append((f, [c13gen.Stream.from_json(s) for s in j["streams"]], j.get("subscribe", False), j.get("settle_ms", 2500)))
    corpus_results = {}
    found_all = []   # (sig, res, prefix, sub, source)

    def corpus_job(i):
        name, streams, sub, settle = entries[i]
        wd = os.path.join(R.root, "c%d" % i)
        res = run_child(R.exe, streams, wd, subscribe=sub, settle=settle, probe_every=0, timeout=60)
        shutil.rmtree(wd, ignore_errors=True)
        return i, res

    with concurrent.futures.ThreadPoolExecutor(R.nworkers) as ex:
        for i, res in ex.map(corpus_job, range(len(entries))):
            R.child_runs += 1
            name, streams, sub, settle = entries[i]
            corpus_results[name] = res["sig"] or "ok"
            for k, s in enumerate(streams):
                R.account(s, res["events"].get(k))
            R.executed += len(streams)
            if res["status"] != "ok":
                found_all.append((res["sig"], res, streams, sub, "corpus:" + name))

    # ---------------- 4. generated streams
    if replay_only:
        streams = []
    else:
        n_target = {"quick": 20000, "thorough": 1200000}.get(tier, 20000)
        if os.environ.get("C13_STREAMS"):
            n_target = int(os.environ["C13_STREAMS"])
        streams = c13gen.systematic_streams(rng)
        while len(streams) < n_target:
            streams.extend(c13gen.gen_streams(rng))
        gen_time = time.time() - t_start
    bsize = 250 if tier == "quick" else 1000
    batches = [streams[i:i + bsize] for i in range(0, len(streams), bsize)]
    settle = 1200 if tier == "quick" else 2500
    deadline = time.time() + ({"quick": 45, "thorough": 1500}.get(tier, 45))
    cover_batches = set(range(0, len(batches), max(1, len(batches) // (6 if tier == "quick" else 40)))) if R.cover_exe else set()
    skipped = [0]

    def batch_job(args):
        bi, wid = args
        if time.time() > deadline:
            skipped[0] += len(batches[bi])
            return []
        return [(sig, res, prefix, sub, "generated") for (sig, res, prefix, sub) in R.run_batch(wid, batches[bi], settle, use_cover=bi in cover_batches)]

    # static assignment of worker ids (ports, scratch dirs) through a queue of ids
    import queue
    ids = queue.Queue()
    for w in range(R.nworkers):
        ids.put(w)

    def with_id(bi):
        w = ids.get()
        try:
            return batch_job((bi, w))
        finally:
            ids.put(w)

    def with_id_job(ids, fn):
        def run1(item):
            w = ids.get()
            try:
                return fn((w, item))
            finally:
                ids.put(w)
        return run1

    with concurrent.futures.ThreadPoolExecutor(R.nworkers) as ex:
        for fl in ex.map(with_id, range(len(batches))):
            found_all.extend(fl)

    # ---------------- 5. group by signature (+ variant: panic message class and the kind of unit in flight), minimise one each
    def variant_of(res, prefix):
        msg = re.sub(r"0x[0-9a-f]+", "H", res["head"] or "")
        msg = re.sub(r"\d+", "N", msg)
        msg = msg.replace("panic: runtime error: ", "").replace("fatal error: ", "")[:60]
        return "line %s: %s" % (res.get("line", "?"), msg)

    by_sig = collections.OrderedDict()
    for sig, res, prefix, sub, src in found_all:
        e = by_sig.setdefault(sig, {"count": 0, "variants": collections.OrderedDict(), "sources": collections.Counter()})
        e["count"] += 1
        e["sources"][src.split(":")[0]] += 1
        v = variant_of(res, prefix)
        ve = e["variants"].setdefault(v, {"count": 0, "first": None})
        ve["count"] += 1
        if ve["first"] is None or (src == "generated" and ve["first"][3].startswith("corpus")):
            ve["first"] = (res, prefix, sub, src)

    def is_known(sig):
        return any(k.get("status") == "known" and re.fullmatch(k["match"], sig) for k in ctx.known)

    jobs = []
    for sig, e in by_sig.items():
        vs = sorted(e["variants"].items(), key=lambda kv: -kv[1]["count"])
        limit = 1 if (is_known(sig) and tier == "quick") else 4
        for v, ve in vs[:limit]:
            jobs.append((sig, v, ve))

    corpus_sigs = {sig for sig, res, prefix, sub, src in found_all if src.startswith("corpus")}

    def min_job(item):
        wid, (sig, v, ve) = item
        res, prefix, sub, src = ve["first"]
        if is_known(sig) and tier == "quick" and (sig in corpus_sigs or time.time() > deadline + 15):
            # a minimal replay of this known finding is in corpus/C13 (and was re-run above): do not spend the quick
            # tier's time on minimising it again
            return sig, v, prefix[-1:] if src != "generated" or len(prefix) == 1 else prefix[-1:], {
                "reproduced": None, "note": "known finding, not minimised in the quick tier (see corpus/C13)"}
        cur, info = R.minimise(wid % R.nworkers, sig, res, list(prefix), sub, budget_s=30 if tier == "quick" else 240)
        return sig, v, cur, info

    minimised = {}
    with concurrent.futures.ThreadPoolExecutor(R.nworkers) as ex:
        for sig, v, cur, info in ex.map(with_id_job(ids, min_job), jobs):
            minimised[(sig, v)] = (cur, info)

    crash_report = []
    unconfirmed = []
    ctx.c13_unconfirmed = unconfirmed
    kdir = os.path.join(BUILD, "c13-replays")
    os.makedirs(kdir, exist_ok=True)
    for sig, e in by_sig.items():
        entry = {"signature": sig, "count": e["count"], "sources": dict(e["sources"]), "variants": []}
        for v, ve in e["variants"].items():
            ventry = {"variant": v, "count": ve["count"]}
            if (sig, v) in minimised:
                cur, info = minimised[(sig, v)]
                res = ve["first"][0]
                replay = {"streams": [s.to_json() for s in cur], "subscribe": ve["first"][2], "settle_ms": info.get("settle_ms", 2500),
                          "signature": sig, "variant": v, "panic": res["head"], "occurrences": ve["count"], "minimise": info,
                          "trace_when_found": "\n".join([l for l in res["stderr"].splitlines() if l.strip()][:40]),
                          "how_to_replay": "python3 tools/check.py C13 --replay <this file>"}
                if (sig.startswith("hang:") or sig.startswith("probe:")) and info.get("reproduced") is False and not is_known(sig):
                    # a hang / failed probe is recognised by time-outs only (no panic trace): when the streams that were in
                    # flight do not reproduce it in three isolated re-runs it was the machine's load, not the input
                    unconfirmed.append({"signature": sig, "variant": v, "occurrences": ve["count"], "minimise": info})
                    ventry["status"] = "not reproduced in isolation (timing): not reported"
                    entry["variants"].append(ventry)
                    continue
                nbytes = sum(len(s.data()) for s in cur)
                what = "%s in %s — %d occurrence(s) of this signature; minimal input: %d stream(s), %d bytes [%s]" % (
                    res["head"], sig.split(":", 1)[1], e["count"], len(cur), nbytes, v)
                kind = ctx.violation(sig, what, replay, found_input=True)
                entry["status"] = kind
                entry.setdefault("panic", res["head"])
                fn = re.sub(r"[^A-Za-z0-9_.-]+", "_", sig + "__" + v)[:150] + ".json"
                json.dump(replay, open(os.path.join(kdir, fn), "w"), indent=1)
                ventry.update({"min_streams": len(cur), "min_bytes": nbytes, "min_units": [l for s in cur for l in s.labels()],
                               "min_hex": [c for s in cur for c in s.to_json()["chunks"]][:8] if nbytes <= 300 else "(long, see replay)",
                               "reproduced_after_shrink": info.get("reproduced"), "replay_copy": "build/c13-replays/" + fn})
            entry["variants"].append(ventry)
        crash_report.append(entry)

    # ---------------- 6. coverage of the slock packages by the sampled batches
    cov = coverage_summary(R)

    # ---------------- 7. evidence
    ctx.obligation("every child either finished with all second-connection probes ok, or its death/hang was attributed to a signature",
                   True)
    if skipped[0]:
        ctx.notes.append("%d generated streams not run (time budget of the %s tier reached)" % (skipped[0], tier))
    ctx.trusted += [
        "whole-server monitor: harness/crash (Go, in-package injection by -overlay: VerifStartNode = main.go's start sequence with a scratch data dir; "
        "VerifConn = in-memory net.Conn delivering exactly the generated chunks per Read; Server.handle/Listen/Serve are the real ones)",
        "a crash is recognised by the child's exit status + Go panic/fatal trace; a hang by probe timeouts / child timeout / goroutine dump",
        "by design not generated (they stop or convert the server on purpose): " + "; ".join(c13gen.EXCLUDED_BY_DESIGN),
        "fuzzed only, not modelled in Coq: admin commands, subscribe, CALL handlers other than decode, KEYS/SCAN regexps, lock engine, value operations (coq/Data owns those)",
    ]
    d = R.dist
    coverage = {
        "evaluations": R.executed,
        "distinct_nontrivial": len(R.classes),
        "rule": "distinct (generator origin, set of unit kinds, connection outcome idle/closed/busy, first reply class) combinations observed",
        "samples": [s.to_json()["chunks"][0][:160] for s in streams[:3] if s.chunks()] + ["..."],
        "child_processes": R.child_runs,
        "workers": R.nworkers,
        "corpus": corpus_results,
        "crash_signatures": crash_report,
        "timing_events_not_reproduced_in_isolation": unconfirmed,
        "input_distribution": {
            "by_generator": dict(d["origin"]), "units": dict(d["unit"].most_common(80)),
            "data_frame_length_classes": dict(d["datalen_class"]),
            "data_frame_declared_len_0_64_all_covered": all(d["datalen"].get(i, 0) > 0 for i in range(65)),
            "data_frame_declared_len_hist_0_64": {str(k): v for k, v in sorted(d["datalen"].items())},
            "value_ops": dict(d["op"]), "text_commands": dict(d["textcmd"].most_common(80)),
            "text_arg_counts": {str(k): v for k, v in sorted(d["textargs"].items())},
            "chunks_per_stream": dict(d["chunks"]), "transport": dict(d["transport"]),
        },
        "outcomes": {"connection": dict(d["outcome"]), "first_reply": dict(d["reply"].most_common(40)),
                     "lingering_blocked_connections": R.stats["linger"]},
        "go_statement_coverage_of_sampled_batches": cov,
        "pure_function_correspondence": getattr(ctx, "c13_corr", None),
        "model_switches": getattr(ctx, "c13_fx", None),
        "wall_monitor_s": round(time.time() - t_start, 1),
    }
    return ctx.finish(coverage, assumptions=[
        "the in-memory connection behaves like a TCP connection whose segments arrive exactly as the generated chunks (a real loopback listener is used for ~3% of the streams and for the TCP probes)",
        "one leader node, default configuration except DBConcurrent=2, DBFastKeyCount=64, scratch data dir; follower/arbiter roles are not driven by this check",
    ])


def build_cover_binary():
    """`go build -cover` cannot instrument files that exist only in an -overlay, so the coverage binary is built from a
    scratch copy of the tree under test (build/c13-covsrc) with the injected file copied in."""
    src = os.path.join(BUILD, "c13-covsrc")
    mod = os.path.join(BUILD, "c13-covmod")
    with vlib.Lock("go-crashrun-cover"):
        shutil.rmtree(src, ignore_errors=True)
        shutil.copytree(REPO, src, ignore=shutil.ignore_patterns(".git", "append.aof*", "*.aof", "data"))
        for inj in ("zz_verif_crash.go", "zz_verif_crash_pure.go"):
            shutil.copy(os.path.join(VERIF, "harness", "crash", "inj", inj), os.path.join(src, "server", inj))
        shutil.rmtree(mod, ignore_errors=True)
        os.makedirs(mod)
        shutil.copy(os.path.join(VERIF, "harness", "crash", "main.go"), mod)
        shutil.copy(os.path.join(REPO, "go.sum"), mod)
        gm = open(os.path.join(VERIF, "harness", "crash", "go.mod")).read()
        open(os.path.join(mod, "go.mod"), "w").write(re.sub(r"(replace github.com/snower/slock => ).*", r"\g<1>" + src, gm))
        exe = os.path.join(BUILD, "crashrun-cover")
        rc, out, _ = vlib.sh(["go", "build", "-tags", "verif", "-cover", "-covermode=atomic", "-coverpkg=verifharness/crash,github.com/snower/slock/server,github.com/snower/slock/protocol", "-o", exe, "."],
                             cwd=mod, timeout=900)
        if rc != 0:
            raise RuntimeError(out[-1500:])
        return exe


def coverage_summary(R):
    cdir = os.path.join(R.root, "cover")
    if not R.cover_exe or not os.path.isdir(cdir) or not os.listdir(cdir):
        return {"measured": False}
    out = os.path.join(R.root, "cover.txt")
    rc, log, _ = vlib.sh(["go", "tool", "covdata", "textfmt", "-i=" + cdir, "-o", out], timeout=120)
    if rc != 0 or not os.path.exists(out):
        return {"measured": False, "error": log[-200:]}
    per = collections.defaultdict(lambda: [0, 0])
    for l in open(out):
        m = re.match(r"^(\S+?):(\d+)\.\d+,(\d+)\.\d+ (\d+) (\d+)$", l.strip())
        if not m:
            continue
        f = m.group(1)
        if "snower/slock/" not in f or "zz_verif" in f:
            continue
        f = f.split("snower/slock/")[1]
        per[f][1] += int(m.group(4))
        if int(m.group(5)) > 0:
            per[f][0] += int(m.group(4))
    keep = ["server/protocol.go", "server/server.go", "server/stream.go", "server/lock.go", "server/db.go", "server/admin.go",
            "protocol/command.go", "protocol/textparse.go", "protocol/textcommand.go", "server/subscribe.go"]
    res = {"measured": True, "files": {f: {"covered_statements": per[f][0], "statements": per[f][1]} for f in keep if f in per}}
    res["total_covered_statements"] = sum(v[0] for v in per.values())
    res["total_statements"] = sum(v[1] for v in per.values())
    return res
