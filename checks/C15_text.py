"""C15_text -- last sentence of C15: "The Redis-style text commands (SET, GET, DEL, SETNX, GETSET, INCR/DECR(BY), APPEND,
EXISTS, STRLEN, EXPIRE/PERSIST) consequently answer like a plain key-value store", for all sequences of those commands
over a small key set on one text connection.

1. Coq: Properties/C15_text.vo (model coq/Kv/KvModel.v = argument conversion of protocol/textcommand.go + the engine
   model Engine2.step + the text result writers; specification coq/Kv/KvSpec.v = a plain map; theorems coq/Kv/Kv*.v).
2. Correspondence (re-run every time): a REAL TextServerProtocol serving a net.Pipe, attached to a real LockDB with the
   manual clock (harness/kv, injected in-package by go build -overlay -tags verif), against the OCaml extraction of
   kv_step (ocaml/kv) on the same seeded command sequences: raw reply bytes, number of clock ticks the handler waited,
   and after every command the key managers (locked, waited, holder id class, expiry time, value bytes and type).
   Streams: corpus, mostly-valid sequences, malformed / edge sequences.
3. ORACLE (independent of the Coq model): a plain Python dict with Redis semantics evaluated on the implementation's
   replies.  A reply that a plain key-value store would not give is a violation of the property with the shrunk
   command sequence as replay.  Signatures  kv:<COMMAND>:<state of the key in the oracle>:<expected>-><got>  are matched
   against known_findings/C15_text.json.  A model/implementation disagreement without an oracle failure is reported
   with found_input=False.
What the oracle judges: only well-formed Redis forms of the listed commands (+ SETEX, SET .. EX/NX/XX); integer replies
of GET/GETSET on counters are accepted as the decimal string; expiry is judged with the one-second granularity of the
sweepers (a key may live until ttl+1, minute-rounded above 65535 s); how long a blocked SETNX takes is not judged.
"""
import hashlib, json, os, re, subprocess, time
from tools import vlib

MANIFEST = {
    "property": "C15_text",
    "theorems": "coq/Properties/C15_text.v",
    "category": "proof",
    "text": "Redis-style text commands of C15: executable model of converter + engine + result writer per command, "
            "refinement to a plain map on the fragment where slock behaves like a key-value store, refutations with "
            "replayed witnesses outside it",
    "note": "partial: see coq/Kv/README.md",
    "technique": "Coq proofs + model/implementation differential testing (extracted OCaml vs real TextServerProtocol) + "
                 "Python dict oracle on the implementation replies",
}

VERIF = vlib.VERIF
PID = "C15_text"
T0 = 1000


# ------------------------------------------------------------------------------------------------ sequences <-> text
def tok_enc(a):
    if a == b"":
        return '""'
    if re.fullmatch(rb"[A-Za-z0-9:_.+\-]+", a) and not a.startswith(b"0x"):
        return a.decode()
    return "0x" + a.hex()


def tok_dec(t):
    if t == '""':
        return b""
    if t.startswith("0x"):
        return bytes.fromhex(t[2:])
    return t.encode()


def seq_text(seq):
    return " ; ".join("ADV %d" % c[1] if c[0] == "ADV" else " ".join(tok_enc(a) for a in c) for c in seq)


def seq_parse(text):
    seq = []
    for part in text.split(";"):
        f = part.split()
        if not f:
            continue
        if f[0] == "ADV":
            seq.append(("ADV", int(f[1])))
        else:
            seq.append(tuple(tok_dec(t) for t in f))
    return seq


def case_lines(i, seq):
    lines = ["case %d %d" % (i, T0)]
    for c in seq:
        if c[0] == "ADV":
            lines.append("adv %d" % c[1])
        else:
            lines.append("cmd " + " ".join(a.hex() if a else "-" for a in c))
    lines.append("end")
    return lines


def run_driver(cmd, seqs, timeout):
    lines = []
    for i, s in enumerate(seqs):
        lines += case_lines(i, s)
    p = subprocess.run(cmd, input=("\n".join(lines) + "\n").encode(), stdout=subprocess.PIPE, stderr=subprocess.PIPE, timeout=timeout)
    if p.returncode != 0:
        raise vlib.BuildError("%s exited with %d: %s" % (cmd[0], p.returncode, p.stderr.decode("utf-8", "replace")[-2000:]))
    res, cur = [], None
    for l in p.stdout.decode("utf-8", "replace").split("\n"):
        if l.startswith("case "):
            cur = []
            res.append(cur)
        elif l.startswith("r ") or l.startswith("st "):
            cur.append(l)
    if len(res) != len(seqs):
        raise vlib.BuildError("%s: %d cases in, %d out" % (cmd[0], len(seqs), len(res)))
    return res


def run_parallel(cmd, seqs, timeout, jobs):
    """split into `jobs` processes (one process per batch of cases)"""
    if jobs <= 1 or len(seqs) < 64:
        return run_driver(cmd, seqs, timeout)
    from concurrent.futures import ThreadPoolExecutor
    n = (len(seqs) + jobs - 1) // jobs
    chunks = [seqs[i:i + n] for i in range(0, len(seqs), n)]
    with ThreadPoolExecutor(max_workers=jobs) as ex:
        outs = list(ex.map(lambda ch: run_driver(cmd, ch, timeout), chunks))
    return [o for out in outs for o in out]


def observations(seq, out_lines):
    """align driver output with the sequence: per element (reply, ticks, state) ; reply is bytes or a str marker"""
    obs, j = [], 0
    for c in seq:
        if j >= len(out_lines):
            obs.append(None)
            continue
        if c[0] == "ADV":
            if out_lines[j].startswith("st "):
                obs.append((None, 0, out_lines[j]))
                j += 1
            else:
                obs.append(None)
            continue
        l = out_lines[j]
        if not l.startswith("r "):
            obs.append(None)
            continue
        f = l.split()
        j += 1
        st = None
        if j < len(out_lines) and out_lines[j].startswith("st "):
            st = out_lines[j]
            j += 1
        if re.fullmatch(r"[0-9a-f]*", f[1]) and len(f) == 3:
            obs.append((bytes.fromhex(f[1]), int(f[2]), st))
        else:
            obs.append((" ".join(f[1:]), 0, st))      # hang / closed / panic ... / unmodelled ...
    return obs


# ------------------------------------------------------------------------------------------------ the oracle
def lock_id(key):
    """ConvertArgId2LockId (used only to tag aliasing keys in signatures)"""
    n = len(key)
    if n == 16:
        return key
    if n > 16:
        if n == 32:
            try:
                return bytes.fromhex(key.decode("ascii"))
            except Exception:
                pass
        return hashlib.md5(key).digest()
    return b"\0" * (16 - n) + key


def redis_int(b):
    """string2ll of Redis: optional '-', no leading zeros, no '+', int64 range"""
    if not re.fullmatch(rb"-?(0|[1-9][0-9]*)", b) or b == b"-0":
        return None
    v = int(b)
    return v if -(1 << 63) <= v < (1 << 63) else None


def go_int(b):
    """strconv.ParseInt(s, 10, 64): what the command line of INCRBY/EXPIRE accepts"""
    if not re.fullmatch(rb"[+-]?[0-9]+", b):
        return None
    v = int(b)
    return v if -(1 << 63) <= v < (1 << 63) else None


def classify(rep):
    """canonical class of a raw reply"""
    if isinstance(rep, str):
        return (rep.split()[0],)
    if rep == b"+OK\r\n":
        return ("ok",)
    if rep == b"$-1\r\n":
        return ("nil",)
    m = re.fullmatch(rb":(-?[0-9]+)\r\n", rep)
    if m:
        return ("int", int(m.group(1)))
    m = re.match(rb"\$([0-9]+)\r\n", rep)
    if m and len(rep) == len(m.group(0)) + int(m.group(1)) + 2:
        return ("bulk", rep[len(m.group(0)):-2])
    if rep.startswith(b"-"):
        return ("err",)
    return ("other", rep)


def short(c):
    if c[0] == "int":
        return "int%d" % c[1] if c[1] in (0, 1) else "intN"
    return c[0]


def same(expected, got, cmd):
    if expected == got:
        return True
    if cmd in ("GET", "GETSET") and expected[0] == "bulk" and got[0] == "int":
        return str(got[1]).encode() == expected[1]      # counters are rendered as RESP integers
    return False


WRITE_VALUE = ("SET", "GETSET", "SETNX", "SETEX", "APPEND")
JUDGED = ("SET", "GET", "DEL", "SETNX", "GETSET", "INCR", "DECR", "INCRBY", "DECRBY", "APPEND", "EXISTS", "STRLEN", "EXPIRE",
          "PERSIST", "SETEX")


def judgeable(c):
    """is this the well-formed Redis form of one of the commands of the property?"""
    name = c[0].upper().decode("latin1")
    if c[0] != c[0].upper() and c[0] != c[0].lower():
        return None
    n = len(c)
    if name in ("GET", "DEL", "EXISTS", "STRLEN", "INCR", "DECR", "PERSIST"):
        return name if n == 2 else None
    if name in ("SETNX", "GETSET", "APPEND"):
        return name if n == 3 else None
    if name in ("INCRBY", "DECRBY"):
        return name if n == 3 and go_int(c[2]) is not None and c[2][:1] != b"+" else None
    if name == "EXPIRE":
        return name if n == 3 and redis_int(c[2]) is not None and 0 < int(c[2]) <= 10 ** 7 else None
    if name == "SETEX":
        return name if n == 4 and redis_int(c[2]) is not None and 0 < int(c[2]) <= 10 ** 7 else None
    if name == "SET":
        if n == 3:
            return name
        if n == 4 and c[3].upper() in (b"NX", b"XX"):
            return name
        if n == 5 and c[3].upper() == b"EX" and redis_int(c[4]) is not None and 0 < int(c[4]) <= 10 ** 7:
            return name
    return None


def ttl_window(now, n):
    """(first second at which Redis has dropped the key, first second at which slock's sweeper has)"""
    if n > 65535:
        return (now + n, now + ((n + 59) // 60) * 60 + 1)
    return (now + n, now + n + 1)


class Oracle:
    """plain key-value store; values are byte strings; per key an optional expiry window"""

    def __init__(self):
        self.now = T0
        self.d = {}          # key -> dict(val, exp=(lo, hi)|None, prov in 'str'|'num'|'nx')
        self.taint = set()
        self.ghost = {}      # key -> time until which a deleted hold with a ttl may still sit in the expiry wheel

    def views(self, k, t):
        e = self.d.get(k)
        if e is None:
            return [None]
        if e["exp"] is None or t < e["exp"][0]:
            return [e]
        if t >= e["exp"][1]:
            return [None]
        return [e, None]

    def keyclass(self, k, e):
        kid = lock_id(k)
        alias = "+alias" if any(k2 != k and lock_id(k2) == kid for k2 in self.d) else ""
        if e is None:
            if k in self.ghost and self.now < self.ghost[k]:
                return "ghost" + alias
            return "missing" + alias
        return e["prov"] + ("+ttl" if e["exp"] else "") + alias

    def expected(self, name, c, e, t):
        """Redis semantics: (reply class, new entry | 'same' | None=deleted)"""
        # "wheel": time until which the lock record of this hold may sit in the expiry wheel (a hold CREATED with a
        # ttl <= 4 s is not put into the long table); only used to label the state of a key after DEL (ghost)
        def new(val, exp=None, prov="str"):
            wheel = e["wheel"] if e is not None else (t + 40 if exp is not None and exp[0] - t <= 4 else 0)
            return {"val": val, "exp": exp, "prov": prov, "wheel": wheel}
        if name == "GET":
            return (("nil",) if e is None else ("bulk", e["val"])), "same"
        if name == "EXISTS":
            return ("int", 0 if e is None else 1), "same"
        if name == "STRLEN":
            return ("int", 0 if e is None else len(e["val"])), "same"
        if name == "DEL":
            return ("int", 0 if e is None else 1), None
        if name == "SET":
            if len(c) == 4 and c[3].upper() == b"NX":
                return (("nil",), "same") if e is not None else (("ok",), new(c[2], None, "nx"))
            if len(c) == 4 and c[3].upper() == b"XX":
                return (("nil",), "same") if e is None else (("ok",), new(c[2]))
            if len(c) == 5:
                return ("ok",), new(c[2], ttl_window(t, int(c[4])))
            return ("ok",), new(c[2])
        if name == "SETEX":
            return ("ok",), new(c[3], ttl_window(t, int(c[2])))
        if name == "SETNX":
            return (("int", 0), "same") if e is not None else (("int", 1), new(c[2], None, "nx"))
        if name == "GETSET":
            return (("nil",) if e is None else ("bulk", e["val"])), new(c[2])
        if name == "APPEND":
            if e is None:
                return ("int", len(c[2])), new(c[2])
            v = e["val"] + c[2]
            return ("int", len(v)), new(v, e["exp"], e["prov"] if e["prov"] != "num" else "numapp")
        if name in ("INCR", "DECR", "INCRBY", "DECRBY"):
            d = 1 if len(c) == 2 else int(c[2])
            if name.startswith("DECR"):
                d = -d
            old = 0 if e is None else redis_int(e["val"])
            if old is None or not (-(1 << 63) <= old + d < (1 << 63)):
                return ("err",), "same"
            return ("int", old + d), new(str(old + d).encode(), e["exp"] if e else None, "num" if e is None or e["prov"] == "num" else e["prov"])
        if name == "EXPIRE":
            if e is None:
                return ("int", 0), "same"
            return ("int", 1), new(e["val"], ttl_window(t, int(c[2])), e["prov"])
        if name == "PERSIST":
            if e is None or e["exp"] is None:
                return ("int", 0), "same"
            return ("int", 1), new(e["val"], None, e["prov"])
        raise AssertionError(name)

    def step(self, c, ob):
        """c: command tuple (or ADV); ob: (reply, ticks, state).  Returns None or (signature, what, detail)."""
        if c[0] == "ADV":
            self.now += c[1]
            return None
        rep, ticks, _ = ob
        got = classify(rep)
        key = c[1] if len(c) > 1 else None
        cname = c[0].upper().decode("latin1")
        if got[0] in ("panic", "closed"):
            return ("kv:crash:%s" % (rep.split()[1] if len(rep.split()) > 1 else "?"),
                    "the server crashed / closed the connection on %s" % cname, {"reply": rep})
        name = judgeable(c)
        kid = lock_id(key) if key is not None else None
        if got[0] == "hang":
            self.taint.add(kid)
            if name:
                return ("kv:hang:%s" % cname, "%s is never answered" % cname, {})
            return None
        if name is None or kid in self.taint:
            if key is not None:
                self.taint.add(kid)        # keys are identified by their 16-byte lock id (aliases are tainted together)
            self.now += ticks
            return None
        t0, t1 = self.now, self.now + ticks
        outcomes = []
        for t in ([t0, t1] if ticks else [t0]):
            for e in self.views(key, t):
                outcomes.append((e, t) + self.expected(name, c, e, t))
        self.now = t1
        for e, t, exp_rep, new in outcomes:
            if same(exp_rep, got, name):
                if e is None and key in self.d:
                    del self.d[key]                      # the oracle adopts "already expired"
                if new is None:
                    if e is not None and e["wheel"] > self.now:
                        self.ghost[key] = e["wheel"]
                    self.d.pop(key, None)
                elif new != "same":
                    if ticks and e is None:
                        # a hold granted from the wait queue: its record is still referenced by the timeout wheel
                        new = dict(new, wheel=self.now + 40)
                    self.d[key] = new
                return None
        e, t, exp_rep, new = outcomes[0]
        cls = self.keyclass(key, e)
        self.taint.add(kid)
        sig = "kv:%s:%s:%s->%s" % (name, cls, short(exp_rep), short(got))
        return (sig, "%s on a key in state '%s': a plain key-value store answers %s, the server answered %r" % (name, cls, exp_rep, rep),
                {"expected": repr(exp_rep), "got": repr(rep), "key_state": cls})


def oracle_run(seq, obs):
    """all oracle failures of one sequence: [(index, sig, what, detail)]"""
    o = Oracle()
    res = []
    for i, c in enumerate(seq):
        if i >= len(obs) or obs[i] is None:
            break
        r = o.step(c, obs[i])
        if r:
            res.append((i,) + r)
            if r[0].startswith("kv:crash"):
                break
    return res


# ------------------------------------------------------------------------------------------------ generators
KEYS = [b"a", b"b", b"k1", b"user:42", b"counter", b"x"]
VALS = [b"1", b"5", b"-3", b"0", b"42", b"123456789", b"abc", b"hello", b"x", b"v1", b"v2", b"", b"007", b"9223372036854775807",
        b"a b", b"\x00\xff", b"3.5"]
TTLS = [1, 2, 3, 4, 5, 6, 8, 10, 20, 100, 3600, 70000]
WEIGHTED = [("SET", 18), ("GET", 16), ("DEL", 10), ("SETNX", 6), ("GETSET", 6), ("INCR", 6), ("DECR", 3), ("INCRBY", 4), ("DECRBY", 3),
            ("APPEND", 8), ("EXISTS", 5), ("STRLEN", 5), ("EXPIRE", 4), ("PERSIST", 2), ("SETEX", 3), ("SETOPT", 3), ("ADV", 5)]


class Gen:
    def __init__(self, rng):
        self.r = rng
        self.names = [n for n, w in WEIGHTED for _ in range(w)]

    def value(self):
        r = self.r
        if r.random() < 0.8:
            return r.choice(VALS)
        return bytes(r.choice(b"abcxyz019 \r\n\x00\xff") for _ in range(r.choice([1, 2, 3, 7, 16, 40])))

    def number(self):
        r = self.r
        c = r.random()
        if c < 0.7:
            return str(r.randint(-20, 50)).encode()
        return str(r.choice([(1 << 63) - 1, -(1 << 63), 1 << 62, -(1 << 62), 1 << 32, 1000000])).encode()

    def command(self, keys):
        r = self.r
        n = r.choice(self.names)
        k = r.choice(keys)
        if n == "ADV":
            return ("ADV", r.choice([1, 1, 1, 2, 3, 5, 10, 30]))
        if n in ("GET", "DEL", "EXISTS", "STRLEN", "INCR", "DECR", "PERSIST"):
            return (n.encode(), k)
        if n in ("SET", "SETNX", "GETSET", "APPEND"):
            return (n.encode(), k, self.value())
        if n in ("INCRBY", "DECRBY"):
            return (n.encode(), k, self.number())
        if n == "EXPIRE":
            return (b"EXPIRE", k, str(r.choice(TTLS)).encode())
        if n == "SETEX":
            return (b"SETEX", k, str(r.choice(TTLS)).encode(), self.value())
        o = r.choice(["EX", "EX", "NX", "XX"])
        if o == "EX":
            return (b"SET", k, self.value(), b"EX", str(r.choice(TTLS)).encode())
        return (b"SET", k, self.value(), o.encode())

    def valid_seq(self):
        r = self.r
        keys = r.sample(KEYS, r.randint(1, 4))
        return [self.command(keys) for _ in range(r.randint(5, 40))]

    # ---- malformed / edge stream
    def edge_key(self):
        r = self.r
        c = r.random()
        if c < 0.2:
            return r.choice([b"0123456789abcdef", b"ABCDEFGHIJKLMNOP", b"\x00" * 15 + b"a"])                    # 16 bytes
        if c < 0.4:
            return r.choice([b"00000000000000000000000000000061", b"0123456789abcdef0123456789ABCDEF", b"zz" * 16])   # 32 chars
        if c < 0.6:
            return r.choice([b"k" * 17, b"long-key-" * 5, b"y" * 300, b"z" * 1500])
        if c < 0.7:
            return r.choice([b"", b"\x00a", b"\x00", b"a\r\nb"])
        return r.choice(KEYS)

    def edge_number(self):
        return self.r.choice([b"99999999999999999999", b"-99999999999999999999", b"abc", b"", b"1.5", b"+5", b"-0", b" 1", b"1 ", b"0x10", b"1_0",
                              b"9223372036854775807", b"-9223372036854775808", b"9223372036854775808", b"00012", b"-"])

    def edge_command(self, keys):
        r = self.r
        k = r.choice(keys)
        c = r.random()
        if c < 0.25:                                    # wrong arity
            name = r.choice([b"SET", b"GET", b"DEL", b"SETNX", b"GETSET", b"INCR", b"INCRBY", b"DECRBY", b"APPEND", b"EXISTS", b"STRLEN", b"EXPIRE",
                             b"PERSIST", b"SETEX", b"PSETEX", b"PEXPIRE", b"TYPE", b"DUMP", b"DECR"])
            n = r.choice([0, 0, 1, 2, 3, 4])
            return (name,) + tuple([k] * (1 if n else 0)) + tuple(self.value() for _ in range(max(0, n - 1)))
        if c < 0.45:                                    # numbers
            name = r.choice([b"INCRBY", b"DECRBY", b"INCR", b"DECR", b"EXPIRE", b"SETEX", b"PEXPIRE"])
            num = self.edge_number() if r.random() < 0.7 else str(r.choice([0, -1, -5, 65535, 65536, 65537, 3001, 4000, 65535000, 65536000, 120000,
                                                                          (1 << 63) - 1])).encode()
            if name == b"SETEX":
                return (name, k, num, self.value())
            return (name, k, num)
        if c < 0.65:                                    # options of ConvertArgs2Flag
            name = r.choice([b"SET", b"SET", b"SETNX", b"APPEND", b"INCRBY", b"GETSET", b"SETEX"])
            opts = []
            for _ in range(r.randint(1, 3)):
                o = r.choice([b"EX", b"PX", b"TX", b"PTX", b"NX", b"XX", b"NAOF", b"ex", b"Nx", b"FOO"])
                opts.append(o)
                if o.upper() in (b"EX", b"PX", b"TX", b"PTX") and r.random() < 0.9:
                    opts.append(r.choice([b"5", b"10", b"3", b"7", b"4000", b"70000", b"65536000", b"0", b"-1", b"abc", b"100000"]) if o.upper() in (b"EX", b"PX") or r.random() < 0.15
                                else r.choice([b"1", b"2", b"5", b"10", b"0"]))
            base = (name, k, b"7") if name == b"INCRBY" else (name, k, b"5", self.value()) if name == b"SETEX" else (name, k, self.value())
            return base + tuple(opts)
        if c < 0.75:                                    # case of the command name, other readers
            name = r.choice([b"set", b"get", b"Del", b"setnx", b"incr", b"append", b"TYPE", b"DUMP", b"type", b"strlen", b"exists", b"getset"])
            if name.upper() in (b"SET", b"SETNX", b"APPEND", b"GETSET"):
                return (name, k, self.value())
            return (name, k)
        return self.command(keys)

    def edge_seq(self):
        r = self.r
        keys = [self.edge_key() for _ in range(r.randint(1, 3))]
        return [self.edge_command(keys) for _ in range(r.randint(3, 25))]


# ------------------------------------------------------------------------------------------------ diff
def compare(seq, impl, model):
    """first disagreement between implementation and model output lines of one case, or None.
    Returns also the number of commands compared and whether the model left the case (unmodelled)."""
    n = 0
    for j in range(max(len(impl), len(model))):
        a = impl[j] if j < len(impl) else "<missing>"
        b = model[j] if j < len(model) else "<missing>"
        if b.startswith("r unmodelled"):
            return None, n, b
        if a != b:
            return (j, a, b), n, None
        if a.startswith("r "):
            n += 1
    return None, n, None


def shrink(seq, pred, budget=400):
    """greedy removal of commands while pred(seq) stays true"""
    seq = list(seq)
    changed = True
    while changed and budget > 0:
        changed = False
        for i in range(len(seq) - 1, -1, -1):
            cand = seq[:i] + seq[i + 1:]
            budget -= 1
            if cand and pred(cand):
                seq, changed = cand, True
                break
            if budget <= 0:
                break
    return seq


def theorem_names():
    p = os.path.join(VERIF, "coq", "Properties", "C15_text.v")
    if not os.path.exists(p):
        return []
    return re.findall(r"^(?:Theorem|Lemma) (\w+)", open(p).read(), flags=re.M)


# ------------------------------------------------------------------------------------------------ the check
def run(ctx):
    t_start = time.time()
    coverage = {"evaluations": 0, "distinct_nontrivial": 0, "rule": "", "samples": []}
    thorough = ctx.tier == "thorough"

    # 1. Coq
    ok, log = ctx.coq(["Properties/C15_text.vo"])
    thms = theorem_names()
    for t in thms:
        ctx.obligation(t, ok and t in ctx.assumption_report, "" if ok else getattr(ctx, "coq_failure", "")[:600])
    if not thms:
        ctx.obligation("Properties/C15_text.v exists", False, "no theorem file")
    proofs_ok = ok and bool(thms)

    # 2. both sides
    harness = ctx.go_build("kvrun", os.path.join(VERIF, "harness", "kv"), overlay={"server/zz_verif_kv.go": "harness/kv/inj/zz_verif_kv.go"})
    model = ctx.ocaml_model("kv", deps=["Kv/KvModel.vo"])
    ctx.trusted += [
        "Coq 8.16.1 kernel; model coq/Kv/KvModel.v on top of coq/Engine/{Types,Queues,Timers,Engine,Engine2}.v and coq/Data/Data.v, tied to protocol/textcommand.go, server/protocol.go, server/db.go, server/lock.go by the correspondence check of this run",
        "extraction: ocaml/kv/Extract.v (ExtrOcamlBasic only; N/Z/positive/string stay Coq datatypes), driver ocaml/kv/driver.ml (hex/number conversions, md5 = OCaml Digest) -- trusted for the correspondence only",
        "Go harness harness/kv/inj/zz_verif_kv.go injected in package server by go build -overlay -tags verif: real TextServerProtocol.Process on a net.Pipe, real LockDB with verifManualClock; the AofChannel is replaced by an idle one that the harness drains; freed Lock objects are kept out of the free list (model allocation is always fresh); hooks of commit c7cc176 assumed behaviour-neutral",
        "generated ids: GenRequestId / GenLockId are counters in the model; generated lock ids are assumed different from every key-derived id and from each other",
        "modelled-not-verified: single shard, database 0, one connection, the default connection timeout (15 s); millisecond expiry/timeouts (PX/PSETEX/PEXPIRE <= 3000) and the ACK option are outside the model (skipped in the diff); PEXPIREAT/TTL/PTTL read the wall clock and are not generated; strings.ToUpper on non-ASCII command names is not modelled",
        "oracle: Redis semantics written in Python (checks/C15_text.py: Oracle.expected); integer replies of GET/GETSET on counters accepted as their decimal string; expiry judged with the granularity [ttl, ttl+1] (minute-rounded above 65535 s)",
    ]

    # 3. cases
    g = Gen(ctx.rng)
    n_valid, n_edge = (300, 150) if not thorough else (15000, 7500)
    corpus = []
    cdir = os.path.join(VERIF, "corpus", PID)
    for fn in sorted(os.listdir(cdir)) if os.path.isdir(cdir) else []:
        for line in open(os.path.join(cdir, fn)):
            line = line.strip()
            if line and not line.startswith("#"):
                corpus.append(seq_parse(line))
    replay = getattr(ctx, "replay", None)
    if replay:
        rp = json.load(open(replay))["replay"]
        seqs, streams = [seq_parse(rp["commands"])], [("replay", 1)]
    else:
        valid = [g.valid_seq() for _ in range(n_valid)]
        edge = [g.edge_seq() for _ in range(n_edge)]
        seqs = corpus + valid + edge
        streams = [("corpus", len(corpus)), ("valid", len(valid)), ("edge", len(edge))]
    bounds, acc = [], 0
    for name, n in streams:
        bounds.append((name, acc, acc + n))
        acc += n

    def stream_of(i):
        for name, a, b in bounds:
            if a <= i < b:
                return name
        return "?"

    jobs = 8 if thorough else 4
    tg = time.time()
    impl_out = run_parallel([harness], seqs, 3000, jobs)
    t_impl = time.time() - tg
    tm = time.time()
    model_out = run_parallel([model], seqs, 3000, jobs)
    t_model = time.time() - tm

    # 4. diff + oracle
    stats = {"commands": 0, "compared": 0, "unmodelled_cases": 0, "mismatch": 0, "blocked_commands": 0, "ticks": 0}
    cmddist, classes, sigs, mismatches, unmodelled = {}, {}, {}, [], {}
    for i, seq in enumerate(seqs):
        d, n, unm = compare(seq, impl_out[i], model_out[i])
        stats["compared"] += n
        if unm:
            stats["unmodelled_cases"] += 1
            w = unm.split(" ", 2)[2][:60]
            unmodelled[w] = unmodelled.get(w, 0) + 1
        if d:
            stats["mismatch"] += 1
            mismatches.append((i, d))
        obs = observations(seq, impl_out[i])
        for c, ob in zip(seq, obs):
            if c[0] == "ADV" or ob is None:
                continue
            stats["commands"] += 1
            name = c[0].upper().decode("latin1")
            cmddist[name] = cmddist.get(name, 0) + 1
            cl = "%s/%s" % (name if judgeable(c) else name + "?", short(classify(ob[0])))
            classes[cl] = classes.get(cl, 0) + 1
            if ob[1]:
                stats["blocked_commands"] += 1
                stats["ticks"] += ob[1]
        for idx, sig, what, det in oracle_run(seq, obs):
            sigs.setdefault(sig, []).append((i, idx, what, det))

    def eval_one(s):
        try:
            out = run_driver([harness], [s], 120)[0]
        except Exception:
            return None
        return out

    def sig_pred(sig):
        def pred(cand):
            out = eval_one(cand)
            if out is None:
                return False
            return any(s == sig for _, s, _, _ in oracle_run(cand, observations(cand, out)))
        return pred

    reported = {}
    for sig, hits in sorted(sigs.items()):
        i, idx, what, det = hits[0]
        known = any(k.get("status") == "known" and re.fullmatch(k["match"], sig) for k in ctx.known)
        seq = seqs[i][:idx + 1]
        small = shrink(seq, sig_pred(sig), budget=60 if known else 400)
        out = eval_one(small) or []
        r = ctx.violation(sig, what, {"commands": seq_text(small), "implementation_output": out, "stream": stream_of(i), "count": len(hits),
                                      "detail": det, "how": "python3 tools/check.py C15 --replay <this file>   or: feed the case lines of checks/C15_text.py:case_lines to build/kvrun"})
        reported[sig] = {"status": r, "count": len(hits), "witness": seq_text(small)}

    new_oracle_failures = [s for s, v in reported.items() if v["status"] == "new"]
    for i, d in mismatches[:3]:
        def differs(cand):
            try:
                a = run_driver([harness], [cand], 120)[0]
                b = run_driver([model], [cand], 120)[0]
            except Exception:
                return False
            return compare(cand, a, b)[0] is not None
        small = shrink(seqs[i], differs, budget=300)
        a, b = run_driver([harness], [small], 120)[0], run_driver([model], [small], 120)[0]
        dd = compare(small, a, b)[0]
        ctx.violation("corr:kv:%s" % stream_of(i), "model (kv_step) and implementation (TextServerProtocol) disagree: impl %r / model %r" % (dd[1] if dd else "?", dd[2] if dd else "?"),
                      {"commands": seq_text(small), "implementation": a, "model": b, "broken": "correspondence KvModel.v <-> text command path",
                       "oracle_failures_of_this_run": new_oracle_failures}, found_input=False)
    ctx.obligation("correspondence: kv_step = real text command path on every generated sequence (replies, ticks, key managers)", not mismatches,
                   "%d mismatching sequences" % len(mismatches) if mismatches else "")
    if not proofs_ok:
        ctx.violation("proof:C15_text", "Properties/C15_text.v no longer checks: %s" % getattr(ctx, "coq_failure", "")[:500],
                      {"broken": "coq", "log": getattr(ctx, "coq_failure", "")}, found_input=False)

    coverage.update({
        "evaluations": len(seqs),
        "commands": stats["commands"],
        "distinct_nontrivial": len(classes),
        "rule": "distinct (command [? = outside the judged forms] / reply class) pairs observed on the implementation",
        "streams": dict(streams),
        "command_distribution": dict(sorted(cmddist.items())),
        "reply_classes": dict(sorted(classes.items())),
        "compared_commands": stats["compared"],
        "blocked_commands": stats["blocked_commands"], "clock_ticks_while_blocked": stats["ticks"],
        "cases_left_by_the_model": stats["unmodelled_cases"], "unmodelled_reasons": unmodelled,
        "mismatching_sequences": stats["mismatch"],
        "oracle_signatures": reported,
        "seconds": {"implementation": round(t_impl, 1), "model": round(t_model, 1), "total": round(time.time() - t_start, 1)},
        "samples": [seq_text(s) for s in seqs[len(corpus):len(corpus) + 2]] + [seq_text(s) for s in seqs[-2:]],
    })
    return ctx.finish(coverage, assumptions=["single text connection, database 0, leader, default connection timeout",
                                             "GenLockId values are fresh"])


if __name__ == "__main__":
    import sys
    ctx = vlib.Ctx(PID, os.environ.get("VERIF_TIER", "quick"), int(os.environ.get("VERIF_SEED", "1")))
    sys.exit(run(ctx))
