#!/usr/bin/env python3
"""C03_net — connection-level half of C03 over REAL sockets and protocol objects.

"No reply carries a RequestId the addressed connection did not send, and no reply is delivered to a different live
client; every request gets exactly one terminal reply ... on any number of concurrent connections (binary and text),
with replies produced by request threads, timeout/expiry sweepers and wake-up passes racing one another."

Parts (harness/replynet, see its STATUS.md):
  det   deterministic in-process replay of the command-object recycling race (three variants: grant from a wake-up
        pass, grant on the request's own goroutine, text connection as the addressee); real server on a loopback
        port, the granting goroutine is parked on the addressee's connection write mutex via ServerProtocol.Lock().
  net   a real slock server child process (built from the checked tree's main.go), 1..8 binary + text connections,
        concurrent workers with connection-unique RequestIds; every received frame is logged; the monitor (M1-M5,
        T1-T3 in harness/replynet/monitor.go) is the property statement on those logs + the server's own
        locked_count / wait_count. Parameters come from ctx.rng; SCHEDULES ARE THE RUNTIME'S AND THE KERNEL'S.
Standalone: python3 tools/check.py C03_net ; the C03 check folds it in through vlib.run_sub.
"""
import glob, json, os, shutil, sys, tempfile, time

sys.path.insert(0, os.path.join(os.path.dirname(os.path.abspath(__file__)), "..", "tools"))
import vlib

MANIFEST = {
    "property": "C03",
    "part": "connection level (real sockets, binary + text protocol objects)",
    "theorems": "coq/Properties/C03_net.v",
    "model": ["coq/ReplyNet/Pool.v"],
    "harness": "harness/replynet",
}
THEOREMS = ["C03_net_no_reply_reads_recycled_command", "C03_net_unlock_first_recycles_in_flight_command_refuted"]

PORT_LO, PORT_HI = 15400, 15479
DET_PORT_LO, DET_PORT_HI = 15480, 15499
SIG_RECYCLE = "reply:lost-or-misaddressed:unlock-first-frees-foreign-command"
OVERLAY = {"server/zz_verif_replynet.go": "harness/replynet/inj/zz_verif_replynet.go"}


# ------------------------------------------------------------------------------------------ scenarios
def scen(sid, db, seed, **kw):
    s = {"id": sid, "db": db, "bin_conns": 4, "text_conns": 0, "workers": 8, "keys": 3, "cap": 4, "duration_ms": 1500,
         "hold_us_max": 20, "timeout_s": 2, "expried_s": 60, "mix": {"pair": 1}, "init": True, "seed": seed, "drain_ms": 300}
    s.update(kw)
    return s


PROFILES = ["sem", "mixed", "mixed-text", "async", "cancel-relock", "one-conn", "text-only", "wide"]


def draw(rng, profile, sid, db):
    seed = rng.randrange(1, 1 << 30)
    if profile == "sem":        # Semaphore.Acquire/Release as the packaged client issues them (unlock-first, zero LockId)
        return scen(sid, db, seed, bin_conns=rng.choice([3, 4, 6]), workers=rng.choice([8, 12, 16]), keys=rng.choice([2, 3]),
                    cap=rng.choice([2, 4, 8]), duration_ms=2000, hold_us_max=rng.choice([0, 20]), mix={"sem": 1})
    if profile == "mixed":
        return scen(sid, db, seed, bin_conns=rng.choice([2, 4, 8]), workers=rng.choice([4, 8]), keys=rng.choice([2, 4, 8]),
                    cap=rng.choice([1, 2, 3]), hold_us_max=rng.choice([0, 50, 300]),
                    mix={"pair": 4, "sem": 2, "mswait": 3, "expire": 2, "cancel": 2, "relock": 1})
    if profile == "mixed-text":
        return scen(sid, db, seed, bin_conns=rng.choice([2, 3, 5]), text_conns=rng.choice([1, 2, 3]), workers=rng.choice([3, 6]),
                    keys=rng.choice([2, 3]), cap=rng.choice([1, 2]), hold_us_max=rng.choice([20, 200]),
                    mix={"pair": 3, "sem": 2, "mswait": 2, "expire": 2, "cancel": 1})
    if profile == "async":      # replies mostly from sweepers and wake-up passes: ms timeouts, ms expiries, tiny capacity
        return scen(sid, db, seed, bin_conns=rng.choice([2, 4]), workers=rng.choice([6, 10]), keys=rng.choice([1, 2]), cap=1,
                    hold_us_max=rng.choice([500, 3000]), mix={"mswait": 4, "expire": 4, "pair": 1})
    if profile == "cancel-relock":
        return scen(sid, db, seed, bin_conns=rng.choice([2, 3]), workers=rng.choice([4, 8]), keys=rng.choice([1, 2, 4]), cap=1,
                    hold_us_max=rng.choice([100, 1000]), mix={"cancel": 4, "relock": 3, "pair": 2})
    if profile == "one-conn":   # one connection, many workers: the misbuilt frame shows as a DUPLICATE terminal reply
        return scen(sid, db, seed, bin_conns=1, workers=rng.choice([16, 32]), keys=rng.choice([2, 3]), cap=rng.choice([2, 4]),
                    hold_us_max=20, mix={"sem": 3, "pair": 1}, init=rng.random() < 0.5)
    if profile == "text-only":
        return scen(sid, db, seed, bin_conns=0, text_conns=rng.choice([2, 4, 8]), workers=0, keys=rng.choice([1, 2]),
                    cap=rng.choice([1, 2]), hold_us_max=rng.choice([0, 100]), mix={})
    if profile == "wide":
        return scen(sid, db, seed, bin_conns=8, text_conns=2, workers=rng.choice([4, 6]), keys=rng.choice([4, 16]),
                    cap=rng.choice([1, 3]), hold_us_max=rng.choice([0, 20, 100]),
                    mix={"pair": 3, "sem": 3, "mswait": 2, "expire": 2, "cancel": 1, "relock": 1})
    raise ValueError(profile)


def plan(ctx, tier):
    rng = ctx.rng
    if tier == "quick":
        profs = ["sem", "mixed", "mixed-text", "async", "cancel-relock", "one-conn", "text-only"]
        reps = 1
    else:
        profs = PROFILES
        reps = 24
    scs, db = [], 1
    for r in range(reps):
        for p in profs:
            s = draw(rng, p, "%s-%d" % (p, r), db)
            if tier != "quick":
                s["duration_ms"] = max(s["duration_ms"], 2500)
            scs.append(s)
            db = db % 250 + 1
    return scs


def corpus_scenarios():
    res = []
    for f in sorted(glob.glob(os.path.join(vlib.VERIF, "corpus", "C03_net", "*.json"))):
        try:
            d = json.load(open(f))
            sc = dict(d.get("params") or d)
            sc["id"] = "corpus-" + os.path.basename(f)[:-5]
            sc["db"] = 251 + len(res) % 3
            res.append(sc)
        except Exception:
            pass
    return res


# ------------------------------------------------------------------------------------------ running
def free_port(lo, hi):
    import socket
    for p in range(lo, hi + 1):
        s = socket.socket()
        try:
            s.bind(("127.0.0.1", p))
            s.close()
            return p
        except OSError:
            s.close()
    return lo


def run_net(exe, server, scenarios):
    scratch = tempfile.mkdtemp(prefix="c03net-")
    cfg = {"server_bin": server, "port_lo": PORT_LO, "port_hi": PORT_HI, "scratch": scratch, "scenarios": scenarios}
    cfgp, outp = os.path.join(scratch, "cfg.json"), os.path.join(scratch, "out.json")
    json.dump(cfg, open(cfgp, "w"))
    tmo = sum(s["duration_ms"] / 1000.0 + s["timeout_s"] + 6 for s in scenarios) + 60
    try:
        rc, out, dt = vlib.sh([exe, "net", "-cfg", cfgp, "-out", outp], timeout=tmo, cwd=scratch)
        res = None
        if os.path.exists(outp):
            try:
                res = json.load(open(outp))
            except Exception:
                res = None
        return rc, out, res, dt
    finally:
        vlib.sh(["pkill", "-KILL", "-f", scratch + "/"])
        shutil.rmtree(scratch, ignore_errors=True)


def run_det(exe):
    scratch = tempfile.mkdtemp(prefix="c03net-det-")
    outp = os.path.join(scratch, "det.json")
    try:
        rc, out, dt = vlib.sh([exe, "det", "-variant", "all", "-scratch", scratch, "-port", str(free_port(DET_PORT_LO, DET_PORT_HI)),
                               "-out", outp], timeout=120, cwd=scratch)
        res = None
        if os.path.exists(outp):
            try:
                res = json.load(open(outp))
            except Exception:
                res = None
        return rc, out, res, dt
    finally:
        shutil.rmtree(scratch, ignore_errors=True)


def smaller(s):
    """candidate reductions of a scenario, most aggressive first"""
    c = []
    def v(**kw):
        t = dict(s)
        t.update(kw)
        if t != s:
            c.append(t)
    v(bin_conns=max(1 if s["text_conns"] else 2, s["bin_conns"] // 2), workers=max(1, s["workers"] // 2), keys=max(1, s["keys"] // 2))
    v(text_conns=0) if s["bin_conns"] >= 2 else None
    v(bin_conns=max(2, s["bin_conns"] - 1))
    v(workers=max(1, s["workers"] // 2))
    v(keys=max(1, s["keys"] - 1))
    for k in sorted(s["mix"]):
        if len(s["mix"]) > 1:
            m = dict(s["mix"])
            del m[k]
            v(mix=m)
    return c


def shrink(exe, server, s, sig, budget_s):
    """greedy, statistical: a reduction is kept when one of two runs still shows the signature"""
    t0, cur, tries = time.time(), dict(s), 0
    progress = True
    while progress and time.time() - t0 < budget_s:
        progress = False
        for cand in smaller(cur):
            if time.time() - t0 > budget_s:
                break
            runs = [dict(cand, id="shrink-%d-%d" % (tries, i), duration_ms=min(cand["duration_ms"], 1500), db=240 + (tries + i) % 8) for i in range(2)]
            tries += 1
            rc, out, res, dt = run_net(exe, server, runs)
            if res and any(v["sig"] == sig for v in res.get("violations") or []):
                cur = cand
                progress = True
                break
    return cur, tries


def run(ctx):
    tier = ctx.tier
    t_start = time.time()
    # 1. model of command-object ownership (optional part; proofs are about the model, the tie is the det replay below)
    have_coq = os.path.exists(os.path.join(vlib.COQ, "Properties", "C03_net.v"))
    if have_coq:
        ok, log = ctx.coq(["Properties/C03_net.vo"])
        proved = set(ctx.assumption_report.keys())
        for th in THEOREMS:
            ctx.obligation(th, ok and th in proved, "" if ok else getattr(ctx, "coq_failure", "")[:600])
        if tier == "thorough" and ok:
            cok, cout = ctx.coqchk(["Slock.Properties.C03_net"])
            ctx.obligation("coqchk -o Slock.Properties.C03_net", cok, "" if cok else cout[-600:])
        ctx.trusted.append("coq/ReplyNet/Pool.v is a hand-written abstraction of command-object ownership (lock records, per-connection "
                           "free lists, in-flight replies); its tie to the code is the deterministic replay (det) whose steps are the "
                           "model's refutation witness, not a translator")

    # 2. harness + server from the checked tree
    moddir = os.path.join(vlib.VERIF, "harness", "replynet")
    exe = ctx.go_build("c03net", moddir, overlay=OVERLAY, tags="verif")
    with vlib.Lock("go-c03net"):
        rc, tout, _ = vlib.sh(["go", "test", "-count=1", "-vet=off", "-tags", "verif", "-overlay",
                               os.path.join(vlib.BUILD, "c03net.overlay.json"), "."], cwd=moddir, timeout=600)
    ctx.obligation("monitor self-tests (harness/replynet/monitor_test.go: synthetic good/bad logs for every rule)", rc == 0,
                   "" if rc == 0 else tout[-800:])
    if rc != 0:
        raise vlib.BuildError("monitor self-tests failed:\n" + tout[-2000:])
    server = ctx.go_build("c03net-slock", moddir, tags=None, pkg="github.com/snower/slock")
    ctx.trusted.append("harness/replynet (own minimal binary/RESP clients, monitor.go) and the injected read-only inspection helpers "
                       "harness/replynet/inj/zz_verif_replynet.go; schedules of the statistical part are the Go runtime's and the kernel's")

    # 3. deterministic replay
    det_summary = []
    rc, out, det, dt = run_det(exe)
    if det is None or det.get("fatal"):
        ctx.obligation("deterministic replay runs (in-process server on loopback)", False, (det or {}).get("fatal") or out[-600:])
        ctx.violation("harness:det-no-result", "c03net det died or could not start its server (rc=%s)" % rc,
                      {"output_tail": out[-2000:], "fatal": (det or {}).get("fatal")}, found_input=False)
    else:
        setup_ok = all(not v.get("error") for v in det["variants"])
        ctx.obligation("deterministic replay runs (in-process server on loopback; 3 variants reach the parked-grant state)", setup_ok,
                       "; ".join("%s: %s" % (v["variant"], v["error"]) for v in det["variants"] if v.get("error")))
        for v in det["variants"]:
            det_summary.append({"variant": v["variant"], "reproduced": v["reproduced"], "outcome": v["outcome"], "error": v.get("error")})
            if v.get("error"):
                ctx.violation("harness:det-setup:" + v["variant"], "the deterministic replay could not reach the parked-grant state: " + v["error"],
                              {"variant": v}, found_input=False)
            elif v["reproduced"]:
                ctx.violation(v["sig"], "deterministic replay (%s): %s" % (v["variant"], v["outcome"]),
                              {"kind": "deterministic", "variant": v["variant"], "steps": v["steps"], "frames_received": v["frames_received"],
                               "frames_sent": v["frames_sent"], "text": v.get("text"),
                               "rerun": "build/c03net det -variant %s -scratch <dir> -port 15490 -out -" % v["variant"]}, found_input=True)

    # 4. statistical scenarios
    if getattr(ctx, "replay", None):
        d = json.load(open(ctx.replay))
        sc = dict((d.get("replay") or d)["params"])
        scenarios = [dict(sc, id="replay-%d" % i, db=1 + i) for i in range(5)]
    else:
        scenarios = corpus_scenarios() + plan(ctx, tier)
    results, raw_viol, fatal = [], [], []
    batch = 12 if tier != "quick" else len(scenarios)
    for i in range(0, len(scenarios), batch):
        part = scenarios[i:i + batch]
        rc, out, res, dt = run_net(exe, server, part)
        if res is None:
            fatal.append("harness produced no result (rc=%s): %s" % (rc, out[-600:]))
            ctx.violation("harness:no-result", "c03net net died or hung (rc=%s); the runtime check could not be evaluated" % rc,
                          {"scenarios": part, "output_tail": out[-2000:]}, found_input=False)
            continue
        if res.get("fatal"):
            fatal.append(res["fatal"])
            ctx.violation("server:" + res["fatal"].split(" scenario ")[0].replace(" ", "-"), "slock server process problem: " + res["fatal"],
                          {"fatal": res["fatal"], "server_log_tail": res.get("server_log_tail"), "scenarios": part}, found_input=True)
        results += res.get("results") or []
        raw_viol += res.get("violations") or []
    sig_counts, new_sigs = {}, {}
    for r in results:
        for k, n in (r.get("violation_sigs") or {}).items():
            sig_counts[k] = sig_counts.get(k, 0) + n
        if r.get("fatal"):
            fatal.append("%s: %s" % (r["id"], r["fatal"]))
            ctx.violation("harness:scenario-fatal", "scenario %s could not be evaluated: %s" % (r["id"], r["fatal"]), {"params": r["params"]}, found_input=False)
    seen = set()
    for v in raw_viol:
        if v["sig"] in seen:
            continue
        seen.add(v["sig"])
        replay = {"kind": "statistical", "params": v["params"], "what": v["what"], "frames": v.get("frames"), "text": v.get("text"),
                  "occurrences_this_run": sig_counts.get(v["sig"], 1),
                  "rerun": "python3 tools/check.py C03_net --replay <this file>  (re-runs the scenario 5 times; schedules are the runtime's)"}
        if ctx.violation(v["sig"], v["what"], replay, found_input=True) == "new":
            new_sigs[v["sig"]] = v
    # shrink what is new (known findings carry their minimised scenario in corpus/C03_net)
    shrunk = {}
    for sig, v in new_sigs.items():
        budget = 40 if tier == "quick" else 240
        small, tries = shrink(exe, server, v["params"], sig, budget)
        shrunk[sig] = {"params": small, "reruns": tries}
        path = [p for s_, w, p, f in ctx.violations if s_ == sig]
        if path:
            d = json.load(open(path[0]))
            d["replay"]["shrunk_params"] = small
            d["replay"]["shrink_reruns"] = tries
            json.dump(d, open(path[0], "w"), indent=1)

    # 5. evidence
    tot = lambda k: sum(r.get(k) or 0 for r in results)
    by_kind, by_result = {}, {}
    for r in results:
        for k, n in (r.get("requests_by_kind") or {}).items():
            by_kind[k] = by_kind.get(k, 0) + n
        for k, n in (r.get("replies_by_result") or {}).items():
            by_result[k] = by_result.get(k, 0) + n
    asyncr = tot("grants_after_wait_ge_200us") + tot("expried_notices") + sum(n for k, n in by_result.items() if k.endswith("TIMEOUT")) \
        + by_result.get("UNLOCK_ERROR", 0) + by_result.get("LOCKED_ERROR", 0)
    cov = {
        "evaluations": tot("requests") + tot("text_cmds"),
        "distinct_nontrivial": asyncr,
        "rule": "replies produced by another goroutine than the request's own or racing one: grants delivered >= 200 us after the request "
                "(queued, woken by an unlock/expiry/timeout pass), TIMEOUT replies (sweeper), EXPRIED notices (sweeper), cancel-wait pairs "
                "(UNLOCK_ERROR/LOCKED_ERROR)",
        "scenarios": len(results),
        "frames_received_binary": tot("frames"),
        "text_commands": tot("text_cmds"),
        "requests_by_kind": by_kind,
        "replies_by_result": by_result,
        "connections": sorted(set("%db+%dt" % (r["params"]["bin_conns"], r["params"]["text_conns"]) for r in results)),
        "client_gave_up_waiting": tot("client_gave_up"),
        "violations_raw_by_signature": sig_counts,
        "deterministic_replay": det_summary,
        "shrunk": shrunk,
        "schedules": "statistical part: Go runtime + kernel (loopback TCP), not controlled; deterministic part: fully controlled",
        "samples": [{k: r[k] for k in ("id", "requests", "frames", "text_cmds", "expried_notices", "grants_after_wait_ge_200us",
                                       "server_locked_count", "implied_locked", "server_wait_count", "sem_acquired", "sem_released",
                                       "violation_sigs", "wall_ms") if k in r} for r in results[:8]],
        "scenarios_with_anomalies": [{k: r[k] for k in ("id", "params", "requests", "client_gave_up", "replies_later_than_patience",
                                                         "max_reply_latency_ms", "violation_sigs", "server_locked_count", "implied_locked") if k in r}
                                     for r in results if r.get("client_gave_up") or r.get("violations") or r.get("replies_later_than_patience")][:40],
        "max_reply_latency_ms": max([r.get("max_reply_latency_ms") or 0 for r in results] or [0]),
        "harness_fatal": fatal,
        "wall_s_parts": {"total": round(time.time() - t_start, 1)},
    }
    assumptions = [
        "RequestIds are connection-unique (the harness generates them so; the property's premise)",
        "drain: a request counts as unanswered when no terminal reply arrived within its server-side timeout + 3 s on loopback",
        "the statistical part explores only the interleavings the runtime happens to produce",
    ]
    return ctx.finish(cov, assumptions, level="proof" if have_coq else "runtime")
