#!/usr/bin/env python3
"""Assemble /verif/DESIGN.md from docs/design_*.md plus two generated sections (findings from known_findings/*.json,
seeded changes from seeded/*/meta.json).  Run after the pieces or the findings / seeded records changed."""
import glob, json, os, re, subprocess

V = os.path.dirname(os.path.dirname(os.path.abspath(__file__)))


def rd(name):
    p = os.path.join(V, "docs", name)
    return open(p).read().rstrip() + "\n" if os.path.exists(p) else ""


def wrap(text, width=116, indent="  "):
    import textwrap
    return "\n".join(textwrap.wrap(text, width=width, subsequent_indent=indent, break_long_words=False, break_on_hyphens=False))


def findings():
    out = ["## 8. Genuine defects found in snower/slock (fixed / recorded)\n"]
    fixes = subprocess.check_output(["git", "-C", os.environ.get("VERIF_REPO", "/repo"), "log", "--oneline"]).decode().splitlines()
    fixes = [l for l in fixes if " fix:" in l]
    entries = []
    for f in sorted(glob.glob(os.path.join(V, "known_findings", "*.json"))):
        d = json.load(open(f))
        for e in (d["findings"] if isinstance(d, dict) else d):
            entries.append((os.path.basename(f)[:-5], e))
    nk = sum(1 for _, e in entries if e["status"] == "known")
    nf = sum(1 for _, e in entries if e["status"] == "fixed")
    out.append(wrap("Every entry below was reproduced on the real code (the input, schedule, crash image or history is in the entry's "
                    "`what_fails` / `replay` fields of `known_findings/<id>.json` and in `corpus/<id>/`), and the model agrees with the "
                    "code on it (most have a `_refuted` theorem). **%d `fix:` commits** in /repo repair %d entries (an entry can be listed under "
                    "several properties; a commit can repair several entries); **%d entries are recorded** (`known`): the repair is not small "
                    "and safe, or changes designed behaviour. Recorded findings print `KNOWN-FINDING:` and exit 0; a different failure of the "
                    "same property is still a violation (signatures are matched by the `match` regex of the entry only)." % (len(fixes), nf, nk), indent=""))
    out.append("\n**Fix commits in /repo** (oldest first):\n")
    for l in reversed(fixes):
        out.append("- `%s` %s" % (l.split()[0], wrap(" ".join(l.split()[1:]), 108, "  ")))
    out.append("\n**Entries per property** (status, id, first sentence):\n")
    cur = None
    for fn, e in entries:
        if fn != cur:
            out.append("\n*%s*" % fn)
            cur = fn
        what = re.sub(r"^fixed: property=\S+ \S+ ", "", e.get("what_fails", ""))
        first = re.split(r"(?<=[a-z0-9\)])[.;:] ", what)[0][:230]
        st = ("fixed " + str(e.get("commit", ""))) if e["status"] == "fixed" else "known"
        out.append(wrap("- [%s] `%s` — %s" % (st, e["id"], first), 116, "  "))
    return "\n".join(out) + "\n"


def seeded():
    out = ["## 9. Seeded changes (written by fresh sub-agents) and which checks catch them\n"]
    out.append(wrap("Each change below was written by a fresh sub-agent that saw only the text of one property and a scratch worktree of /repo "
                    "(nothing from /verif), compiles, passes the pinned 85-test suite unedited, and comes with a demonstration that fails with "
                    "the change and passes without it. I confirmed all of that myself (`tools/mutconfirm.py`, scratch worktree, removed "
                    "afterwards) before keeping it under `seeded/<id>/` (patch.diff, demonstration/, meta.json). `detected by` = quick-tier "
                    "checks that exit 1 with a VIOLATION line when the change is applied (`tools/muteval.py`: isolated copy of /verif + scratch "
                    "worktree, `VERIF_REPO`); *input* = the check printed a concrete failing input, *tie* = only a broken proof / "
                    "correspondence (`no-failing-input-found`).", indent=""))
    out.append("\n| id | property | change (file: function) | needs to manifest | detected by | missed by |\n|---|---|---|---|---|---|")
    for d in sorted(glob.glob(os.path.join(V, "seeded", "*"))):
        mp = os.path.join(d, "meta.json")
        if not os.path.exists(mp):
            continue
        m = json.load(open(mp))
        diff = open(os.path.join(d, "patch.diff")).read()
        files = re.findall(r"^\+\+\+ b/(\S+)", diff, flags=re.M)
        fn = re.findall(r"^@@ .*@@ func (?:\([^)]*\) )?(\w+)", diff, flags=re.M)
        needs = re.sub(r"\s+", " ", m.get("needs_to_manifest", "")).replace("|", "/")
        needs = re.sub(r"^What is needed to manifest it\W*", "", needs)[:260]
        det = ", ".join("%s (%s)" % (k, v) for k, v in m.get("detection", {}).items() if v != "missed") or ", ".join(m.get("detected_by", []))
        mis = ", ".join(k for k, v in m.get("detection", {}).items() if v == "missed") or ", ".join(m.get("missed_by", []))
        out.append("| %s | %s | %s: %s | %s | %s | %s |" % (m["id"], m["property"], ", ".join(sorted(set(files))), ", ".join(dict.fromkeys(fn)) or "-", needs, det or "-", mis or "-"))
    return "\n".join(out) + "\n"


def numbers():
    import glob as g
    nthm = 0
    for f in g.glob(os.path.join(V, "coq", "Properties", "*.v")):
        nthm += len(re.findall(r"^Theorem ", open(f).read(), flags=re.M))
    loc = 0
    for root, _, files in os.walk(os.path.join(V, "coq")):
        if "scratch" in root:
            continue
        for f in files:
            if f.endswith(".v"):
                loc += sum(1 for _ in open(os.path.join(root, f), errors="replace"))
    fixes = [l for l in subprocess.check_output(["git", "-C", os.environ.get("VERIF_REPO", "/repo"), "log", "--oneline"]).decode().splitlines() if " fix:" in l]
    nk = nf = 0
    for f in g.glob(os.path.join(V, "known_findings", "*.json")):
        d = json.load(open(f))
        for e in (d["findings"] if isinstance(d, dict) else d):
            nk += e["status"] == "known"
            nf += e["status"] == "fixed"
    return {"KLOC": str(round(loc / 1000)), "NTHM": str(nthm), "NFIX": str(len(fixes)), "NFIXED": str(nf), "NKNOWN": str(nk), "NENTRIES": str(nk + nf)}


def main():
    nums = numbers()
    head = rd("design_head.md")
    for k, v in nums.items():
        head = head.replace("{{%s}}" % k, v)
    parts = [head, "---------------------------------------------------------------------------\n\n## 5. Per-property status\n",
             rd("design_props_A.md"), rd("design_props_B.md"), rd("design_tail.md"), findings(),
             "\n---------------------------------------------------------------------------\n", seeded(),
             "\n---------------------------------------------------------------------------\n", rd("design_limits.md"),
             "\n---------------------------------------------------------------------------\n", rd("design_appendix.md")]
    open(os.path.join(V, "DESIGN.md"), "w").write("\n".join(p for p in parts if p))
    print("DESIGN.md written:", sum(p.count("\n") for p in parts), "lines")


if __name__ == "__main__":
    main()
