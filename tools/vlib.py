#!/usr/bin/env python3
"""Shared machinery for every property check (see DESIGN.md section 7).

A check module (checks/Cxx.py) exposes run(ctx) and uses:
  ctx.gen()                      regenerate coq/Gen/*.v from /repo (translator go2coq)
  ctx.coq(targets)               make the .vo targets (full build, never -vos); harvests Print Assumptions
  ctx.go_build(name, pkgdir, overlay_files, tags)   build a harness binary from /repo's working tree
  ctx.ocaml_model(area)          extract + build ocaml/<area>/modelrun
  ctx.violation(sig, what, replay, found_input)     record a violation (filtered by known_findings.json)
  ctx.finish(coverage, assumptions)                 write evidence, print lines, exit
"""
import fcntl, hashlib, json, os, random, re, shutil, subprocess, sys, time

VERIF = os.path.dirname(os.path.dirname(os.path.abspath(__file__)))
REPO = os.environ.get("VERIF_REPO", "/repo")
COQ = os.path.join(VERIF, "coq")
BUILD = os.path.join(VERIF, "build")
GOENV = dict(GOFLAGS="-mod=mod", GOPROXY="off", GOSUMDB="off", GOTOOLCHAIN="local",
             CGO_ENABLED="0")

FORBIDDEN = re.compile(r"\b(Admitted|admit|Axiom|Parameter|Conjecture|Abort All)\b|Unset Guard|Unset Positivity|Unset Universe|Universe Checking|Positivity Checking|Guard Checking|bypass_check|Admit Obligations|-type-in-type|-impredicative-set|native_compute")


def sh(cmd, cwd=None, timeout=None, env=None, check=False, inp=None):
    e = dict(os.environ)
    e.update(GOENV)
    if env:
        e.update(env)
    t0 = time.time()
    try:
        p = subprocess.run(cmd, cwd=cwd, shell=isinstance(cmd, str), stdout=subprocess.PIPE,
                           stderr=subprocess.STDOUT, timeout=timeout, env=e, input=inp)
        out = p.stdout.decode("utf-8", "replace")
        rc = p.returncode
    except subprocess.TimeoutExpired as ex:
        out = (ex.stdout or b"").decode("utf-8", "replace") + "\n[timeout after %ss]" % timeout
        rc = 124
    if check and rc != 0:
        raise RuntimeError("command failed (%d): %s\n%s" % (rc, cmd, out[-4000:]))
    return rc, out, time.time() - t0


class Lock:
    """flock-based mutex so that concurrently running checks do not clash in shared build dirs."""

    def __init__(self, name):
        os.makedirs(BUILD, exist_ok=True)
        self.path = os.path.join(BUILD, name + ".lock")

    def __enter__(self):
        self.f = open(self.path, "w")
        fcntl.flock(self.f, fcntl.LOCK_EX)
        return self

    def __exit__(self, *a):
        fcntl.flock(self.f, fcntl.LOCK_UN)
        self.f.close()


def coq_sources():
    res = []
    for root, dirs, files in os.walk(COQ):
        dirs[:] = [d for d in dirs if d not in ("scratch",)]
        for f in files:
            if f.endswith(".v"):
                res.append(os.path.relpath(os.path.join(root, f), COQ))
    return sorted(res)


def write_if_changed(path, content):
    try:
        if open(path).read() == content:
            return False
    except FileNotFoundError:
        pass
    os.makedirs(os.path.dirname(path), exist_ok=True)
    with open(path, "w") as f:
        f.write(content)
    return True


def coq_prepare():
    """(re)write _CoqProject and Makefile when the file set changed."""
    srcs = coq_sources()
    proj = "-Q . Slock\n-arg -w -arg -notation-overridden,-deprecated-hint-without-locality,-deprecated-instance-without-locality,-ambiguous-paths\n" + "\n".join(srcs) + "\n"
    changed = write_if_changed(os.path.join(COQ, "_CoqProject"), proj)
    if changed or not os.path.exists(os.path.join(COQ, "Makefile")):
        try:
            os.remove(os.path.join(COQ, ".Makefile.d"))     # the dependency cache may name a file that no longer exists
        except FileNotFoundError:
            pass
        sh("coq_makefile -f _CoqProject -o Makefile", cwd=COQ, check=True)


def forbidden_scan():
    bad = []
    for s in coq_sources():
        txt = open(os.path.join(COQ, s)).read()
        txt = re.sub(r"\(\*.*?\*\)", "", txt, flags=re.S)
        for m in FORBIDDEN.finditer(txt):
            bad.append("%s: %s" % (s, m.group(0)))
    return bad


def parse_assumptions(log):
    """Return {theorem: 'Closed under the global context' | axioms text} from coqc output.
    Property files print a marker line before each Print Assumptions via
    `Goal True. idtac "ASSUMPTIONS <name>". Abort.` — we simply pair in order instead:
    every `Print Assumptions X.` in a Properties file is preceded by our own echo."""
    res = {}
    cur = None
    buf = []
    for line in log.splitlines():
        m = re.match(r"^ASSUMPTIONS-OF (\S+)", line)
        if m:
            if cur:
                res[cur] = "\n".join(buf).strip()
            cur, buf = m.group(1), []
            continue
        if cur is not None:
            if line.startswith("COQC ") or line.startswith("make") or line.startswith("COQDEP"):
                res[cur] = "\n".join(buf).strip()
                cur, buf = None, []
            else:
                buf.append(line)
    if cur:
        res[cur] = "\n".join(buf).strip()
    return res


class Ctx:
    def __init__(self, pid, tier, seed, report_as=None, keep_replays=False):
        self.pid, self.tier, self.seed = pid, tier, seed
        self.report_as = report_as or pid      # property id printed in VIOLATION / KNOWN-FINDING lines
        self.t0 = time.time()
        self.rng = random.Random(seed)
        self.violations = []     # (sig, what, replay_path, found_input)
        self.known_hits = []
        self.obligations = []    # (name, ok, detail)
        self.assumption_report = {}
        self.trusted = []
        self.notes = []
        kf = os.path.join(VERIF, "known_findings", pid + ".json")
        self.known = json.load(open(kf))["findings"] if os.path.exists(kf) else []
        os.makedirs(os.path.join(VERIF, "replays"), exist_ok=True)
        import glob as _glob
        for old in ([] if keep_replays else _glob.glob(os.path.join(VERIF, "replays", pid + "-*.json"))):
            os.remove(old)
        os.makedirs(os.path.join(VERIF, "evidence"), exist_ok=True)

    # ---------------------------------------------------------------- translator
    def gen(self):
        """Run the translator on /repo's working tree; rewrites coq/Gen/*.v only when content changed."""
        with Lock("gen"):
            gdir = os.path.join(VERIF, "gen", "go2coq")
            exe = os.path.join(BUILD, "go2coq")
            rc, out, _ = sh(["go", "build", "-o", exe, "."], cwd=gdir, timeout=300)
            if rc != 0:
                raise RuntimeError("go2coq build failed:\n" + out)
            tmp = os.path.join(BUILD, "gen.tmp")
            shutil.rmtree(tmp, ignore_errors=True)
            os.makedirs(tmp)
            rc, out, _ = sh([exe, "-repo", REPO, "-out", tmp], timeout=120)
            self.gen_log = out
            if rc != 0:
                self.obligation("translator go2coq runs on the current source", False, out[-2000:])
                return False
            for f in sorted(os.listdir(tmp)):
                write_if_changed(os.path.join(COQ, "Gen", f), open(os.path.join(tmp, f)).read())
            return True

    # ---------------------------------------------------------------- coq
    def coq(self, targets, timeout=1500):
        """Build .vo targets. Returns (ok, log). Records one obligation per Properties theorem printed."""
        with Lock("coq"):
            coq_prepare()
            bad = forbidden_scan()
            if bad:
                self.obligation("no Admitted/Axiom/Parameter/guard-off anywhere in coq/", False, "; ".join(bad))
                return False, "forbidden: " + "; ".join(bad)
            # Properties files must always be recompiled so that Print Assumptions output is harvested
            for t in targets:
                try:
                    os.remove(os.path.join(COQ, t))
                except FileNotFoundError:
                    pass
            rc, out, dt = sh(["make", "-j16", "-k"] + targets, cwd=COQ, timeout=timeout)
            self.coq_log = out
            self.coq_time = dt
            rep = parse_assumptions(out)
            self.assumption_report.update(rep)
            # every property theorem must be closed under the global context: an axiom (even one of the standard
            # library) that creeps in is reported, not silently accepted
            for th, txt in rep.items():
                if "Axioms:" in txt and "Closed under the global context" not in txt.split("Axioms:")[0]:
                    self.obligation("theorem %s depends on no axiom" % th, False, txt[:400])
                    self.violation("proof:axioms:" + th, "Print Assumptions %s no longer says 'Closed under the global context': %s" % (th, txt[:300]),
                                   {"broken": "Print Assumptions", "theorem": th, "assumptions": txt[:2000]}, found_input=False)
            if rc != 0:
                m = re.findall(r'File "\./([^"]+)", line (\d+).*?\n(Error:.*?)(?:\n\n|\nmake|\Z)', out, flags=re.S)
                det = "; ".join("%s:%s %s" % (a, b, c.replace("\n", " ")[:300]) for a, b, c in m) or out[-1500:]
                self.coq_failure = det
                return False, out
            return True, out

    def coqchk(self, libs, timeout=3000):
        with Lock("coq"):
            rc, out, dt = sh(["coqchk", "-silent", "-o", "-Q", ".", "Slock"] + libs, cwd=COQ, timeout=timeout)
            return rc == 0, out

    def obligation(self, name, ok, detail=""):
        self.obligations.append((name, bool(ok), detail))

    # ---------------------------------------------------------------- go
    def go_build(self, name, moddir, overlay=None, tags="verif", pkg=".", cover=False, race=False):
        """Build harness `name` from module dir (which replaces slock => /repo) against /repo's
        working tree; overlay = {path under /repo: source file in /verif} injected in-package."""
        os.makedirs(BUILD, exist_ok=True)
        with Lock("go-" + name):
            shutil.copy(os.path.join(REPO, "go.sum"), os.path.join(moddir, "go.sum"))
            gomod = os.path.join(moddir, "go.mod")
            txt = open(gomod).read()
            new = re.sub(r"(replace github.com/snower/slock => ).*", r"\g<1>" + REPO, txt)
            if new != txt:
                open(gomod, "w").write(new)
            tmpout = os.path.join(BUILD, "%s.tmp%d" % (name, os.getpid()))     # a concurrent check may be executing the old binary
            args = ["go", "build", "-o", tmpout]
            if tags:
                args += ["-tags", tags]
            if race:
                args += ["-race"]
            if cover:
                args += ["-cover", "-coverpkg=github.com/snower/slock/..."]
            if overlay:
                ov = {"Replace": {os.path.join(REPO, k): os.path.join(VERIF, v) for k, v in overlay.items()}}
                ovp = os.path.join(BUILD, name + ".overlay.json")
                json.dump(ov, open(ovp, "w"))
                args += ["-overlay", ovp]
            args.append(pkg)
            env = {"CGO_ENABLED": "1"} if race else None
            rc, out, dt = sh(args, cwd=moddir, timeout=900, env=env)
            if rc != 0:
                raise BuildError("go build %s failed:\n%s" % (name, out[-3000:]))
            os.replace(tmpout, os.path.join(BUILD, name))
            return os.path.join(BUILD, name)

    # ---------------------------------------------------------------- ocaml
    def ocaml_model(self, area, deps=None):
        """coq/<Area>/Extract.v must be built already (part of make). It writes model.ml into ocaml/<area>/
        when compiled from that directory, so compile it there, then build driver.ml -> modelrun."""
        d = os.path.join(VERIF, "ocaml", area)
        if deps:
            with Lock("coq"):
                coq_prepare()
                rc, out, _ = sh(["make", "-j16"] + deps, cwd=COQ, timeout=1500)
                if rc != 0:
                    raise BuildError("coq build of %s failed:\n%s" % (deps, out[-3000:]))
        with Lock("ocaml-" + area):
            rc, out, _ = sh(["coqc", "-Q", COQ, "Slock", "Extract.v"], cwd=d, timeout=600)
            if rc != 0:
                raise BuildError("extraction %s failed:\n%s" % (area, out[-3000:]))
            if os.path.exists(os.path.join(d, "model.mli")):
                os.remove(os.path.join(d, "model.mli"))
            tmpout = "modelrun.tmp%d" % os.getpid()       # a concurrent check may be executing the old binary
            rc, out, _ = sh("ocamlfind ocamlopt -O3 -w -a -package str model.ml driver.ml -linkpkg -o %s 2>&1 || ocamlfind ocamlopt -w -a -package str model.ml driver.ml -linkpkg -o %s" % (tmpout, tmpout), cwd=d, timeout=600)
            if rc != 0:
                raise BuildError("ocaml build %s failed:\n%s" % (area, out[-3000:]))
            os.replace(os.path.join(d, tmpout), os.path.join(d, "modelrun"))
            return os.path.join(d, "modelrun")

    # ---------------------------------------------------------------- violations
    def violation(self, sig, what, replay, found_input=True):
        """sig: canonical signature of the failing input/call-site/history (matched against known_findings)."""
        for k in self.known:
            if k.get("status") == "known" and re.fullmatch(k["match"], sig):
                if k["id"] not in [x["id"] for x in self.known_hits]:
                    self.known_hits.append(k)
                return "known"
        h = hashlib.sha1((sig + json.dumps(replay, sort_keys=True, default=str)).encode()).hexdigest()[:10]
        path = os.path.join(VERIF, "replays", "%s-%s.json" % (self.pid, h))
        json.dump({"property": self.pid, "signature": sig, "what": what, "seed": self.seed, "tier": self.tier,
                   "found_failing_input": found_input, "replay": replay}, open(path, "w"), indent=1, default=str)
        if sig not in [v[0] for v in self.violations]:
            self.violations.append((sig, what, path, found_input))
        return "new"

    def finish(self, coverage, assumptions=None, level="proof"):
        if level not in ("exploration", "fault_enumeration", "model_checking", "proof", "translation_validation", "other"):
            level = "proof" if level.startswith("proof") else "other"       # the evidence schema's enumeration
        nob = len(self.obligations)
        ndis = sum(1 for o in self.obligations if o[1])
        cov = dict(coverage)
        cov.setdefault("obligations", nob)
        cov.setdefault("discharged", ndis)
        cov.setdefault("obligation_list", [{"name": n, "ok": ok, **({"detail": d} if d else {})} for n, ok, d in self.obligations])
        cov.setdefault("checker_cmd", "cd /verif/coq && coq_makefile -f _CoqProject -o Makefile && make -j16 Properties/%s.vo  (coqc 8.16.1, full .vo build; coqchk -o in thorough tier)" % self.pid)
        tb = list(self.trusted)
        for th, rep in sorted(self.assumption_report.items()):
            tb.append("Print Assumptions %s: %s" % (th, " ".join(rep.split()) or "(no output)"))
        cov.setdefault("trusted_base", tb)
        cov["known_findings_reported"] = [k["id"] for k in self.known_hits]
        if self.notes:
            cov["notes"] = self.notes
        ev = {"property_id": self.pid, "tier": self.tier, "seed": self.seed, "level": level, "coverage": cov,
              "assumptions": assumptions or [], "wall_s": round(time.time() - self.t0, 2),
              "violations": len(self.violations)}
        json.dump(ev, open(os.path.join(VERIF, "evidence", self.pid + ".json"), "w"), indent=1, default=str)
        for k in self.known_hits:
            print("KNOWN-FINDING: property=%s %s" % (self.report_as, k["what_fails"]))
        for sig, what, path, found in self.violations:
            print("# %s: %s" % (sig, what))
            print("VIOLATION property=%s replay=%s%s" % (self.report_as, path, "" if found else " no-failing-input-found"))
        sys.stdout.flush()
        rc_sub = max([rc for _, rc in getattr(self, "sub_results", [])] or [0])
        return 1 if (self.violations or rc_sub) else 0


class BuildError(Exception):
    pass


def run_sub(parent, subpid, module):
    """run another check module as a part of `parent`'s property: its lines are printed under the parent's property id,
    its evidence file (evidence/<subpid>.json) is folded into the parent's coverage by merge_sub_evidence"""
    sub = Ctx(subpid, parent.tier, parent.seed, report_as=parent.report_as)
    sub.replay = None
    try:
        rc = module.run(sub)
    except BuildError as e:
        sub.obligation("harness builds against /repo's working tree", False, str(e)[-1500:])
        sub.violation("build:" + subpid, "harness/model build failed: the correspondence can no longer be checked",
                      {"broken": "build", "detail": str(e)[-3000:]}, found_input=False)
        rc = sub.finish({"evaluations": 0, "distinct_nontrivial": 0, "rule": "build failed", "samples": [str(e)[-500:]]})
    parent.sub_results = getattr(parent, "sub_results", []) + [(subpid, rc)]
    for n, ok, d in sub.obligations:
        parent.obligation("[%s] %s" % (subpid, n), ok, d)
    parent.assumption_report.update(sub.assumption_report)
    for t in sub.trusted:
        if t not in parent.trusted:
            parent.trusted.append(t)
    return rc


def merge_sub_evidence(parent_cov, subpids):
    parent_cov["sub_checks"] = {}
    for sp in subpids:
        try:
            ev = json.load(open(os.path.join(VERIF, "evidence", sp + ".json")))
        except Exception:
            continue
        c = ev["coverage"]
        parent_cov["sub_checks"][sp] = {k: c[k] for k in c if k not in ("trusted_base", "obligation_list")}
        parent_cov["evaluations"] = parent_cov.get("evaluations", 0) + c.get("evaluations", 0)
        parent_cov["distinct_nontrivial"] = parent_cov.get("distinct_nontrivial", 0) + c.get("distinct_nontrivial", 0)
        parent_cov.setdefault("samples", [])
        parent_cov["samples"] += c.get("samples", [])[:2]
    return parent_cov
