#!/usr/bin/env python3
"""Generates MANIFEST.json from checks/*.py (each exposes MANIFEST = {...}) so the file is always schema-valid."""
import importlib, json, os, sys
HERE = os.path.dirname(os.path.abspath(__file__))
VERIF = os.path.dirname(HERE)
sys.path.insert(0, HERE); sys.path.insert(0, VERIF)

ALL = ["C%02d" % i for i in range(1, 21)]

NOTE_COMMON = "Trusted: Coq 8.16.1 kernel (vm_compute inside some proofs; no native_compute); hand-written executable model validated on every run by the differential correspondence check against the Go code built from /repo's working tree; extraction with ExtrOcamlBasic only; harness files injected by go build -overlay -tags verif. Full per-run list (Print Assumptions output, modelled-not-verified parts) in the evidence file's trusted_base."
OVERRIDE = {
 "C07": dict(technique="Coq proof (conversion bounds, emission rules, all-expired restart, refutation witnesses over the engine model) + restart correspondence (real node stopped and restarted on its data dir vs model prediction)",
             text="Theorems in coq/Properties/C07.v over the restart model coq/Restart (record stream of the engine model -> load filter -> HandleLoad replay into a fresh engine): deadline conversion bounds for seconds/minutes, emission rules per persistence flag, a restart after every record has expired recovers nothing, recover is a fold over the record list (compositional), an end-to-end instance, and refutations for the defects found; the general simulation (recovered holds = persisted live holds for every history) is NOT proved: it is covered by the differential run only (coq/Restart/STATUS.md). Tie: generated histories run on a real in-process node with real AOF files, the node is restarted in a fresh process on the same directory, the censuses before/after are compared with the model prediction and with the property monitor.", note=NOTE_COMMON),
 "C08": dict(technique="Coq proof over a byte-exact AOF file model (writer crash shapes, reader) + exhaustive-per-workload truncation correspondence against the real AofFile/LoadAofFiles",
             text="Theorems in coq/Properties/C08.v: every image the writer can leave after a crash at any byte has the crash shape (cut header, or whole header + n whole records + torn piece, value file a prefix); on the (now repaired) source every crash image and every reader buffer size gives a successful start that delivers a prefix of the written records, and the second restart delivers that prefix followed by what was appended in between; refutation witnesses for the unrepaired variants and for the remaining value-file defect. Which variant is in force is derived from the source text on every run; both variants are proved. Tie: for every generated workload EVERY truncation offset of the append file (all 64 residues + header) x consistent value-file cuts is loaded by the real code and by the extracted model and diffed; prefix monitor on the Go side; replays start a full node on the image.", note=NOTE_COMMON + " OS model: a file is a byte list, a write may be cut at any byte, rename/remove atomic, completed syscalls not reordered; fsync not modelled."),
 "C09": dict(technique="Coq proof (ring buffer refines log + cursors; follower applied = prefix of leader log for all schedules) + in-package ring correspondence + two-process cut/reconnect scenario",
             text="Theorems in coq/Properties/C09.v over coq/Repl (ReplicationBufferQueue model and the sync protocol model). Tie: generated push/cursor/search sequences on the real ReplicationBufferQueue vs the extracted model; a real leader and follower process behind a byte-cutting proxy, append files compared record by record.", note=NOTE_COMMON),
 "C12": dict(technique="Coq proof (invariant over all schedules of the election protocol model; order theorems for CompareAofId; quorum intersection) + correspondence on real ArbiterManager objects with the harness as network",
             text="Theorems in coq/Properties/C12.v: CompareAofId is a strict total order inside any wrap-around window; DoVote returns the maximum eligible responder for any arrival order; members with a newer log reject; for EVERY schedule (restarts, loss, duplicates, any number of candidates) under the stated guard at most one candidacy ever completes its commit phase; handlers never lower the numbers; three refutation witnesses (two winners without restart, after restart, proposal number lowered) replayed on the real code and recorded as known findings. Tie: the same generated delivery orders run on 3-5 real ArbiterManager objects (real handlers, DoVote/DoProposal/DoCommit, Save/Load) and on the extracted model, comparing every reply code and per-member state after every action.", note=NOTE_COMMON + " protobuf/TCP transport and online/offline detection are not modelled."),
 "C13": dict(technique="Coq proof (no-panic theorems for the value-operation layer, binary dispatch and text converters, panics as values) + whole-server crash search in child processes",
             text="Theorems in coq/Properties/C13.v and C15_data.v: on the repaired semantics no frame / argument list makes the modelled layers panic (refutations for the unrepaired variants selected by source-derived switches). Tie: generated and mutated byte streams in random splits against a REAL server process (no recover()), second-connection liveness probe, crash signature = top slock function of the panic stack, bisect + shrink.", note=NOTE_COMMON + " admin, subscribe, CALL handlers other than decode, KEYS/SCAN are fuzzed only."),
 "C14": dict(technique="Translator go2coq regenerates every codec definition from the source on each run + Coq round-trip / README / inlined-decoder theorems over the generated definitions + differential check of the generated definitions; text parser model with chunking-independence theorem",
             text="coq/Properties/C14.v: for 18 command/result types decode(encode m) = m under wf, encode(decode b) = b on every defined byte, README byte offsets for LOCK/UNLOCK, the server's hand-inlined decoder/encoder agree with the protocol package, variable-length parts, every result code has a text rendering — all stated over coq/Gen/GenCodecs.v / GenConsts.v which the translator rewrites from /repo on every run (unsupported syntax becomes a marker that stops the proofs). coq/Properties/C14_text.v: the incremental text parser returns the original argument list for EVERY chunking of BuildRequest/BuildResponse output, key/id normalisation, COUNT/RCOUNT conventions, rendering. The generated definitions and the text model are additionally diffed against the real Go functions on tens of thousands of inputs per run.", note=NOTE_COMMON + " Translator gen/go2coq (Go stdlib go/parser) is trusted for faithfulness of the shallow transcription and validated by the differential run."),
 "C16": dict(technique="Coq proof over a directory/file-system-mutation model of compaction + crash-point correspondence (directory snapshot after every rename/remove of the real compaction)",
             text="Theorems in coq/Properties/C16.v: what compaction writes and a later start reads back is exactly the kept records in order with their values; compaction preserves the replay result for any replay function insensitive to the records HasLock rejects; refutation witnesses for a crash between removing the inputs and renaming rewrite.aof.tmp and between the two renames (known findings, replayed by starting a node on the image). Tie: real workloads + real compaction with a directory snapshot after every file-system mutation, each compared byte for byte with the model's directory after the same mutation prefix; restart monitor on each snapshot.", note=NOTE_COMMON + " Compaction concurrent with appends is not modelled."),
 "C18": dict(technique="Coq proof over a connection-layer model on top of the engine model + correspondence on real Binary/Text server protocol objects over net.Pipe",
             text="Theorems in coq/Properties/C18.v (wills executed exactly once, in order, at close; routing of late replies by client id; refutations for the defects found). Tie: generated connection lifetimes on real protocol objects vs the extracted model.", note=NOTE_COMMON),
 "C19": dict(technique="Coq proof over an abstract per-key admission model using the regenerated client parameter conventions + runtime monitor on histories of the real Go client against a real server over TCP",
             text="Theorems in coq/Properties/C19.v: for all acquire/release sequences, Semaphore(n)/Flow(n) admit at most n, Lock at most 1, RWLock writer excludes everyone and readers exclude writers, RLock re-enters for its LockId only and needs as many unlocks as locks — over the admission rule transcribed from doLock and the parameters regenerated from client/*.go on every run. Tie: 2..64 goroutines per primitive on 1..8 connections against a real server; a monitor checks the definitely-held intervals of the client-side history against each primitive's rule.", note=NOTE_COMMON + " Request/response matching, timeouts and reconnect logic of client/slock.go are observed, not proved; schedules are the runtime's."),
 "C20": dict(technique="Coq proof (representation invariant + refinement of the segmented array deque and of the per-key queues to a plain deque / stable priority queue for all operation lists) + differential correspondence on all three Go queue types",
             text="Theorems in coq/Properties/C20.v: for all constructor parameters and all operation lists over Push/PushLeft/Pop/PopRight/Head/Tail/Len the segmented queue model returns exactly what a plain deque returns (invariant preserved, never panics); ring, priority ring, wait queue and holder queue keep FIFO / stable priority order across compaction and representation switches; refutation witnesses for Shrink, Restructuring and restructuringLong*Queue (known findings, replayed). Tie: a normalising diff proves the three Go queue types textually identical on every run; seeded operation sequences (incl. maintenance operations and holes) run on all three real types and on the extracted model comparing every return value and a full field dump.", note=NOTE_COMMON + " Iteration and maintenance operations (Resize, Rellac, Reset, Restructuring) are modelled and differential-tested but have no refinement lemma yet."),
}
# later extensions of the agent-written checks (kept apart from the original texts above)
EXTRA_TEXT = {
 "C07": " General simulation coq/Properties/C07_sim.v (C07_sim, C07_sim_two_clocks, writer / reader / stream lemmas): for every history of a stated sub-language (plain seconds-unit locks with Count 0, Rcount 0, Expried 1..65534, no waiters; any unlocks, clock advances, sweeps; any configured delay) the holds recovered from the record stream are exactly the persisted, still-live holds of the final state with deadline + 1; refutations show that the Count and Expried restrictions cannot be dropped (two recorded findings).",
 "C09": " Also: hand-over of the two mutexes in Aof.PushLock as an interleaving semantics (ring order = file order for every schedule; refuted for the swapped order; variant derived from the source text), full-transfer boundary on rotated logs (transferred ++ live stream = log; offset-only comparison refuted), with a stress run of the real PushLock path and the real sendFiles on rotated logs.",
 "C16": " Also: guard state machine of rewriteAofFiles (at most one compaction active, a request while one runs is dropped), appends never touch the compaction's inputs, busy compaction = quiescent compaction + appends at every crash prefix; workloads with renewals / re-entrancy / several compactions / restart chains; compactions parked at the crash points (hooks 200..211 committed in /repo) while requests and second compaction requests arrive; reference = a node replaying the same history without compaction.",
 "C18": " Also: failing wills (unknown database) are consumed exactly once and do not stop the drain; routing invariants over all runs (a proxy only points at an open connection that announced the client id; clients[X] is the live connection that announced X last; no frame ever reaches a stranger; a reply is dropped only when no such connection exists) for the repaired adoption (AddProxy re-points under the adopter's mutex, /repo 5b4ff31), refuted for the unguarded variant; reconnect generations and close races (hook 13) in the generator.",
 "C19": " Also coq/Properties/C19_handover.v: wait-queue model with timeouts and cancels; after a waiter times out the remaining waiters are still served by the next release (FIFO head / highest priority / all Event waiters), under two hypotheses read syntactically off server/db.go on every run (waited cleared only on an empty queue; unlock / timeout / cancel run the wake-up pass — discharged at engine level by the C04 theorems); liveness monitor on confirmed-queued waiters with mixed short / long timeouts for every primitive.",
 "C20": " Also: long-wait tables (LongWaitLockQueue / LongWaitLockFreeQueue with in-place removal, restructuring, the Len()-times-Pop() consumer) refine a sequence-with-deletions for every operation list; Len counts slots including holes, lockCount - freeCount the live locks; wait-queue re-push from the mixed inline + ring state is a stable priority sort of both parts; directed generator reaching every representation state (counted in the evidence).",
}
for _k, _v in EXTRA_TEXT.items():
    if _k in OVERRIDE:
        OVERRIDE[_k]["text"] = OVERRIDE[_k]["text"] + _v
checks, na = [], []
for pid in ALL:
    p = os.path.join(VERIF, "checks", pid + ".py")
    m = None
    import glob
    has_thm = bool(glob.glob(os.path.join(VERIF, "coq", "Properties", pid + "*.v")))
    if os.path.exists(p) and has_thm:
        if pid in OVERRIDE:
            m = OVERRIDE[pid]
        else:
            mod = importlib.import_module("checks." + pid)
            m = getattr(mod, "MANIFEST", None)
    if not m:
        na.append({"property_id": pid, "reason": "check not built yet (work in progress, see DESIGN.md section 5 for the planned theorem and tie)"})
        continue
    checks.append({
        "property_id": pid,
        "quick_cmd": "python3 tools/check.py %s --tier quick" % pid,
        "thorough_cmd": "python3 tools/check.py %s --tier thorough" % pid,
        "evidence_file": "/verif/evidence/%s.json" % pid,
        "replay_cmd_template": "python3 tools/check.py %s --replay {path}" % pid,
        "engine": m.get("engine", "coq"),
        "level_claimed": {"category": m.get("category", "proof"), "text": m["text"], "design_ref": m.get("design_ref", "DESIGN.md section 5 " + pid)},
        "level_note": m["note"],
        "technique": m["technique"],
    })
hooks = json.load(open(os.path.join(VERIF, "tools", "hooks.json")))
man = {
    "version": 1,
    "setup_cmd": "python3 tools/setup.py",
    "hooks": hooks,
    "engines": [
        {"name": "coq", "path": "/verif/coq", "serves_properties": [c["property_id"] for c in checks],
         "kind_free_text": "Coq 8.16.1 development (models + theorems), built with coq_makefile/make; translator gen/go2coq regenerates coq/Gen/*.v from /repo on every run; executable models extracted to OCaml (ocaml/*/modelrun) and diffed against Go harnesses (harness/*) built from /repo's working tree with -tags verif -overlay"},
    ],
    "checks": checks,
    "not_applicable": na,
    "notes": "All checks rebuild from /repo's working tree. known_findings.json lists recorded/fixed defects. See DESIGN.md.",
}
json.dump(man, open(os.path.join(VERIF, "MANIFEST.json"), "w"), indent=1)
print("claimed:", [c["property_id"] for c in checks])
