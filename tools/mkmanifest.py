#!/usr/bin/env python3
"""Generates MANIFEST.json from checks/*.py (each exposes MANIFEST = {...}) so the file is always schema-valid."""
import importlib, json, os, sys
HERE = os.path.dirname(os.path.abspath(__file__))
VERIF = os.path.dirname(HERE)
sys.path.insert(0, HERE); sys.path.insert(0, VERIF)

ALL = ["C%02d" % i for i in range(1, 21)]
checks, na = [], []
for pid in ALL:
    p = os.path.join(VERIF, "checks", pid + ".py")
    m = None
    if os.path.exists(p):
        mod = importlib.import_module("checks." + pid)
        m = getattr(mod, "MANIFEST", None)
    if not m:
        na.append({"property_id": pid, "reason": "check not built yet (work in progress, see DESIGN.md section 5 for the planned theorem and tie)"})
        continue
    checks.append({
        "property_id": pid,
        "quick_cmd": "python3 tools/check.py %s --tier quick" % pid,
        "thorough_cmd": "python3 tools/check.py %s --tier thorough" % pid,
        "evidence_file": "/verif/evidence/%s.json" % pid,
        "replay_cmd_template": "python3 tools/check.py %s --replay {path}" % pid,
        "engine": m.get("engine", "coq"),
        "level_claimed": {"category": m.get("category", "proof"), "text": m["text"], "design_ref": m.get("design_ref", "DESIGN.md section 5 " + pid)},
        "level_note": m["note"],
        "technique": m["technique"],
    })
hooks = json.load(open(os.path.join(VERIF, "tools", "hooks.json")))
man = {
    "version": 1,
    "setup_cmd": "python3 tools/setup.py",
    "hooks": hooks,
    "engines": [
        {"name": "coq", "path": "/verif/coq", "serves_properties": [c["property_id"] for c in checks],
         "kind_free_text": "Coq 8.16.1 development (models + theorems), built with coq_makefile/make; translator gen/go2coq regenerates coq/Gen/*.v from /repo on every run; executable models extracted to OCaml (ocaml/*/modelrun) and diffed against Go harnesses (harness/*) built from /repo's working tree with -tags verif -overlay"},
    ],
    "checks": checks,
    "not_applicable": na,
    "notes": "All checks rebuild from /repo's working tree. known_findings.json lists recorded/fixed defects. See DESIGN.md.",
}
json.dump(man, open(os.path.join(VERIF, "MANIFEST.json"), "w"), indent=1)
print("claimed:", [c["property_id"] for c in checks])
