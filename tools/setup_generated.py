#!/usr/bin/env python3
"""Run by tools/setup.py before the full Coq build: (re)generate the definitions that individual checks normally
regenerate on their own runs, so that a fresh checkout builds completely (coq/Gen/GenClient.v from gen/clientparams;
the source-derived switch files are committed with the values of the unchanged tree and are rewritten by their checks)."""
import os, sys
sys.path.insert(0, os.path.dirname(os.path.abspath(__file__)))
sys.path.insert(0, os.path.dirname(os.path.dirname(os.path.abspath(__file__))))
import vlib
from checks import C19

ctx = vlib.Ctx("setup", "quick", 1)
ok, out = C19.gen_client_params(ctx)
print("GenClient.v generated:", ok)
