#!/usr/bin/env python3
"""MANIFEST.setup_cmd: build everything once from files on disk (offline): translator output, the whole Coq
development (full .vo build), so that each check's own incremental build is fast."""
import os, sys, glob
sys.path.insert(0, os.path.dirname(os.path.abspath(__file__)))
import vlib

def main():
    ctx = vlib.Ctx("setup", "quick", 1)
    if os.path.exists(os.path.join(vlib.VERIF, "gen", "go2coq", "main.go")):
        ctx.gen()
    for extra in sorted(glob.glob(os.path.join(vlib.VERIF, "tools", "setup_*.py"))):
        rc, out, _ = vlib.sh([sys.executable, extra], cwd=vlib.VERIF, timeout=1800)
        print(out[-2000:])
    with vlib.Lock("coq"):
        vlib.coq_prepare()
        bad = vlib.forbidden_scan()
        if bad:
            print("forbidden constructs:", bad); sys.exit(1)
        rc, out, dt = vlib.sh(["make", "-j16", "-k"], cwd=vlib.COQ, timeout=3400)
        print(out[-3000:])
        print("coq build rc=%d in %.0fs" % (rc, dt))
    sys.exit(0)

main()
