#!/usr/bin/env python3
"""Monitors = executable statements of the engine properties, evaluated on IMPLEMENTATION traces (implrun output).
They are used (a) to classify a broken proof obligation / correspondence into a concrete failing history and
(b) as a sanity oracle on every run.  Each monitor returns a list of (signature, description, action index)."""
import collections

R = dict(SUCCED=0, LOCKED=5, UNLOCK=6, UNOWN=7, TIMEOUT=8, EXPRIED=9, STATE=10, ERROR=11, ACKW=12)
LOCKF = ("lockid", "depth", "ack", "refc", "timeouted", "expried", "eT", "tT", "isaof", "count", "rcount", "tflag", "req")


_LOCK_CACHE = {}


def parse_lock(tok):
    """lock descriptors repeat from snapshot to snapshot: parsed once (the monitors treat them as read-only)"""
    if tok in ("nil", "freed"):
        return None if tok == "nil" else dict(freed=True)
    d = _LOCK_CACHE.get(tok)
    if d is None:
        if len(_LOCK_CACHE) > 400000:
            _LOCK_CACHE.clear()
        d = _LOCK_CACHE[tok] = dict(zip(LOCKF, (int(x) for x in tok.split(":"))))
    return d


def parse_req(line):
    f = line.split()
    if f[0] not in ("req", "start"):
        return None
    return dict(sched=(f[0] == "start"), conn=int(f[1]), islock=(f[2] == "L"), req=int(f[3]), flag=int(f[4]), lockid=int(f[5]), key=int(f[6]), tflag=int(f[7]),
                timeout=int(f[8]), eflag=int(f[9]), expried=int(f[10]), count=int(f[11]), rcount=int(f[12]), data=f[13])


def parse_reply(ev):
    f = ev.split()
    if f[1] != "reply":
        return None
    return dict(conn=int(f[2]), req=int(f[3]), result=int(f[4]), lcount=int(f[5]), lrcount=int(f[6]), lockid=int(f[7]), count=int(f[8]),
                rcount=int(f[9]), data=f[10])


_KEY_CACHE = {}


def parse_snap(lines):
    snap = dict(keys={})
    for ln in lines:
        if ln.startswith("snap "):
            for tok in ln.split()[1:]:
                k, v = tok.split("=")
                snap[k] = int(v)
        elif ln.startswith("key "):
            kd = _KEY_CACHE.get(ln)
            if kd is not None:
                snap["keys"][kd["key"]] = kd
                continue
            head, rest = ln.split(" holders=[", 1)
            hold, rest = rest.split("]", 1)
            mid, rest = rest.split(" waiters=[", 1)
            wait, rest = rest.split("]", 1)
            hf = head.split()
            d = dict(key=int(hf[1]))
            for tok in hf[2:]:
                k, v = tok.split("=")
                d[k] = v
            d["locked"], d["waited"], d["ref"] = int(d["locked"]), int(d["waited"]), int(d["ref"])
            d["cur"] = parse_lock(d["cur"])
            d["holders"] = [parse_lock(t) for t in hold.split() if t != "|"]
            d["waiters"] = [parse_lock(t) for t in wait.split()]
            d["data"] = rest.split("data=")[1].strip() if "data=" in rest else "nil"
            d["shape"] = mid.strip()
            if len(_KEY_CACHE) > 200000:
                _KEY_CACHE.clear()
            _KEY_CACHE[ln] = d
            snap["keys"][d["key"]] = d
    return snap


def live_holders(k):
    hs = []
    if k.get("cur") and not k["cur"].get("freed"):
        hs.append(k["cur"])
    hs += [h for h in k["holders"] if h and not h.get("freed") and h["depth"] > 0]
    return hs


def live_waiters(k):
    return [w for w in k["waiters"] if w and not w.get("freed") and not w["timeouted"] and w["ack"] == 255]


def do_lock_rule(locked, cur_count, req_count):
    if locked == 0:
        return True
    if req_count == 0:
        return False
    if locked >= 0xffff:
        return locked < 0x7fffffff and cur_count == 0xffff and req_count == 0xffff
    return locked <= cur_count and locked <= req_count


class Trace:
    """aligned view of one case: actions[i] = (line, req|None, replies, aofs, snap_before, snap_after)"""

    def __init__(self, case_lines, parsed):
        self.lines = case_lines[1:-1]
        self.steps = []
        prev = dict(keys={}, now=int(case_lines[0].split()[2]))
        for i, ln in enumerate(self.lines):
            if i >= len(parsed):
                break
            _, evs, snap = parsed[i]
            s = parse_snap(snap) if snap else None
            self.steps.append(dict(line=ln, req=parse_req(ln), replies=[parse_reply(e) for e in evs if e.startswith("ev reply")],
                                   panic=[e for e in evs if e.startswith("ev panic")], aofs=[e.split() for e in evs if e.startswith("ev aof")],
                                   notes=[e.split()[2:] for e in evs if e.startswith("ev note")],
                                   before=prev, after=s))
            if s is None:
                break
            prev = s
        # a reachable freed record = corrupted engine state: what the implementation does afterwards is undefined
        # (use after free); monitors look at the history up to and including that step
        for i, st in enumerate(self.steps):
            sn = st["after"]
            if sn and (sn.get("uafw", 0) > 0 or any((h and h.get("freed")) for k in sn["keys"].values() for h in [k.get("cur")] + k["holders"] + k["waiters"])):
                self.steps = self.steps[:i + 1]
                break
        self.reqs = {}
        for st in self.steps:
            if st["req"]:
                self.reqs[(st["req"]["req"])] = st["req"]


# ------------------------------------------------------------------------------------------------ C01
def mon_c01(tr):
    """every new holder granted: holds outstanding before <= request Count and <= Count of the oldest holder
    (except the explicit unlimited branch: both Counts 0xffff and >= 0xffff holds)."""
    out = []
    for i, st in enumerate(tr.steps):
        for rp in st["replies"]:
            rq = tr.reqs.get(rp["req"])
            if not rq or not rq["islock"] or rp["result"] != 0 or rq["expried"] == 0 or rp["lrcount"] != 1:
                continue
            if rq["tflag"] & 0x4000:
                continue
            before = (rp["lcount"] - 1) % 65536
            kb = st["before"]["keys"].get(rq["key"])
            ka = st["after"]["keys"].get(rq["key"]) if st["after"] else None
            cur = kb["cur"] if kb and kb["locked"] > 0 else None
            if before == 0:
                continue
            req_count = rp["count"]
            acur = ka["cur"] if ka and ka.get("cur") and not ka["cur"].get("freed") else None
            # the oldest holder at grant time: the pre-action oldest if it is still the oldest afterwards, else the
            # holder that is oldest after the action (holds that ended inside the action were the older ones)
            if cur and not cur.get("freed") and acur and acur["req"] == cur["req"]:
                oldest = cur["count"]
            else:
                # holds ended inside the action: the oldest holder at grant time is one of the holders seen before or
                # after the action; be conservative (no false alarm): take the most permissive candidate
                cands = [h["count"] for h in (live_holders(kb) if kb else []) + (live_holders(ka) if ka else []) if h["req"] != rp["req"]]
                # holders whose command was replaced by a re-lock / update later in the same action
                cands += [r2["count"] for r2 in st["replies"] if r2["result"] == 0 and r2["req"] != rp["req"] and tr.reqs.get(r2["req"], {}).get("key") == rq["key"]]
                oldest = max(cands) if cands else 0xffff
            unlimited = (req_count == 0xffff and oldest == 0xffff and before >= 0xffff)
            if (before > req_count or before > oldest) and not unlimited:
                out.append(("count-bound:new-holder-over-count", "request %d granted as new holder with %d holds outstanding > Count %d / oldest Count %d"
                            % (rp["req"], before, req_count, oldest), i))
        # state form: after every action, for every key, the newest live holders respect the rule at the time they entered
        if st["after"]:
            for k in st["after"]["keys"].values():
                hs = live_holders(k)
                tot = sum(h["depth"] for h in hs)
                if tot != k["locked"] and not any(h.get("freed") for h in [k.get("cur")] + k["holders"] if h):
                    out.append(("count-bound:locked-counter-differs-from-holds", "key %d locked=%d but holders carry depth %d" % (k["key"], k["locked"], tot), i))
    return out


def mon_c01_history(tr):
    """C01 on the reply history alone (the way a set of clients sees it): a hold is outstanding from its SUCCED reply
    until its unlock is accepted, it expires or it is rolled back; at every grant as a new holder the outstanding
    depth on the key must be <= the request's Count (unlimited branch excepted).  Independent of the server's own
    counters, so it also sees two key managers serving one key."""
    out = []
    holds = collections.defaultdict(list)      # key -> [dict(lockid, depth, reqs:set, count)]
    for i, st in enumerate(tr.steps):
        for rp in st["replies"]:
            g = tr.reqs.get(rp["req"])
            if not g:
                continue
            key = g["key"]
            hs = holds[key]
            if g["islock"]:
                if g["tflag"] & 0x4000 or g["tflag"] & 0x1000:
                    continue
                if rp["result"] == 0 and g["expried"] > 0:
                    if rp["lrcount"] <= 1:
                        before = sum(h["depth"] for h in hs)
                        unlimited = rp["count"] == 0xffff and before >= 0xffff
                        if before > rp["count"] and not unlimited:
                            out.append(("count-bound:outstanding-holds-exceed-count", "request %d (Count %d) granted as a new holder while %d holds were outstanding on key %d according to the reply history"
                                        % (rp["req"], rp["count"], before, key), i))
                        hs.append(dict(lockid=rp["lockid"], depth=1, reqs={rp["req"]}, count=rp["count"]))
                    else:
                        for h in hs:
                            if h["lockid"] == rp["lockid"]:
                                h["depth"] = rp["lrcount"]; h["reqs"].add(rp["req"]); break
                elif rp["result"] == R["LOCKED"] and g["flag"] & 2:
                    for h in hs:
                        if h["lockid"] == rp["lockid"]:
                            h["reqs"].add(rp["req"]); break
                elif rp["result"] == R["EXPRIED"]:
                    for h in hs:
                        if rp["req"] in h["reqs"]:
                            hs.remove(h); break
            else:
                if rp["result"] == 0:
                    for h in hs:
                        if h["lockid"] == rp["lockid"]:
                            if rp["lrcount"] == 0:
                                hs.remove(h)
                            else:
                                h["depth"] = rp["lrcount"]
                            break
    return out


# ------------------------------------------------------------------------------------------------ C02
def mon_c02(tr):
    out = []
    for i, st in enumerate(tr.steps):
        rq = st["req"]
        if not rq or not st["after"] or st["panic"] or rq.get("sched"):
            continue
        kb = st["before"]["keys"].get(rq["key"], dict(locked=0, cur=None, holders=[], waiters=[]))
        ka = st["after"]["keys"].get(rq["key"], dict(locked=0, cur=None, holders=[], waiters=[]))
        hb = {h["lockid"]: h for h in reversed(live_holders(kb))} if kb.get("locked", 0) > 0 or kb.get("cur") else {}
        ha_req = {h["req"]: h for h in live_holders(ka)}
        ha = {h["lockid"]: h for h in reversed(live_holders(ka))} if ka.get("cur") or ka.get("locked", 0) > 0 else {}
        mine = [rp for rp in st["replies"] if rp["req"] == rq["req"]]
        if not rq["islock"]:
            if not mine:
                continue
            res = mine[0]["result"]
            first = rq["flag"] & 1
            cancel = rq["flag"] & 2
            owner_pending = rq["lockid"] in hb and hb[rq["lockid"]]["ack"] != 255
            if res == 0:
                target = rq["lockid"] if rq["lockid"] in hb else (live_holders(kb)[0]["lockid"] if first and live_holders(kb) else None)
                if target is None:
                    out.append(("ownership:unlock-succeeded-without-hold", "unlock %d of LockId %d SUCCED but no such hold" % (rq["req"], rq["lockid"]), i))
                    continue
                d0 = hb[target]["depth"]
                tflag = hb[target]["tflag"] if rq["lockid"] not in hb else rq["tflag"]   # unlock-first copies the hold's terms
                one_level = d0 > 1 and mine[0]["rcount"] > 0 and not (tflag & 0x10)
                # depth after (ignoring holders woken in the same action which have different LockIds, unless equal id re-queued)
                d1 = ha_req[hb[target]["req"]]["depth"] if hb[target]["req"] in ha_req else 0
                exp = d0 - 1 if one_level else 0
                if d1 != exp:
                    out.append(("ownership:depth-arithmetic", "unlock %d: depth %d -> %d, expected %d" % (rq["req"], d0, d1, exp), i))
            elif res in (R["UNLOCK"], R["UNOWN"], R["STATE"], R["ACKW"]) and not (cancel and res == R["UNLOCK"] and False):
                # refused: nothing may change on the key (holders, depths, waiters)
                sig = lambda k: ([(h["req"], h["depth"]) for h in live_holders(k)], [(w["lockid"], w["req"]) for w in live_waiters(k)])
                if sig(kb) != sig(ka):
                    out.append(("ownership:refused-unlock-changed-state", "unlock %d refused with %d but holders/waiters changed" % (rq["req"], res), i))
            elif res == R["LOCKED"] and cancel:
                wb = [(w["lockid"], w["req"]) for w in live_waiters(kb)]
                wa = [(w["lockid"], w["req"]) for w in live_waiters(ka)]
                gone = [w for w in wb if w not in wa]
                # the cancelled one must carry the LockId and be answered UNLOCK_ERROR
                canc = [rp for rp in st["replies"] if rp["req"] != rq["req"] and rp["result"] == R["UNLOCK"]]
                if not canc or canc[0]["lockid"] != rq["lockid"]:
                    # cancel of an ack-pending granted lock rolls a holder back; accept when a holder with that id vanished
                    if not (rq["lockid"] in hb and rq["lockid"] not in ha):
                        out.append(("ownership:cancel-wait-wrong-target", "cancel %d: no queued request with LockId %d answered UNLOCK_ERROR" % (rq["req"], rq["lockid"]), i))
        else:
            if not mine or rq["expried"] == 0 and mine[0]["result"] == 0 and rq["lockid"] not in hb:
                continue
            res = mine[0]["result"]
            lid = mine[0]["lockid"] if rq["flag"] & 1 else rq["lockid"]
            if lid in hb and not (rq["flag"] & 2) and hb[lid]["ack"] == 255:
                d0 = hb[lid]["depth"]
                allowed = d0 <= rq["rcount"] and d0 < 255 and not (rq["tflag"] & 0x10)
                if res == 0 and rq["expried"] > 0:
                    d1 = ha.get(lid, dict(depth=0))["depth"]
                    if not allowed or d1 != d0 + 1:
                        out.append(("ownership:reentrant-depth", "re-lock %d: depth %d -> %d with Rcount %d" % (rq["req"], d0, d1, rq["rcount"]), i))
                elif res == R["LOCKED"]:
                    d1 = ha.get(lid, dict(depth=0))["depth"]
                    if d1 != d0:
                        out.append(("ownership:refused-relock-changed-depth", "re-lock %d refused but depth %d -> %d" % (rq["req"], d0, d1), i))
                    if allowed and not (rq["flag"] & 1):
                        out.append(("ownership:reentrant-refused", "re-lock %d refused although depth %d <= Rcount %d" % (rq["req"], d0, rq["rcount"]), i))
    return out


# ------------------------------------------------------------------------------------------------ C03
def mon_c03(tr, drained=True):
    out = []
    terminal = collections.Counter()
    expired = collections.Counter()
    owner = {}
    for i, st in enumerate(tr.steps):
        if st["req"]:
            owner[st["req"]["req"]] = st["req"]["conn"]
        for rp in st["replies"]:
            if rp["req"] not in owner:
                out.append(("reply:unknown-request-id", "reply with RequestId %d never sent" % rp["req"], i))
                continue
            if rp["conn"] != owner[rp["req"]]:
                # an update / re-lock re-points the hold to the updating connection: EXPRIED goes to the request that set the terms
                out.append(("reply:wrong-connection", "reply for request %d delivered to connection %d (sent on %d)" % (rp["req"], rp["conn"], owner[rp["req"]]), i))
            if rp["result"] == R["EXPRIED"]:
                expired[rp["req"]] += 1
                if expired[rp["req"]] > 1:
                    out.append(("reply:second-expried-notice", "request %d drew two EXPRIED notices" % rp["req"], i))
                if terminal[rp["req"]] == 0 and tr.reqs[rp["req"]]["tflag"] & 0x1000 == 0:
                    out.append(("reply:expried-without-grant", "request %d expired without a terminal reply first" % rp["req"], i))
            else:
                terminal[rp["req"]] += 1
                if terminal[rp["req"]] > 1:
                    kind = st["line"].split()[0]
                    late = rp["result"] == R["LOCKED"] and kind == "ack" and tr.reqs[rp["req"]]["tflag"] & 0x1000
                    # the same defect as the real replication layer plays it: the lock's record is registered in this very
                    # step, after its hold was already timed out (TIMEOUT sent) in it, and the hold's own UNLOCK record
                    # then drops the registration through DoAckLock(false) -> LOCKED_ERROR
                    if rp["result"] == R["LOCKED"] and tr.reqs[rp["req"]]["tflag"] & 0x1000 and kind != "ack" and \
                            any(n and n[0] == "reg" and int(n[2]) == rp["req"] for n in st.get("notes", [])) and \
                            any(r2["req"] == rp["req"] and r2["result"] == R["TIMEOUT"] for r2 in st["replies"]):
                        late = True
                    out.append(("reply:second-terminal-reply" + (":locked-error-by-ack-registered-after-rollback" if late else ""),
                                "request %d answered twice (result %d)" % (rp["req"], rp["result"]), i))
    if drained and tr.steps and tr.steps[-1]["after"] is not None and not any(s["panic"] for s in tr.steps) and not ack_pending_at_end(tr):
        for rq in tr.reqs.values():
            if terminal[rq["req"]] == 0 and expired[rq["req"]] == 0:
                out.append(("reply:request-never-answered", "request %d (%s) has no terminal reply after the drain phase" % (rq["req"], "lock" if rq["islock"] else "unlock"), len(tr.steps) - 1))
    return out


# ------------------------------------------------------------------------------------------------ C04
def stuck_keys(snap):
    res = {}
    if not snap:
        return res
    for k in snap["keys"].values():
        lw = live_waiters(k)
        if not lw or any(w for w in k["waiters"] if w and w.get("freed")):
            continue
        head = lw[0]
        cur = k["cur"]
        if head["tflag"] & 0x200:
            continue    # wait-when-unlocked: the request waits on purpose
        if do_lock_rule(k["locked"], cur["count"] if cur and not cur.get("freed") else 0, head["count"]):
            res[k["key"]] = (k, head)
    return res


def mon_c04(tr):
    out = []
    for i, st in enumerate(tr.steps):
        if not st["after"]:
            continue
        if st["after"].get("thr", 0) > 0:
            continue      # not a quiescent moment: a wake-up pass may still be parked
        was = stuck_keys(st["before"]) if st["before"].get("thr", 0) == 0 else {}
        for key, (k, head) in stuck_keys(st["after"]).items():
            if key in was and was[key][1]["req"] == head["req"]:
                continue        # reported when it first appeared
            rq = st["req"]
            kind = st["line"].split()[0]
            cause = "other:" + kind
            if kind == "sweept" and any(rp["result"] == R["TIMEOUT"] and tr.reqs.get(rp["req"], {}).get("key") == key for rp in st["replies"]):
                cause = "waiter-timeout"
            elif rq and not rq["islock"] and rq["flag"] & 2 and any(rp["result"] == R["LOCKED"] for rp in st["replies"]):
                cause = "cancel-wait"
            elif rq and rq["islock"] and rq["req"] == head["req"]:
                cause = "queued-although-admissible"
            elif rq and rq["islock"] and (rq["flag"] & 2 or any(rp["req"] == rq["req"] and rp["result"] == 0 and rp["lrcount"] > 1 for rp in st["replies"])):
                cause = "update-or-relock-changed-terms"
            out.append(("wakeup:admissible-head-left-queued:" + cause, "key %d: locked=%d, head waiter (request %d LockId %d Count %d) admissible but still queued after '%s'"
                        % (key, k["locked"], head["req"], head["lockid"], head["count"], st["line"]), i))
        # order: a grant from the queue takes the first live waiter of maximal priority
        rq = st["req"]
        for rp in st["replies"]:
            g = tr.reqs.get(rp["req"])
            if not g or not g["islock"] or rp["result"] != 0 or (rq and rp["req"] == rq["req"]):
                continue
            kb = st["before"]["keys"].get(g["key"])
            if not kb:
                continue
            lw = live_waiters(kb)
            ids = [w["req"] for w in lw]
            if rp["req"] not in ids:
                continue
            pos = ids.index(rp["req"])
            prio = lambda w: w["rcount"] if w["tflag"] & 0x10 else 0
            for w in lw[:pos]:
                if prio(w) >= prio(lw[pos]) and not any(r2["req"] == w["req"] for r2 in st["replies"][:st["replies"].index(rp)]):
                    out.append(("wakeup:overtaking", "request %d granted from the queue before earlier request %d of equal or higher priority" % (rp["req"], w["req"]), i))
    return out


# ------------------------------------------------------------------------------------------------ C05 / C06
def unit_seconds(flag, v):
    if flag & 0x400:
        return v // 1000
    if flag & 0x40:
        return v * 60
    return v


def regular(tr, i0, i1):
    """between steps i0 and i1 time advanced by unit ticks, each followed by both sweeps before the next tick
    (sweeps that run to completion: a sweep started as a thread may be parked for any time between its collection and
    its per-lock calls, so the upper bounds, which presuppose a prompt sweeper, are not claimed for such a stretch)"""
    pending = None
    for st in tr.steps[i0:i1 + 1]:
        f = st["line"].split()
        if f[0] in ("startsweept", "startsweepe"):
            return False
        if f[0] == "adv":
            if f[1] != "1" or (pending is not None and pending):
                return False
            pending = {"sweept", "sweepe"}
        elif f[0] in ("sweept", "sweepe") and pending is not None:
            pending.discard(f[0])
    return True


def mon_c05(tr, upper=True):
    out = []
    queued = {}
    last_sweep = None
    for i, st in enumerate(tr.steps):
        now_b = st["before"].get("now")
        rq = st["req"]
        if rq and rq["islock"] and st["after"]:
            ka = st["after"]["keys"].get(rq["key"])
            if ka and any(w and not w.get("freed") and w["req"] == rq["req"] for w in ka["waiters"]):
                queued[rq["req"]] = (st["after"]["now"], rq, i)
            mine = [rp for rp in st["replies"] if rp["req"] == rq["req"]]
            if rq["timeout"] == 0 and mine and mine[0]["result"] == R["TIMEOUT"]:
                if ka and any(w and not w.get("freed") and w["req"] == rq["req"] for w in ka["waiters"]):
                    out.append(("timeout:zero-timeout-left-queued", "request %d with timeout 0 answered TIMEOUT but left in the queue" % rq["req"], i))
        for rp in st["replies"]:
            if rp["result"] == R["TIMEOUT"] and rp["req"] in queued:
                t0, q, i0 = queued.pop(rp["req"])
                t = st["after"]["now"] if st["after"] else now_b
                T = unit_seconds(q["tflag"], q["timeout"])
                if t - t0 < T:
                    out.append(("timeout:early", "request %d (timeout %ds) answered TIMEOUT after %ds" % (rp["req"], T, t - t0), i))
                if upper and t - t0 > T + 2 and regular(tr, i0, i):
                    out.append(("timeout:late", "request %d (timeout %ds) answered TIMEOUT after %ds (> T+2)" % (rp["req"], T, t - t0), i))
            elif rp["req"] in queued and rp["result"] != R["EXPRIED"]:
                queued.pop(rp["req"])
        # "... gets its TIMEOUT reply within [T, T+2 s]", while it happens: after a timeout sweep of a stretch that has been
        # regular (unit ticks, both sweeps, leader) ever since the request was queued, no request may still wait more than
        # 12 s past its deadline (the margin of the C06 rule; the theorem's bound for such a stretch is T + 2)
        if upper and st["line"] == "sweept" and st["after"] and not st["panic"] and queued:
            s_ = st["after"]
            if s_.get("uafw", 0) > 0 or any((h and h.get("freed")) for k in s_["keys"].values() for h in [k.get("cur")] + k["holders"] + k["waiters"]):
                queued.clear()
                continue
            for rid, (t0, q, i0) in list(queued.items()):
                T = unit_seconds(q["tflag"], q["timeout"])
                if q["tflag"] & 0x100 or s_["now"] <= t0 + T + 12:
                    continue
                queued.pop(rid)
                ka = s_["keys"].get(q["key"])
                if ka and any(w and not w.get("freed") and w["req"] == rid for w in ka["waiters"]) and regular(tr, i0, i) and all(leader_at(tr, x) for x in (i0, i)) \
                        and not any(tr.steps[x]["line"].startswith("role") for x in range(i0, i + 1)):
                    out.append(("timeout:never-answered", "request %d (timeout %ds, queued at %d) is still waiting %d s after its deadline although the timeout sweeper ran every second"
                                % (rid, T, t0, s_["now"] - t0 - T), i))
    return out


def restarted_after_collection(tr, i, g):
    """the EXPRIED notice of step i was produced by a sweep THREAD (startsweepe, parked at yield point 15 between its
    collection pass and its per-lock doExpried calls), and the hold's terms were set again (update / re-lock: the hold's
    deadline or command changed, or the request the notice names was itself answered) after that thread had started:
    doExpried does not look at the deadline again"""
    j = None
    x = i - 1
    while x >= 0 and tr.steps[x]["after"] and tr.steps[x]["after"].get("thr", 0) > 0:
        if tr.steps[x]["line"] == "startsweepe":
            j = x
        x -= 1
    if j is None:
        return False

    def hold(snap):
        k = snap["keys"].get(g["key"]) if snap else None
        for h in (live_holders(k) if k else []):
            if h["lockid"] == g["lockid"]:
                return (h["eT"], h["req"])
        return None
    for x in range(j + 1, i + 1):
        st = tr.steps[x]
        a, b = hold(st["before"]), hold(st["after"])
        if a and b and a != b:
            return True
        if any(rp["req"] == g["req"] and rp["result"] != R["EXPRIED"] for rp in st["replies"]):
            return True
    return False


def mon_c06(tr, upper=True):
    """EXPRIED under request X at time t: never before (grant / re-lock / update time of X) + E; under unit ticks no later
    than E+2 s, or E+10 s when X changed the terms of an existing hold (the wheel entry is not moved)."""
    out = []
    start = {}     # req -> (time the terms were set, step index, changed_existing_hold)
    for i, st in enumerate(tr.steps):
        rq = st["req"]
        t = st["after"]["now"] if st["after"] else st["before"].get("now")
        if rq and rq["islock"] and rq["flag"] & 2:
            start[rq["req"]] = (t, i, True)
        for rp in st["replies"]:
            g = tr.reqs.get(rp["req"])
            if not g or not g["islock"]:
                continue
            if rp["result"] == 0 and g["expried"] > 0:
                start[rp["req"]] = (t, i, rp["lrcount"] > 1)
            if rp["result"] == R["EXPRIED"] and rp["req"] in start:
                t0, i0, changed = start.pop(rp["req"])
                if g["tflag"] & 0x100:
                    continue
                if g["eflag"] & 0x4000:
                    sig = "expiry:unlimited-hold-expired"
                    if g["flag"] & 2 and g["expried"] == 65535:
                        # UpdateLockedLock treats "unlimited flag + Expried 0xffff" in an UPDATE as "keep the running deadline"
                        sig += ":update-with-unlimited-flag-and-0xffff-keeps-the-finite-deadline"
                    out.append((sig, "request %d has the unlimited-expiry flag but was ended by time" % rp["req"], i))
                    continue
                E = unit_seconds(g["eflag"], g["expried"])
                if t - t0 < E:
                    sig = "expiry:early"
                    if restarted_after_collection(tr, i, g):
                        sig += ":terms-restarted-after-the-sweeper-collected-the-hold"
                    out.append((sig, "hold of request %d (expiry %ds) ended after %ds" % (rp["req"], E, t - t0), i))
                bound = E + (10 if changed else 2)
                if upper and t - t0 > bound and regular(tr, i0, i):
                    out.append(("expiry:late", "hold of request %d (expiry %ds%s) ended after %ds" % (rp["req"], E, ", set by re-lock/update" if changed else "", t - t0), i))
    # "is ended no later than ...", while it happens: after an expiry sweep of a regular (one tick, both sweeps) stretch of
    # at least 14 ticks, no hold may be more than 12 s past its deadline
    adv_idx = [j for j, st_ in enumerate(tr.steps) if st_["line"].startswith("adv ")]
    seen_over = set()
    for i, st in enumerate(tr.steps):
        if not upper or st["line"] != "sweepe" or not st["after"] or st["panic"]:
            continue
        prev = [j for j in adv_idx if j < i][-14:]
        if len(prev) < 14 or not regular(tr, prev[0], i) or not leader_at(tr, i):
            continue
        s_ = st["after"]
        if s_.get("uafw", 0) > 0 or any((h and h.get("freed")) for k in s_["keys"].values() for h in [k.get("cur")] + k["holders"] + k["waiters"]):
            break
        for k in s_["keys"].values():
            for h in live_holders(k):
                if h["ack"] == 255 and 0 < h["eT"] < s_["now"] - 12 and h["eT"] < 2 ** 62 and h["req"] not in seen_over:
                    seen_over.add(h["req"])
                    out.append(("expiry:never-ended", "the hold of request %d on key %d (deadline %d) is still held %d s after its deadline although the expiry sweeper ran every second"
                                % (h["req"], k["key"], h["eT"], s_["now"] - h["eT"]), i))
    # "is ended no later than ...": a hold with a finite deadline must not survive the drain phase (which lets every
    # deadline pass by minutes, sweeping every second): a hold whose deadline lies more than 60 s behind the final clock
    # and is still held was forgotten by the sweeper
    last = tr.steps[-1]["after"] if tr.steps else None
    if upper and last and not any(s_["panic"] for s_ in tr.steps) and not ack_pending_at_end(tr) and leader_at_end(tr):
        corrupt = last.get("uafw", 0) > 0 or any((h and h.get("freed")) for k in last["keys"].values() for h in [k.get("cur")] + k["holders"] + k["waiters"])
        for k in ([] if corrupt else last["keys"].values()):
            for h in live_holders(k):
                if h["ack"] == 255 and 0 < h["eT"] < last["now"] - 60 and h["eT"] < 2 ** 62:
                    out.append(("expiry:never-ended", "the hold of request %d on key %d (deadline %d) is still held %d s after its deadline, at the end of the drain phase"
                                % (h["req"], k["key"], h["eT"], last["now"] - h["eT"]), len(tr.steps) - 1))
    return out


def leader_at(tr, i):
    role = 1
    for st in tr.steps[:i + 1]:
        f = st["line"].split()
        if f[0] == "role":
            role = int(f[1])
    return role == 1


def leader_at_end(tr):
    """the last role action of the history made the node leader (the drain phase does so; followers keep replicated holds)"""
    role = 1
    for st in tr.steps:
        f = st["line"].split()
        if f[0] == "role":
            role = int(f[1])
    return role == 1


def ack_pending_at_end(tr):
    """the history ends while an acknowledgement is still outstanding (an ack-lock granted from the queue by the last
    unlock round of the drain phase, after the last acknowledgement round): the state is not quiescent, the drain-phase
    rules (everything answered, everything reclaimed) do not apply -- acknowledgements always arrive eventually in the
    real system (the leader's own flush), the generated history just ended before them"""
    s = tr.steps[-1]["after"]
    return bool(s) and any(h["ack"] != 255 for k in s["keys"].values() for h in live_holders(k))


# ------------------------------------------------------------------------------------------------ C17
def mon_c17(tr, drained=True):
    out = []
    for i, st in enumerate(tr.steps):
        s = st["after"]
        if not s:
            continue
        locked = sum(k["locked"] for k in s["keys"].values())
        waiters = sum(len(live_waiters(k)) for k in s["keys"].values())
        corrupt = s.get("uafw", 0) > 0 or any((h and h.get("freed")) for k in s["keys"].values() for h in [k.get("cur")] + k["holders"] + k["waiters"])
        if corrupt:
            out.append(("counts:freed-record-reachable", "a freed lock record is reachable from a live queue / timer wheel after '%s'" % st["line"], i))
            break
        if s["LD"] != locked:
            out.append(("counts:LockedCount", "STATE LockedCount=%d but %d holds outstanding" % (s["LD"], locked), i))
        if s["W"] != waiters:
            out.append(("counts:WaitCount", "STATE WaitCount=%d but %d live queued requests" % (s["W"], waiters), i))
        if s["K"] != len(s["keys"]):
            out.append(("counts:KeyCount", "STATE KeyCount=%d but %d live keys" % (s["K"], len(s["keys"])), i))
        # "everything is reclaimed": at a quiescent moment (no request or sweep parked between two of its critical
        # sections) a key is in the table only as long as some lock record refers to it
        if s.get("thr", 0) == 0:
            for k in s["keys"].values():
                if k["ref"] == 0 and (not st["before"] or st["before"].get("thr", 0) > 0 or k["key"] not in st["before"]["keys"] or st["before"]["keys"][k["key"]]["ref"] != 0):
                    out.append(("counts:key-kept-without-any-record", "key %d stays in the key table after '%s' although no lock record refers to it (locked=%d, no holder, no queued request): it is not reclaimed until the next request names it"
                                % (k["key"], st["line"], k["locked"]), i))
        # "the keys' values are gone": a request on a key that did not exist before the step is shown no value
        rq0 = st["req"]
        if rq0 and st["before"] and rq0["key"] not in st["before"]["keys"]:
            for rp in st["replies"]:
                if rp["req"] == rq0["req"] and rp["data"] not in ("-", "nil"):
                    out.append(("counts:value-of-removed-key-visible", "request %d is the first on key %d (the key did not exist) but its reply shows the value %s" % (rq0["req"], rq0["key"], rp["data"]), i))
        for rp in st["replies"]:
            g = tr.reqs.get(rp["req"])
            newpend = [h for k in s["keys"].values() for h in live_holders(k) if h["ack"] != 255]
            if g and g["key"] in s["keys"] and rp is st["replies"][-1] and not newpend:
                if rp["lcount"] != s["keys"][g["key"]]["locked"] % 65536:
                    out.append(("counts:LCount", "reply to %d reports LCount %d, key holds %d" % (rp["req"], rp["lcount"], s["keys"][g["key"]]["locked"]), i))
    if drained and tr.steps and tr.steps[-1]["after"] and not any(s["panic"] for s in tr.steps) and not out and not ack_pending_at_end(tr):
        s = tr.steps[-1]["after"]
        if s["LD"] != 0 or s["W"] != 0 or s["K"] != 0 or s["keys"]:
            out.append(("counts:not-zero-after-drain", "after the drain phase LockedCount=%d WaitCount=%d KeyCount=%d keys=%s" % (s["LD"], s["W"], s["K"], list(s["keys"])), len(tr.steps) - 1))
    return out


def mon_c15(tr):
    """every reply carries the value from immediately before the operation; a refused request leaves the value unchanged"""
    out = []
    for i, st in enumerate(tr.steps):
        rq = st["req"]
        if not rq or not st["after"] or st["panic"] or rq.get("sched"):
            continue
        kb = st["before"]["keys"].get(rq["key"])
        ka = st["after"]["keys"].get(rq["key"])
        vb = kb["data"] if kb else "nil"
        va = ka["data"] if ka else "nil"
        mine = [rp for rp in st["replies"] if rp["req"] == rq["req"]]
        if not mine:
            continue
        rp = mine[0]
        shown = "nil" if rp["data"] == "-" else rp["data"]
        before_visible = "nil" if vb == "nil" or vb.split("/")[1] == "1" else vb.split("/")[0]
        if rp is st["replies"][0] and shown != before_visible and not (rq["islock"] is False and rq["flag"] & 2):
            # asynchronous grants in the same action may have run first only when the request itself was queued
            # C15 speaks about the value "while a key is held": the concurrent-check pre-check of a wait-when-unlocked
            # probe on a FREE key (whose manager only survives because a released record is still referenced) passes nil
            # as the reply's value (db.go:2000; Coq: C15_lock_reply_exceptions_real) -- outside the property, not judged
            free_probe = rq["islock"] and rq["flag"] & 8 and rq["timeout"] == 0 and rq["tflag"] & 0x200 and rp["result"] == R["TIMEOUT"] \
                and shown == "nil" and (kb is None or kb["locked"] == 0)
            if not free_probe:
                out.append(("value:reply-not-pre-state-value", "request %d answered with value %s but the value before the operation was %s" % (rq["req"], shown, before_visible), i))
        refused = rp["result"] in (R["TIMEOUT"], R["UNLOCK"], R["UNOWN"], R["STATE"], R["ACKW"]) or (rp["result"] == R["LOCKED"] and not rq["flag"] & 2 and rq["islock"])
        if refused and len(st["replies"]) == 1 and ka is not None and kb is not None and va.split("/")[0] != vb.split("/")[0]:
            out.append(("value:refused-request-changed-value", "request %d refused with %d but the value changed %s -> %s" % (rq["req"], rp["result"], vb, va), i))
    return out


def mon_c10(tr):
    """a non-leader never grants, queues or releases anything in answer to a client (requests without the from-AOF
    flag): STATE_ERROR (or the concurrent-check TIMEOUT) and nothing changes; it does not end a replicated hold on
    its own clock before deadline + 300 s."""
    out = []
    leader = True
    # an unreferenced, empty manager (just created by a parked request) may be reclaimed by a refusal: not a state change
    keysig = lambda s: {k: ([(h["req"], h["depth"]) for h in live_holders(v)], [w["req"] for w in live_waiters(v)], v["locked"], v["data"].split("/")[0])
                        for k, v in s["keys"].items() if live_holders(v) or live_waiters(v) or v["locked"] or v["data"] != "nil"}
    for i, st in enumerate(tr.steps):
        f = st["line"].split()
        if f[0] == "role":
            leader = f[1] == "1"
            continue
        if f[0] in ("start", "resume", "drain"):
            continue        # scheduled threads may have passed the role check before a role change: judged by the correspondence
        rq = st["req"]
        if not leader and st["after"]:
            if rq and not rq["flag"] & 4:
                mine = [rp for rp in st["replies"] if rp["req"] == rq["req"]]
                ok_pre = rq["islock"] and rq["flag"] & 8 and rq["timeout"] == 0
                if not mine or not (mine[0]["result"] == R["STATE"] or (mine[0]["result"] == R["UNLOCK"] and rq["key"] not in st["before"]["keys"]) or (ok_pre and mine[0]["result"] == R["TIMEOUT"])):
                    out.append(("role:non-leader-answered-client-request", "non-leader answered request %d with %s" % (rq["req"], mine[0]["result"] if mine else "nothing"), i))
                if len(st["replies"]) > 1 or keysig(st["before"]) != keysig(st["after"]):
                    out.append(("role:non-leader-changed-state-for-client", "request %d on a non-leader changed holds/queues/values or produced other replies" % rq["req"], i))
            for rp in st["replies"]:
                if rp["result"] == R["EXPRIED"]:
                    g = tr.reqs.get(rp["req"])
                    kb = st["before"]["keys"].get(g["key"]) if g else None
                    h = [h for h in (live_holders(kb) if kb else []) if h["req"] == rp["req"]]
                    if h and h[0]["isaof"]:
                        out.append(("role:follower-expired-replicated-hold", "a non-leader ended the replicated hold of request %d on its own clock" % rp["req"], i))
    return out


def mon_c11(tr):
    """require-ack locks: SUCCED only through an acknowledgement; LOCK_ACK_WAITING meanwhile; failure / timeout /
    demotion => error reply, hold removed."""
    out = []
    pending = {}      # req -> step index of the grant
    granted_at = {}   # req -> value of the key around the grant of a pending ack-lock
    cfg = 1
    seen = collections.defaultdict(list)     # registration index -> [(kind, ok)]
    regreq = {}       # registration index -> RequestId of the lock command the record was pushed for (harness note)
    ids_sent = set()  # RequestIds of the request lines so far
    for i, st in enumerate(tr.steps):
        kind = st["line"].split()[0]
        f = st["line"].split()
        if st["req"]:
            # root cause: the ack tables are keyed by RequestId alone -- an ack-lock request re-using the RequestId of an
            # ack-lock whose acknowledgement is still pending is refused at registration and its UNLOCK record then
            # drops the OTHER request's registration (and frees its own lock under the timeout wheel)
            q = st["req"]["req"]
            if q in ids_sent and st["req"]["islock"] and st["req"]["tflag"] & 0x1000 and \
                    any(h["req"] == q and h["ack"] != 255 for k in st["before"]["keys"].values() for h in live_holders(k)) and \
                    any(n and n[0] == "reg" and int(n[2]) == q for n in st.get("notes", [])):
                out.append(("ack:request-id-registered-twice", "ack-lock request re-uses RequestId %d while the ack-lock that owns it is still waiting for its acknowledgement: registration refused, and the refused lock's UNLOCK record drops the first request's registration" % q, i))
            ids_sent.add(q)
        if kind == "ackcfg":
            cfg = int(f[1])
        if kind == "ack":
            idx = int(f[1])
            seen[idx].append((f[3] if len(f) > 3 else "aofed", f[2] == "1"))
            # "reported SUCCED only after ITS record has been acknowledged": an acknowledgement event addressed to
            # registration idx may complete (or fail) only the request that registration was made for.  A hold that was
            # acknowledgement-pending before the step and is answered by it must be the one registered under idx
            # (requests served by the wake-up pass of a failed acknowledgement were not pending holds before).
            pend_before = set(h["req"] for k in st["before"]["keys"].values() for h in live_holders(k) if h["ack"] != 255)
            for rp in st["replies"]:
                g = tr.reqs.get(rp["req"])
                if g and g["islock"] and g["tflag"] & 0x1000 and rp["req"] in pend_before and regreq.get(idx) != rp["req"]:
                    if rp["result"] == 0:
                        out.append(("ack:succed-by-acknowledgement-of-another-registration",
                                    "ack-lock %d was reported SUCCED by an acknowledgement event addressed to registration %d, which was made for request %s: no acknowledgement of its own record was needed" % (rp["req"], idx, regreq.get(idx, "none")), i))
                    else:
                        out.append(("ack:answered-by-acknowledgement-of-another-registration",
                                    "pending ack-lock %d was answered %d by an acknowledgement event addressed to registration %d, which was made for request %s" % (rp["req"], rp["result"], idx, regreq.get(idx, "none")), i))
            for rp in st["replies"]:
                g = tr.reqs.get(rp["req"])
                if g and g["islock"] and g["tflag"] & 0x1000 and rp["result"] == 0:
                    ev = seen[idx]
                    flushed = any(k == "aofed" and ok for k, ok in ev)
                    followers = sum(1 for k, ok in ev if k == "acked" and ok)
                    if cfg <= 1:
                        pass        # no follower is required: any acknowledgement event is the leader's own flush
                    elif not flushed:
                        out.append(("ack:succed-before-own-log-flush", "ack-lock %d reported SUCCED after %d follower acknowledgement(s) but before the leader's own log flush (ackCount %d)" % (rp["req"], followers, cfg), i))
                    elif followers < cfg - 1:
                        out.append(("ack:succed-with-too-few-follower-acks", "ack-lock %d reported SUCCED with %d of %d follower acknowledgements" % (rp["req"], followers, cfg - 1), i))
        for n in st.get("notes", []):
            if n and n[0] == "reg":
                regreq[int(n[1])] = int(n[2])
        rq = st["req"]
        if st["panic"] or not st["after"]:
            break
        # pending set from the snapshot: holders with ack != 255
        now_pending = {}
        for k in st["after"]["keys"].values():
            for h in live_holders(k):
                if h["ack"] != 255:
                    now_pending[h["req"]] = (k["key"], h["lockid"])
        for rp in st["replies"]:
            g = tr.reqs.get(rp["req"])
            if not g or not g["islock"] or not g["tflag"] & 0x1000 or g["flag"] & 4:
                continue
            if rp["result"] == 0 and kind == "req" and rp["lrcount"] > 1 and g["expried"] > 0:
                out.append(("ack:reentrant-relock-answered-before-acknowledgement", "re-entrant re-lock %d carrying require-ack answered SUCCED at once (its record is acknowledged later)" % rp["req"], i))
                continue
            # the update flavour of the same root cause: an update (flag 0x02) carrying require-ack is answered at once
            # (LOCKED_ERROR is the update's regular answer) while its UPDATED record(s) are registered for acknowledgement
            if rp["result"] == R["LOCKED"] and kind == "req" and g["flag"] & 2 and rq and rq["req"] == rp["req"] and \
                    any(n and n[0] == "reg" and int(n[2]) == rp["req"] for n in st.get("notes", [])):
                out.append(("ack:reentrant-relock-answered-before-acknowledgement", "update %d carrying require-ack answered at once while its UPDATED record is registered for acknowledgement" % rp["req"], i))
                continue
            if rp["result"] == 0 and kind == "req" and g["expried"] > 0 and rp["lrcount"] == 1:
                ka = st["after"]["keys"].get(g["key"])
                h = [h for h in (live_holders(ka) if ka else []) if h["req"] == rp["req"]]
                if h and h[0]["ack"] != 255:
                    out.append(("ack:answered-succed-but-left-ack-pending", "ack-lock %d was answered SUCCED at once (never-persist mode, own flag or inherited from the oldest holder) but its hold stays in the acknowledgement-pending state: it can never be unlocked" % rp["req"], i))
                    continue
            if g["eflag"] & 0x200 or g["expried"] == 0:
                continue        # never-persisted holds / value probes cannot be acknowledged: answered at once by design
            if rp["result"] == 0 and kind == "req":
                if rp["lrcount"] > 1:
                    out.append(("ack:reentrant-relock-answered-before-acknowledgement", "re-entrant re-lock %d carrying require-ack answered SUCCED at once (its record is acknowledged later)" % rp["req"], i))
                elif rq and rq["req"] == rp["req"] or True:
                    out.append(("ack:succed-without-acknowledgement", "ack-lock %d reported SUCCED by a request step, not by an acknowledgement" % rp["req"], i))
        # requests naming a pending LockId
        if rq and kind == "req":
            kb = st["before"]["keys"].get(rq["key"])
            if kb:
                pend = [h for h in live_holders(kb) if h["ack"] != 255 and h["lockid"] == rq["lockid"]]
                first = [h for h in live_holders(kb)][:1]
                if pend and first and (first[0]["lockid"] == rq["lockid"] or pend[0] is first[0] or True):
                    mine = [rp for rp in st["replies"] if rp["req"] == rq["req"]]
                    # a lock request carrying the show flag addresses the key's current holder whatever LockId it names
                    # (db.go: command.LockId = currentLock.command.LockId); without the update flag it is a pure probe
                    eff = rq["lockid"]
                    if rq["islock"] and rq["flag"] & 1 and kb["locked"] > 0 and kb.get("cur") and not kb["cur"].get("freed"):
                        eff = kb["cur"]["lockid"]
                    target_is_pending = get_locked(kb, eff) is not None and get_locked(kb, eff)["ack"] != 255
                    if target_is_pending and not (rq["islock"] and rq["flag"] & 1 and not rq["flag"] & 2) and not (not rq["islock"] and False):
                        if mine and mine[0]["result"] != R["ACKW"] and not (rq["islock"] and rq["flag"] & 8 and rq["timeout"] == 0 and mine[0]["result"] == R["TIMEOUT"]):
                            out.append(("ack:pending-lockid-not-answered-ack-waiting", "request %d names a LockId whose acknowledgement is pending but was answered %d" % (rq["req"], mine[0]["result"]), i))
        # ---- "any value change it made is undone": an ack-lock that carried a value operation and ends with an error
        # (negative acknowledgement, ack timeout) must leave the value the key had before its grant, provided nothing
        # else changed the value meanwhile
        for rq_id, (kk, lid) in now_pending.items():
            if rq_id not in pending and rq_id not in granted_at:
                kb0 = st["before"]["keys"].get(kk)
                ka0 = st["after"]["keys"].get(kk)
                # the value before the step is the value before the grant only when nothing else in the step touched it:
                # a fresh grant by the request itself, or a grant from the queue in a step whose own request carries no
                # value operation and which serves no other value-carrying request of the key
                own = st["req"] is not None and st["req"]["req"] == rq_id
                quiet = (st["req"] is None or st["req"]["data"] in ("-", "") or st["req"]["key"] != kk) and \
                    not [rp for rp in st["replies"] if rp["req"] != rq_id and tr.reqs.get(rp["req"], {}).get("key") == kk and tr.reqs.get(rp["req"], {}).get("data") not in ("-", "", None)] and \
                    not [x for x, (k2, _) in now_pending.items() if k2 == kk and x != rq_id and x not in pending]
                granted_at[rq_id] = dict(key=kk, before=kb0["data"] if kb0 else "nil", last=ka0["data"] if ka0 else "nil", disturbed=not (own or quiet))
        for rq_id, gr in list(granted_at.items()):
            ka0 = st["after"]["keys"].get(gr["key"])
            cur = ka0["data"] if ka0 else "nil"
            if rq_id in now_pending:
                if cur != gr["last"]:
                    gr["disturbed"] = True
                gr["last"] = cur
                continue
            # left the pending state in this step
            del granted_at[rq_id]
            g = tr.reqs.get(rq_id)
            mine = [rp for rp in st["replies"] if rp["req"] == rq_id]
            # the failure paths of the property: negative acknowledgement (ERROR) and ack timeout (TIMEOUT)
            if not g or g["data"] in ("-", "") or not mine or mine[-1]["result"] not in (R["TIMEOUT"], R["ERROR"]) or gr["disturbed"]:
                continue
            if any(rp["req"] == rq_id and rp["result"] == 0 for st0 in tr.steps[:i + 1] for rp in st0["replies"]):
                continue        # it had been reported SUCCED before (a recorded defect of its own): no rollback is due
            others = [x for x, (k2, _) in list(pending.items()) + list(now_pending.items()) if k2 == gr["key"] and x != rq_id]
            if others or (st["req"] and st["req"]["req"] != rq_id and st["req"]["key"] == gr["key"] and st["req"]["data"] not in ("-", "")):
                continue        # another pending value operation / a value-carrying request in the same step: not attributable
            if [rp for rp in st["replies"] if rp["req"] != rq_id and rp["result"] in (R["TIMEOUT"], R["ERROR"]) and
                    tr.reqs.get(rp["req"], {}).get("key") == gr["key"] and tr.reqs.get(rp["req"], {}).get("tflag", 0) & 0x1000 and
                    tr.reqs.get(rp["req"], {}).get("data") not in ("-", "", None)]:
                continue        # another value-carrying ack-lock of the key was granted from the queue AND rolled back within this same step: the value left behind is its roll-back's, not attributable to this request
            if not ka0 or ka0["locked"] == 0:
                continue        # nobody holds the key any more: the value went with the last hold
            # requests served by the wake-up pass of the same step report the value from immediately before their own
            # operation, i.e. the value right after the rollback
            served = [rp for rp in st["replies"] if rp["req"] != rq_id and rp["result"] == 0 and tr.reqs.get(rp["req"], {}).get("key") == gr["key"]]
            my_pos = max(j for j, rp in enumerate(st["replies"]) if rp["req"] == rq_id)
            if any(j < my_pos for j, rp in enumerate(st["replies"]) if rp in served):
                continue        # a request of the key was served BEFORE this roll-back in the same step (another timeout's wake-up pass): not attributable
            if served:
                cur = "nil" if served[0]["data"] in ("-", "nil") else served[0]["data"] + "/0/0"
            if strip_aof(cur) != strip_aof(gr["before"]):
                out.append(("ack:value-not-rolled-back:%s:%s" % (data_op(g["data"]), data_kind(gr["before"])),
                            "ack-lock %d (%s on a key whose value was %s) ended with result %d but the key's value is %s instead of the value before its grant %s"
                            % (rq_id, data_op(g["data"]), data_kind(gr["before"]), mine[-1]["result"], cur, gr["before"]), i))
        pending = now_pending
    return out


DATA_OPS = {0: "SET", 1: "UNSET", 2: "INCR", 3: "APPEND", 4: "SHIFT", 5: "EXECUTE", 6: "PIPELINE", 7: "PUSH", 8: "POP"}


def data_op(d):
    """operation of a request's value frame ('x' + hex)"""
    try:
        b = bytes.fromhex(d[1:] if d.startswith("x") else d)
        return DATA_OPS.get(b[4] & 0x3f, "OP%d" % (b[4] & 0x3f))
    except Exception:
        return "?"


def data_kind(snapdata):
    """kind of a stored value as printed in the snapshots: hex/commandType/isAof"""
    if snapdata == "nil":
        return "none"
    f = snapdata.split("/")
    if len(f) > 1 and f[1] == "1":
        return "unset"
    try:
        b = bytes.fromhex(f[0][1:] if f[0].startswith("x") else f[0])
    except Exception:
        return "?"
    fl = b[5] if len(b) > 5 else 0
    k = "number" if fl & 1 else "array" if fl & 2 else "kv" if fl & 4 else "bytes"
    return k + ("+props" if fl & 0x10 else "")


def strip_aof(snapdata):
    """the value a client can observe: the frame bytes; 'no value' and the UNSET marker are the same to a client; the
    stored operation type and the persisted flag are bookkeeping"""
    f = snapdata.split("/")
    if snapdata == "nil" or (len(f) > 1 and f[1] == "1"):
        return "none"
    return f[0]


def get_locked(k, lockid):
    """LockManager.GetLockedLock on a snapshot: current first, then the holder queue"""
    for h in live_holders(k):
        if h["lockid"] == lockid:
            return h
    return None


def mon_panic(tr):
    out = []
    for i, st in enumerate(tr.steps):
        for p in st["panic"]:
            out.append(("panic:" + p.split()[2].split("/")[-1], "server code panicked: " + p, i))
    return out


MONITORS = dict(C01H=mon_c01_history, C11=mon_c11, C10=mon_c10, C15=mon_c15, C01=mon_c01, C02=mon_c02, C03=mon_c03, C04=mon_c04, C05=mon_c05, C06=mon_c06, C17=mon_c17, PANIC=mon_panic)
