#!/usr/bin/env python3
"""Confirm a seeded change written by a sub-agent and store it under /verif/seeded/<id>/:
     mutconfirm.py <mutant_dir> <id> <property> [--detected-by C01,C04] [--missed-by C20] [--needs "..."]
In a scratch worktree of /repo HEAD (removed afterwards):
  1. the demonstration passes on the clean tree;
  2. the change applies (git apply, else patch -F3) and `go build ./...` succeeds;
  3. the pinned suite (85 tests of ./server ./protocol, /root/.vp/BASELINE.json) passes with the change, unedited;
  4. the demonstration fails with the change.
Only when all four hold is seeded/<id>/ written: patch.diff (re-taken with `git diff` against the current HEAD so that
`git -C /repo apply` works), the demonstration files, README.md of the author, meta.json."""
import json, os, shutil, subprocess, sys, time

def sh(cmd, cwd=None, timeout=3600):
    e = dict(os.environ); e.update(dict(GOFLAGS="-mod=mod", GOPROXY="off", GOSUMDB="off", GOTOOLCHAIN="local"))
    p = subprocess.run(cmd, cwd=cwd, shell=isinstance(cmd, str), stdout=subprocess.PIPE, stderr=subprocess.STDOUT, timeout=timeout, env=e)
    return p.returncode, p.stdout.decode("utf-8", "replace")

def opt(name, default=""):
    return sys.argv[sys.argv.index(name) + 1] if name in sys.argv else default

def needs_from_readme(mdir):
    """the author's own words: the README paragraph / section on what is needed to manifest the change"""
    p = os.path.join(mdir, "README.md")
    if not os.path.exists(p):
        return ""
    lines = open(p, errors="replace").read().splitlines()
    import re
    for i, l in enumerate(lines):
        if re.search(r"need(ed|s)?\b.*manifest|to manifest", l, re.I):
            out = [re.sub(r"^[#* ]+", "", l).strip()]
            for m in lines[i + 1:i + 25]:
                if m.startswith("#") or (m.startswith("**") and out and len(out) > 2):
                    break
                if m.strip():
                    out.append(m.strip())
            return " ".join(out)[:1500]
    return ""

def suite(wt):
    base = json.load(open("/root/.vp/BASELINE.json"))["stable_pass"]
    rc, out = sh("go test -json -vet=off -count=1 -timeout 25m ./...", cwd=wt, timeout=2000)
    passed = set()
    for l in out.splitlines():
        try:
            d = json.loads(l)
        except Exception:
            continue
        if d.get("Action") == "pass" and d.get("Test"):
            passed.add(d["Package"] + "::" + d["Test"])
    missing = [t for t in base if t not in passed]
    return missing

def main():
    mdir = os.path.abspath(sys.argv[1]); mid = sys.argv[2]; prop = sys.argv[3]
    wt = "/tmp/mutconfirm-%d" % os.getpid()
    res = dict(id=mid, property=prop, ok=False)
    try:
        rc, out = sh(["git", "-C", "/repo", "worktree", "add", "--detach", wt, "HEAD"])
        head = sh(["git", "-C", "/repo", "rev-parse", "--short", "HEAD"])[1].strip()
        sub = "out/" + os.path.basename(mdir)
        shutil.copytree(mdir, os.path.join(wt, sub), ignore=shutil.ignore_patterns("detected_by_*"))
        rc0, o0 = sh("sh %s/run.sh" % sub, cwd=wt, timeout=1200)
        res["demo_clean_rc"] = rc0
        rc, out = sh(["git", "apply", os.path.join(mdir, "patch.diff")], cwd=wt)
        if rc != 0:
            rc, out = sh("patch -p1 -F3 --no-backup-if-mismatch < %s" % os.path.join(mdir, "patch.diff"), cwd=wt)
        if rc != 0:
            res["error"] = "patch does not apply: " + out[-400:]; return res
        rc, diff = sh("git diff -- . ':!out'", cwd=wt)
        rcb, ob = sh("go build ./...", cwd=wt)
        res["builds"] = rcb == 0
        rc1, o1 = sh("sh %s/run.sh" % sub, cwd=wt, timeout=1200)
        res["demo_patched_rc"] = rc1
        sh("git clean -fdq -e out", cwd=wt)     # files the demonstration dropped into the packages
        sh("rm -rf server/demo_test.go server/*_demo_test.go", cwd=wt)
        missing = suite(wt)
        res["suite_missing"] = missing[:5]
        res["ok"] = rc0 == 0 and rcb == 0 and rc1 != 0 and not missing
        if res["ok"]:
            dst = os.path.join("/verif/seeded", mid)
            shutil.rmtree(dst, ignore_errors=True)
            os.makedirs(dst)
            open(os.path.join(dst, "patch.diff"), "w").write(diff)
            demo = os.path.join(dst, "demonstration"); os.makedirs(demo)
            for f in os.listdir(mdir):
                p = os.path.join(mdir, f)
                if f in ("patch.diff",) or f.startswith("detected_by_") or f.endswith(".out"):
                    continue
                if os.path.isdir(p):
                    shutil.copytree(p, os.path.join(demo, f))
                else:
                    shutil.copy(p, os.path.join(demo, f))
            meta = dict(id=mid, property=prop, repo_head=head,
                        needs_to_manifest=opt("--needs") or needs_from_readme(mdir),
                        confirmed=dict(when=time.strftime("%Y-%m-%dT%H:%M:%SZ", time.gmtime()),
                                       how="tools/mutconfirm.py in a scratch worktree of /repo HEAD: demonstration on the clean tree rc=%d; change applied, go build ./... ok; pinned suite (85 tests, go test -json -vet=off ./...) all pass with the change; demonstration with the change rc=%d" % (rc0, rc1),
                                       demonstration_tail_with_change=o1[-500:]),
                        run_demonstration="copy demonstration/ to <worktree>/out/%s and run `sh out/%s/run.sh` from the worktree root" % (os.path.basename(mdir), os.path.basename(mdir)),
                        detected_by=[x for x in opt("--detected-by").split(",") if x],
                        missed_by=[x for x in opt("--missed-by").split(",") if x])
            json.dump(meta, open(os.path.join(dst, "meta.json"), "w"), indent=1)
    finally:
        sh(["git", "-C", "/repo", "worktree", "remove", "--force", wt])
        shutil.rmtree(wt, ignore_errors=True)
    return res

if __name__ == "__main__":
    print("MUTCONFIRM " + json.dumps(main()))
