#!/usr/bin/env python3
"""Real-time scenarios for the millisecond wheels (outside the model): runs `implrun -rt` and checks the property
statements C05/C06/C17 claim for millisecond waits: never early (1 ms timestamp granularity), eventual firing within
3 s, reclamation.  Returns a list of (signature, description, replay)."""
import subprocess

EXP = {100: 100, 101: 1500, 102: 2999, 103: 3000, 104: 3001, 105: 4200}
TMO = {300: 100, 301: 2999, 302: 3000, 303: 4200}


def run(impl, which=("C05", "C06", "C17")):
    p = subprocess.run([impl, "-rt"], stdout=subprocess.PIPE, stderr=subprocess.PIPE, timeout=120)
    txt = p.stdout.decode("utf-8", "replace")
    out = []
    rep = {}
    state = None
    for ln in txt.splitlines():
        f = ln.split()
        if f[:2] == ["rt", "reply"]:
            rep.setdefault(int(f[2]), []).append((int(f[3]), int(f[6].split("=")[1])))
        if f[:2] == ["rt", "state"]:
            state = dict(x.split("=") for x in f[2:])
    if p.returncode != 0 or state is None:
        out.append(("realtime:run-failed", "implrun -rt did not finish: rc=%s %s" % (p.returncode, p.stderr.decode()[-300:]), {"output": txt[-2000:]}))
        return out, txt
    if "C06" in which:
        for rid, e in EXP.items():
            ex = [t for r, t in rep.get(rid, []) if r == 9]
            if not ex:
                out.append(("expiry:ms-hold-never-expired", "hold with %d ms expiry drew no EXPRIED within 9 s" % e, {"request": rid, "output": txt}))
            elif ex[0] < e - 2 and e >= 3000 and ex[0] >= (e // 1000) * 1000 - 2:
                out.append(("expiry:ms-term-rounded-down-to-seconds", "hold with %d ms expiry ended after %d ms: terms >= 3000 ms are handed to the second wheel with deadline start-second + E/1000 + 1, which is up to E mod 1000 ms early when the hold started late in its second" % (e, ex[0]), {"request": rid, "output": txt}))
            elif ex[0] < e - 2:
                out.append(("expiry:ms-early", "hold with %d ms expiry ended after %d ms" % (e, ex[0]), {"request": rid, "output": txt}))
            elif ex[0] > e + 3000:
                out.append(("expiry:ms-late", "hold with %d ms expiry ended after %d ms" % (e, ex[0]), {"request": rid, "output": txt}))
        ex = [t for r, t in rep.get(401, []) if r == 9]
        if not ex or ex[0] < 298:
            out.append(("expiry:ms-relock-from-long-table", "re-lock with 300 ms expiry of a hold in the long table: EXPRIED %s" % (ex or "never"), {"output": txt}))
    if "C05" in which:
        for rid, t in TMO.items():
            ex = [x for r, x in rep.get(rid, []) if r == 8]
            if not ex:
                out.append(("timeout:ms-wait-never-answered", "wait with %d ms timeout drew no TIMEOUT within 9 s" % t, {"request": rid, "output": txt}))
            elif ex[0] < t - 2 and t >= 3000 and ex[0] >= (t // 1000) * 1000 - 2:
                out.append(("timeout:ms-term-rounded-down-to-seconds", "wait with %d ms timeout answered after %d ms: terms >= 3000 ms are handed to the second wheel with deadline start-second + T/1000 + 1, up to T mod 1000 ms early" % (t, ex[0]), {"request": rid, "output": txt}))
            elif ex[0] < t - 2:
                out.append(("timeout:ms-early", "wait with %d ms timeout answered after %d ms" % (t, ex[0]), {"request": rid, "output": txt}))
            elif ex[0] > t + 3000:
                out.append(("timeout:ms-late", "wait with %d ms timeout answered after %d ms" % (t, ex[0]), {"request": rid, "output": txt}))
    if "C17" in which:
        if state != {"K": "0", "LD": "0", "W": "0"}:
            out.append(("counts:ms-not-reclaimed", "after every millisecond hold expired and every wait was answered STATE shows %s" % state, {"output": txt}))
    return out, txt
