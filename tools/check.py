#!/usr/bin/env python3
"""Entry point:  tools/check.py <Cxx> [--tier quick|thorough] [--replay file]"""
import argparse, importlib, os, sys, traceback
sys.path.insert(0, os.path.dirname(os.path.abspath(__file__)))
sys.path.insert(0, os.path.dirname(os.path.dirname(os.path.abspath(__file__))))
import vlib


def main():
    ap = argparse.ArgumentParser()
    ap.add_argument("pid")
    ap.add_argument("--tier", default=os.environ.get("VERIF_TIER", "quick"))
    ap.add_argument("--replay", default=None)
    a = ap.parse_args()
    seed = int(os.environ.get("VERIF_SEED", "1") or "1")
    ctx = vlib.Ctx(a.pid, a.tier, seed, keep_replays=bool(a.replay))
    ctx.replay = a.replay
    mod = importlib.import_module("checks." + a.pid)
    try:
        rc = mod.run(ctx)
    except vlib.BuildError as e:
        # a harness that no longer builds against the current tree: the tie is broken
        ctx.obligation("harness builds against /repo's working tree", False, str(e)[-1500:])
        ctx.violation("build:" + a.pid, "harness/model build failed: the correspondence can no longer be checked",
                      {"broken": "build", "detail": str(e)[-3000:]}, found_input=False)
        rc = ctx.finish({"evaluations": 0, "distinct_nontrivial": 0, "rule": "build failed", "samples": [str(e)[-500:]]})
    sys.exit(rc)


if __name__ == "__main__":
    main()
