#!/bin/sh
# soak.sh <out> <seeds> <pid>... : run quick checks under several seeds on the unchanged tree; any VIOLATION is a false alarm to investigate
OUT=$1; SEEDS=$2; shift 2
for pid in "$@"; do for s in $SEEDS; do
  VERIF_SEED=$s timeout 1500 python3 /verif/tools/check.py $pid > /tmp/soak.$pid.$s.log 2>&1; rc=$?; mkdir -p /tmp/soakrep; cp /verif/replays/$pid-* /tmp/soakrep/ 2>/dev/null
  echo "$pid seed=$s rc=$rc $(grep -c VIOLATION /tmp/soak.$pid.$s.log) $(grep '^# ' /tmp/soak.$pid.$s.log | head -2 | cut -c1-150 | tr '\n' '|')" >> $OUT
done; done
