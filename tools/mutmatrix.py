#!/usr/bin/env python3
"""Detection matrix of the seeded changes: for every seeded/<id>/ run the quick tier of the property's own check (and of
the related checks listed in EXTRA) against a scratch worktree of /repo HEAD with the change applied (tools/muteval.py:
isolated copy of /verif, VERIF_REPO), and record the outcome in seeded/<id>/meta.json:
    detection: {check: "input" | "tie" | "missed"}     input = a concrete failing input was printed,
                                                       tie   = only `no-failing-input-found` reports
  mutmatrix.py [id ...] [-j N]"""
import concurrent.futures, glob, json, os, re, subprocess, sys, time

V = os.path.dirname(os.path.dirname(os.path.abspath(__file__)))
EXTRA = {"C20": ["C04"], "C13": ["C14"], "C03": ["C18", "C05"], "C15": ["C13"], "C19": ["C04", "C02", "C14"], "C02": ["C01"], "C07": ["C08"], "C17": ["C15", "C04"],
         "C06": ["C17"], "C05": ["C17"]}


def one(mid):
    d = os.path.join(V, "seeded", mid)
    meta = json.load(open(os.path.join(d, "meta.json")))
    prop = meta["property"]
    checks = [prop] + EXTRA.get(prop, [])
    import shutil
    for old in glob.glob(os.path.join(d, "detected_by_*")):      # replays of an earlier evaluation
        shutil.rmtree(old, ignore_errors=True)
    t0 = time.time()
    p = subprocess.run([sys.executable, os.path.join(V, "tools", "muteval.py"), d, ",".join(checks)], stdout=subprocess.PIPE, stderr=subprocess.STDOUT, timeout=6 * 3600)
    out = p.stdout.decode("utf-8", "replace")
    m = re.search(r"^MUTEVAL (\{.*\})$", out, flags=re.M)
    if not m:
        return mid, None, out[-400:]
    r = json.loads(m.group(1))
    if r.get("error"):
        return mid, None, r["error"]
    det = {}
    for c, res in r["checks"].items():
        vl = [l for l in res["lines"] if l.startswith("VIOLATION")]
        if res["rc"] == 0 or not vl:
            det[c] = "missed" if res["rc"] in (0, 1) else "error(rc=%s)" % res["rc"]
        elif any("no-failing-input-found" not in l for l in vl):
            det[c] = "input"
        else:
            det[c] = "tie"
    meta["detection"] = det
    meta["detection_signatures"] = {c: [l[2:160] for l in res["lines"] if l.startswith("# ")][:3] for c, res in r["checks"].items()}
    meta["detection_run"] = dict(when=time.strftime("%Y-%m-%dT%H:%M:%SZ", time.gmtime()), repo_head=subprocess.check_output(["git", "-C", "/repo", "rev-parse", "--short", "HEAD"]).decode().strip(),
                                 seconds=round(time.time() - t0), how="tools/mutmatrix.py -> tools/muteval.py (quick tier, isolated copy of /verif, scratch worktree, VERIF_REPO)")
    meta["detected_by"] = [c for c, v in det.items() if v in ("input", "tie")]
    meta["missed_by"] = [c for c, v in det.items() if v == "missed"]
    json.dump(meta, open(os.path.join(d, "meta.json"), "w"), indent=1)
    return mid, det, ""


def main():
    args = [a for a in sys.argv[1:] if not a.startswith("-")]
    j = int(sys.argv[sys.argv.index("-j") + 1]) if "-j" in sys.argv else 4
    if "-j" in sys.argv:
        args = [a for a in args if a != sys.argv[sys.argv.index("-j") + 1]]
    ids = args or sorted(os.path.basename(p) for p in glob.glob(os.path.join(V, "seeded", "*")) if os.path.exists(os.path.join(p, "meta.json")))
    with concurrent.futures.ThreadPoolExecutor(j) as ex:
        for mid, det, err in ex.map(one, ids):
            print(mid, det if det is not None else "ERROR " + err, flush=True)


if __name__ == "__main__":
    main()
