#!/bin/sh
# mutbatch.sh <logdir> <mutantdir:checks> ...   (at most 4 evaluations in parallel)
LOG=$1; shift; mkdir -p $LOG
for spec in "$@"; do
  d=${spec%%:*}; c=${spec##*:}
  name=$(echo $d | sed 's#/tmp/mut-##; s#/out/#-#')
  while [ $(pgrep -fc "tools/muteval.py") -ge 4 ]; do sleep 5; done
  (timeout 3600 python3 /verif/tools/muteval.py $d $c --demo > $LOG/$name.log 2>&1 &)
  sleep 2
done
while [ $(pgrep -fc "tools/muteval.py") -gt 0 ]; do sleep 5; done
