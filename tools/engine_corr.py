#!/usr/bin/env python3
"""Engine correspondence: seeded case generator (profiles), runner for implrun (Go, real LockDB) and modelrun
(extracted Coq model), observation parser, diff and shrinker.  Used by checks C01-C06, C10, C11, C15, C17."""
import os, random, subprocess, sys, tempfile, time, collections, json, zlib
sys.path.insert(0, os.path.dirname(os.path.abspath(__file__)))
import vlib

T0 = 1000000

# ---------------------------------------------------------------------------------------------- generation
PROFILES = {
    # weights / parameter pools; every profile is "mostly valid" traffic focused on one property's mechanisms
    "core": dict(),
    "count": dict(counts=[0, 0, 1, 1, 2, 3, 5, 65534, 65535], nkeys=2, p_unlock=0.3),
    "keys": dict(nkeys=3, nids=3, counts=[0, 0, 1], p_unlock=0.4, p_time=0.2, expr=[0, 1, 2, 3, 10], timeouts=[0, 0, 2, 9]),
    "reentrant": dict(rcounts=[0, 1, 2, 3, 254, 255], nids=3, nkeys=1, p_unlock=0.4, counts=[0, 0, 2, 5]),
    "waiters": dict(timeouts=[3, 5, 8, 12, 20, 30], counts=[0, 0, 0, 1, 2], nkeys=1, nids=10, p_prio=0.25, p_unlock=0.35, expr=[1, 2, 3, 5, 30]),
    "timeouts": dict(timeouts=[0, 1, 2, 3, 7, 8, 9, 10, 12, 15, 16, 17, 25], nkeys=2, nids=12, p_unlock=0.15, p_time=0.45, expr=[30, 60, 100], counts=[0, 0, 1]),
    "longwait": dict(timeouts=[46, 50, 50, 55, 60], nkeys=1, nids=8, p_unlock=0.12, p_time=0.62, expr=[80, 100], counts=[0, 0, 1], length=(110, 170), p_cancel=0.1),
    "expiry": dict(expr=[1, 2, 3, 5, 8, 9, 10, 12, 16, 17, 25, 40], timeouts=[0, 0, 3, 20], nkeys=2, nids=8, p_unlock=0.15, p_time=0.45, p_update=0.15),
    "ack": dict(p_ack=0.5, nkeys=2, nids=6, timeouts=[0, 2, 5, 10], p_ackact=0.25),
    "role": dict(p_role=0.08, nkeys=2, p_time=0.3, expr=[1, 2, 3, 5, 10, 20], eflags=[0, 0, 0x100, 0x100]),
    "aof": dict(aoftimes=[0, 1, 2, 5], p_time=0.35, eflags=[0, 0, 0x100, 0x200, 0x1000, 0x40], nkeys=2),
    "sched": dict(sched=True, nkeys=1, nids=5, p_unlock=0.3, p_time=0.12, timeouts=[0, 0, 2, 5, 9], counts=[0, 0, 0, 1, 2], expr=[0, 2, 5, 10, 20], length=(8, 50)),
    "schedrole": dict(sched=True, nkeys=1, nids=4, p_unlock=0.25, p_time=0.1, p_role=0.12, timeouts=[0, 0, 3], counts=[0, 1], expr=[0, 2, 5, 10], length=(8, 40)),
    "sched2": dict(sched=True, nkeys=2, nids=4, p_unlock=0.3, p_time=0.15, timeouts=[0, 3, 8], counts=[0, 1, 65535], expr=[1, 3, 10], length=(10, 60)),
    # sweeps as threads (yield points 14 / 15 between the collection and the per-lock calls): several holds / waiters due
    # in the same second, unlocks / cancels / re-locks of exactly those locks while the sweep thread is parked
    "schedsweep": dict(sched=True, sweeptpl=True, nkeys=2, nids=8, p_start=0.0, p_sweepthread=0.6, expr=[1, 2, 3, 20], timeouts=[0, 1, 2, 3, 20],
                       counts=[0, 0, 1, 2]),
    "many": dict(nkeys=1, nids=400, counts=[65535, 300, 200], timeouts=[30, 60], expr=[50, 100], p_unlock=0.2, length=(300, 700), p_time=0.03),
}


class Gen:
    def __init__(self, rng, profile="core", with_data=None):
        self.rng = rng
        self.p = dict(PROFILES["core"])
        self.p.update(PROFILES[profile])
        self.profile = profile
        self.with_data = with_data
        self.req = 0
        self.stats = collections.Counter()

    def pick(self, name, default):
        return self.rng.choice(self.p.get(name, default))

    def lock_cmd(self, keys, ids, conns, safe=False):
        r = self.rng
        self.req += 1
        flag = r.choices([0, 1, 2, 3, 8], [70, 6, 8 + 100 * self.p.get("p_update", 0), 3, 0 if self.p.get("sched") else 6])[0]
        count = self.pick("counts", [0, 0, 0, 0, 1, 2, 3, 65535, 65534])
        rcount = self.pick("rcounts", [0, 0, 0, 1, 2, 255])
        timeout = self.pick("timeouts", [0, 0, 1, 2, 3, 5, 9, 12])
        tflag = 0
        if r.random() < self.p.get("p_prio", 0.06):
            tflag |= 0x10
            rcount = r.choice([0, 1, 1, 2, 3])
        if r.random() < 0.04:
            tflag |= 0x200
        if r.random() < 0.03 and timeout <= 3:
            tflag |= 0x40
        elif r.random() < 0.012:
            tflag |= 0x40; timeout = r.choice([1092, 1093, 2000, 65535])     # deadline arithmetic at the unit boundary
        if r.random() < self.p.get("p_ack", 0.0):
            tflag |= 0x1000
        if r.random() < 0.02:
            tflag |= 0x100
        expried = self.pick("expr", [0, 1, 2, 3, 5, 5, 10, 10, 20, 60])
        eflag = self.pick("eflags", [0, 0, 0, 0, 0, 0, 0x100, 0x200, 0x1000])
        if r.random() < 0.04:
            eflag |= 0x4000
        if r.random() < 0.03 and expried <= 3:
            eflag |= 0x40
        elif r.random() < 0.012 and expried > 0:
            eflag |= 0x40; expried = r.choice([1092, 1093, 2000, 65535])
        if safe:
            # histories run with free-list recycling of Lock objects on top of the real ack tables: leave out the two
            # recorded root causes that free a registered / live lock (re-entrant re-lock / update carrying require-ack,
            # never-persist mode of an ack-lock, own or inherited) -- with recycling their use-after-free is not a
            # crash but a silent hit on whoever got the object, which the model (fresh allocation) cannot follow
            eflag &= ~0x200
            if tflag & 0x1000:
                rcount = 0
                flag &= ~2        # an update of a live hold by a require-ack command: same defect class as the re-entrant re-lock
        data = "-"
        if self.with_data and r.random() < 0.5:
            data = self.with_data(r)
            flag |= 0x20
        self.stats["lock"] += 1
        self.stats["lock_flag_%d" % flag] += 1
        if tflag & 0x10: self.stats["priority"] += 1
        if tflag & 0x1000: self.stats["require_ack"] += 1
        if timeout > 0: self.stats["lock_with_timeout"] += 1
        if expried == 0: self.stats["lock_expried0"] += 1
        return "req %d L %d %d %d %d %d %d %d %d %d %d %s" % (r.choice(conns), self.req, flag, r.choice(ids), r.choice(keys),
                                                              tflag, timeout, eflag, expried, count, rcount, data)

    def unlock_cmd(self, keys, ids, conns):
        r = self.rng
        self.req += 1
        flag = r.choices([0, 1, 2, 3], [80, 7, 10 + 100 * self.p.get("p_cancel", 0), 3])[0]
        rcount = r.choice([0, 0, 1, 1, 2])
        tflag = 0x10 if r.random() < 0.03 else 0
        data = "-"
        if self.with_data and r.random() < 0.3:
            data = self.with_data(r)
            flag |= 0x20
        self.stats["unlock"] += 1
        self.stats["unlock_flag_%d" % flag] += 1
        return "req %d U %d %d %d %d %d %d %d %d %d %d %s" % (r.choice(conns), self.req, flag, r.choice(ids), r.choice(keys),
                                                              tflag, 0, 0, 0, r.choice([0, 0, 1, 65535]), rcount, data)

    def late_ack_prefix(self, keys, ids, conns, ackcfg):
        """the interleaving "acknowledgement delayed and pre-empted": ack-lock B1 is granted and registered (index 0) but
        not (fully) acknowledged; its wait times out / a negative acknowledgement arrives / it is failed; another
        ack-lock B2 is requested (with recycling it gets B1's Lock object); only then B1's record is acknowledged."""
        r = self.rng
        conn, key, id1 = r.choice(conns), r.choice(keys), r.choice(ids)
        t1 = r.choice([1, 2, 3])
        lines = []
        self.req += 1
        lines.append("req %d L %d 0 %d %d 4096 %d 0 %d 0 0 -" % (conn, self.req, id1, key, t1, r.choice([5, 10, 20])))
        for _ in range(r.randint(0, ackcfg - 1)):
            lines.append("ack 0 1 %s" % r.choice(["aofed", "acked"]))
        how = r.choice(["timeout", "timeout", "timeout", "nack"])
        if how == "timeout":
            lines += ["adv %d" % (t1 + r.choice([1, 1, 2, 5])), "sweept"]
            if r.random() < 0.5:
                lines.append("sweepe")
        else:
            lines.append("ack 0 0 %s" % r.choice(["aofed", "acked"]))
        for _ in range(r.choice([1, 1, 2])):
            self.req += 1
            lines.append("req %d L %d 0 %d %d 4096 %d 0 %d 0 0 -" % (r.choice([conn, r.choice(conns)]), self.req, r.choice([id1, r.choice(ids)]),
                                                                    r.choice([key, r.choice(keys)]), r.choice([5, 10]), r.choice([5, 10, 20])))
        for _ in range(r.randint(1, ackcfg + 1)):
            lines.append("ack 0 %d %s" % (r.choice([1, 1, 1, 0]), r.choice(["aofed", "acked"])))
        self.stats["late_ack_template"] += 1
        self.stats["lock"] += 2
        self.stats["require_ack"] += 2
        return lines

    def sweep_body(self, keys, ids, conns):
        """rounds of: a group of holds (same expiry) and queued requests (same timeout) on one key, all taken in the same
        second; the clock moves to the second in which they fall due; the sweep(s) start as threads (collect the group,
        park in front of the first per-lock call); then requests on exactly these locks (unlock, cancel, re-lock, update),
        new requests on the key, requests on another key and resume steps in any order"""
        r = self.rng
        lines = []
        key, other = keys[0], keys[-1]

        def L(lid, k, flag=0, tflag=0, timeout=0, eflag=0, expried=5, count=0, rcount=0):
            self.req += 1
            self.stats["lock"] += 1
            return "req %d L %d %d %d %d %d %d %d %d %d %d -" % (r.choice(conns), self.req, flag, lid, k, tflag, timeout, eflag, expried, count, rcount)

        def U(lid, k, flag=0, rcount=0):
            self.req += 1
            self.stats["unlock"] += 1
            return "req %d U %d %d %d %d 0 0 0 0 0 %d -" % (r.choice(conns), self.req, flag, lid, k, rcount)

        for _ in range(r.choice([1, 1, 2, 3])):
            kind = r.choice(["e", "e", "e", "t", "t", "both", "both"])
            # "solo": the group is all there is on the key (holds only, one deadline): once its members are released the
            # references of the parked sweep are the key's last ones (any other record of the key, even a released
            # one, keeps the key alive until its own wheel slot is swept)
            solo = r.random() < 0.3
            if solo:
                kind = "e"
                self.stats["window_solo"] += 1
            cnt = self.pick("counts", [0, 0, 1, 2])
            E = r.choice([1, 2, 2, 3]) if kind in ("e", "both") else 20
            T = r.choice([1, 2, 2, 3]) if kind in ("t", "both") else 20
            if kind == "both" and r.random() < 0.6:
                T = E
            pool = list(ids)
            r.shuffle(pool)
            holders = pool[:cnt + 1]
            nw = r.choice([0, 0, 1, 2, 3]) if kind == "e" else r.choice([1, 2, 3])
            if solo:
                nw = 0
            waiters = pool[cnt + 1:cnt + 1 + nw]
            rc = r.choice([0, 0, 0, 2])
            for lid in holders:
                lines.append(L(lid, key, expried=E, count=cnt, rcount=rc, timeout=0 if solo else r.choice([0, 0, T])))
            for lid in waiters:
                lines.append(L(lid, key, timeout=T, expried=r.choice([E, 5, 20]), count=cnt, tflag=0x10 if r.random() < 0.1 else 0,
                               rcount=r.choice([0, 1, 2]) if r.random() < 0.1 else 0))
            if r.random() < 0.3 and other != key:
                lines.append(L(r.choice(ids), other, expried=r.choice([E, 5]), timeout=0))
            due = min(E, T) if kind == "both" else (E if kind == "e" else T)
            lines.append("adv %d" % (due + r.choice([0, 0, 0, 1])))
            self.stats["adv"] += 1
            sw = {"e": ["startsweepe"], "t": ["startsweept"], "both": ["startsweept", "startsweepe"]}[kind]
            r.shuffle(sw)
            if kind != "both" and r.random() < 0.5:
                sw.insert(r.randint(0, 1), "sweept" if kind == "e" else "sweepe")
            lines += sw
            mark = len(lines)
            self.stats["sweep_thread"] += len([x for x in sw if x.startswith("start")])
            group = holders + waiters
            if solo or r.random() < 0.3:
                # every member of the group is released while the sweep is parked (the holds, then the queued requests
                # that were granted in turn): the references the parked sweep holds are then the last ones of their
                # records, and the last of them the last one of the key
                burst = [U(h, key) for h in holders for _ in range(2 if rc else 1)]
                if r.random() < 0.8:
                    burst += [U(w, key, flag=r.choice([0, 0, 2])) for w in waiters]
                lines += burst
                self.stats["window_unlock"] += len(burst)
                self.stats["window_release_all"] += 1
            for _ in range(r.randint(2, 9)):
                if lines[-1].startswith("req ") and lines[-1] not in sw and len(lines) > mark and r.random() < 0.35:
                    lines[-1] = "start" + lines[-1][3:]      # a request of the window is a thread itself
                x = r.random()
                if solo and r.random() < 0.6:
                    x = 0.75
                if x < 0.28:
                    lines.append(U(r.choice(holders), key, flag=0, rcount=r.choice([0, 0, 1])))          # release a collected hold
                    self.stats["window_unlock"] += 1
                elif x < 0.40 and waiters:
                    lines.append(U(r.choice(waiters), key, flag=2))                                      # cancel a collected queued request
                    self.stats["window_cancel"] += 1
                elif x < 0.50:
                    lines.append(L(r.choice(group), key, flag=r.choice([0, 0, 2, 1]), expried=r.choice([E, 5]), count=cnt,
                                   rcount=rc, timeout=r.choice([0, T])))                                 # re-lock / update / show of a group member
                    self.stats["window_relock"] += 1
                elif x < 0.58:
                    lines.append(L(r.choice(ids), key, expried=r.choice([E, 5]), count=cnt, timeout=r.choice([0, T])))
                elif x < 0.66:
                    lines.append(L(r.choice(ids), other, expried=r.choice([1, 5]), timeout=0) if r.random() < 0.6 else U(r.choice(ids), other))
                elif x < 0.70:
                    lines.append(U(0, key, flag=1))
                elif x < 0.93:
                    lines.append("resume %d" % r.randint(0, 3))
                    self.stats["resume"] += 1
                elif x < 0.96:
                    lines.append("drainsweeps")
                else:
                    lines += ["adv 1", r.choice(["startsweepe", "startsweept", "sweepe", "sweept"])]
                    self.stats["adv"] += 1
            if r.random() < 0.7:
                lines.append("drain")
        return lines

    def from_aof(self, line):
        f = line.split()
        f[4] = str(int(f[4]) | 4)
        return " ".join(f)

    def case(self, cid, drain=True):
        r = self.rng
        follower = False
        nkeys = self.p.get("nkeys", r.choice([1, 1, 2, 3]))
        nids = self.p.get("nids", r.choice([2, 3, 4, 6]))
        if nkeys > 1 and r.random() < 0.4:
            # keys that collide in the key table's fast slot (DBFastKeyCount = 64 in the harness): exercises the
            # overflow map, downgrade and the fast-entry hand-over of GetOrNewLockManager / RemoveLockManager
            b = r.choice([3, 7, 19])
            keys = [b + 64 * i for i in range(nkeys)]
            self.stats["colliding_keys"] += 1
        else:
            keys = [r.choice([3, 7, 11, 19, 258, 70000]) + i for i in range(nkeys)]
        ids = list(range(101, 101 + nids))
        conns = list(range(1, r.choice([2, 3, 5])))
        lo, hi = self.p.get("length", (5, 60))
        n = r.randint(lo, hi)
        aoft = self.pick("aoftimes", [1, 1, 1, 0, 2])
        # free-list recycling of Lock objects: the ack tables keep raw *Lock pointers, so a registration that outlives
        # its lock is only visible as "an acknowledgement reaches ANOTHER request" when the object is handed out again
        recycle = r.choice([0, 1]) if self.p.get("p_ack", 0) > 0 else r.choice([0, 1, 1])
        lines = ["case %d %d %d %d" % (cid, T0 + r.choice([0, 0, 3, 7, 13, 15]), aoft, recycle)]
        ackcfg = 1
        flushed = set()
        if self.p.get("p_ack", 0) > 0:
            ackcfg = r.choice([1, 1, 2, 2, 3])
            lines.append("ackcfg %d" % ackcfg)
        p_unlock = self.p.get("p_unlock", 0.25)
        p_time = self.p.get("p_time", 0.25)
        nacks = 0
        sched = self.p.get("sched", False)
        safe = self.p.get("p_ack", 0) > 0 and recycle == 1
        if safe and r.random() < 0.5:
            pre = self.late_ack_prefix(keys, ids, conns, ackcfg)
            lines += pre
            nacks += sum(1 for l in pre if l.startswith("ack "))
            n = max(3, n // 2)
        if self.p.get("sweeptpl"):
            lines += self.sweep_body(keys, ids, conns)
            n = 0
        for _ in range(n):
            if sched and r.random() < 0.45:
                lines.append("resume %d" % r.randint(0, 5))
                self.stats["resume"] += 1
                continue
            x = r.random()
            if x < p_time:
                k = r.choices([1, 1, 1, 2, 3, 9, 20], [50, 20, 10, 8, 5, 4, 3])[0]
                lines.append("adv %d" % k)
                self.stats["adv"] += 1
                sw = ["sweept", "sweepe"]
                r.shuffle(sw)
                if r.random() < 0.9:
                    lines += sw
                elif r.random() < 0.5:
                    lines.append(sw[0])
            elif x < p_time + p_unlock:
                ln = self.unlock_cmd(keys, ids, conns)
                if follower and r.random() < 0.5:
                    ln = self.from_aof(ln); self.stats["from_aof"] += 1
                lines.append(ln)
            elif x < p_time + p_unlock + self.p.get("p_ackact", 0.0):
                idx = r.randint(0, max(0, nacks + 2))
                kind = "aofed" if (ackcfg == 1 or (idx not in flushed and r.random() < 0.5)) else "acked"
                if kind == "aofed":
                    flushed.add(idx)
                lines.append("ack %d %d %s" % (idx, r.choice([0, 1, 1, 1]), kind))
                nacks += 1
                self.stats["ack"] += 1
            elif x < p_time + p_unlock + self.p.get("p_ackact", 0.0) + self.p.get("p_role", 0.0):
                b = r.choice([0, 0, 1, 2, 3, 4])
                follower = (b != 1)
                lines.append("role %d" % b)
                self.stats["role"] += 1
            else:
                ln = self.lock_cmd(keys, ids, conns, safe=safe)
                if follower and r.random() < 0.5:
                    ln = self.from_aof(ln); self.stats["from_aof"] += 1
                lines.append(ln)
        if sched:
            p_start = self.p.get("p_start", 0.85)
            lines = [("start" + l[3:]) if l.startswith("req ") and r.random() < p_start else l for l in lines]
            # some of the sweeps run as threads too.  The choice is drawn from a generator derived from the text of the
            # history, not from the main stream: the histories of all other profiles stay what they were
            r2 = random.Random(zlib.crc32("\n".join(lines).encode()))
            p_sw = self.p.get("p_sweepthread", 0.3)
            if r2.random() < 0.75:
                for i, l in enumerate(lines):
                    if l in ("sweept", "sweepe") and r2.random() < p_sw:
                        lines[i] = "start" + l
                        self.stats["sweep_thread"] += 1
            lines.append("drain")
        if drain:
            lines.append("adv 0")     # marker: the drain phase starts here (kept intact by the shrinker)
            lines.append("role 1")
            # answer every pending ack, then let every timeout / expiry pass (minute flags: up to 3*60+; unlimited: unlock-first)
            if self.p.get("p_ack", 0) > 0:
                for i in range(nacks + 40):
                    if i not in flushed:
                        lines.append("ack %d 1 aofed" % i)
                    for _ in range(ackcfg):
                        lines.append("ack %d 1 acked" % i)
            big = any(l.split()[0] in ("req", "start") and l.split()[2] == "L" and int(l.split()[7]) & 0x40 and int(l.split()[8]) > 10 for l in lines if l[:3] in ("req", "sta"))
            for k in keys:
                for _ in range(3):
                    self.req += 1
                    lines.append("req 1 U %d 1 0 %d 0 0 0 0 0 0 -" % (self.req, k))
                if big:
                    for lid in ids:
                        for _ in range(3):
                            self.req += 1
                            lines.append("req 1 U %d 2 %d %d 0 0 0 0 0 0 -" % (self.req, lid, k))
            for step in [1] * 20 + [5] * 8 + [60] * 6:
                lines += ["adv %d" % step, "sweept", "sweepe"]
            nunl = sum(1 for l in lines if l.startswith("req") and l.split()[2] == "L" and int(l.split()[9]) & 0x4000)
            for k in keys:
                for _ in range(8 + 2 * nunl):
                    self.req += 1
                    lines.append("req 1 U %d 1 0 %d 0 0 0 0 0 0 -" % (self.req, k))
            for step in [1] * 20:
                lines += ["adv %d" % step, "sweept", "sweepe"]
            if self.p.get("p_ack", 0) > 0:
                # acknowledgement events always arrive eventually (the leader's own flush): a last round for the
                # registrations created during the drain, then let the resulting expiries pass
                for i in range(nacks + 60):
                    lines.append("ack %d 1 acked" % i)
                    lines.append("ack %d 1 acked" % i)
                    lines.append("ack %d 1 acked" % i)
                for k in keys:
                    for _ in range(4):
                        self.req += 1
                        lines.append("req 1 U %d 1 0 %d 0 0 0 0 0 0 -" % (self.req, k))
                for step in [1] * 12 + [60] * 5:
                    lines += ["adv %d" % step, "sweept", "sweepe"]
        lines.append("end")
        return lines


# ---------------------------------------------------------------------------------------------- running
def run_bin(binary, casefile, timeout=600):
    p = subprocess.run([binary, casefile], stdout=subprocess.PIPE, stderr=subprocess.PIPE, timeout=timeout)
    return p.stdout.decode("utf-8", "replace"), p.stderr.decode("utf-8", "replace"), p.returncode


def split_cases(text):
    """-> {case id: [ (action, [event lines], [snapshot lines]) ]}"""
    res = collections.OrderedDict()
    cur = None
    for line in text.splitlines():
        if line.startswith("case "):
            cur = []
            res[line.split()[1]] = cur
        elif cur is None:
            continue
        elif line.startswith("act "):
            cur.append([line[4:], [], []])
        elif line.startswith("ev "):
            if cur:
                cur[-1][1].append(line)
        elif line.startswith("snap ") or line.startswith("key "):
            if cur:
                cur[-1][2].append(line)
    return res


def canon_events(evs):
    """replies (and panics) in order, aof records in order — their relative order is not observable in implrun"""
    rep = [e for e in evs if not e.startswith("ev aof") and not e.startswith("ev note")]   # notes: implementation-side hints for the monitors
    rep = [(" ".join(e.split()[:3]) if e.startswith("ev panic") else e) for e in rep]
    aof = [e for e in evs if e.startswith("ev aof")]
    return rep, aof


_CORRUPT_LINE = {}


def _line_corrupt(ln):
    r = _CORRUPT_LINE.get(ln)
    if r is None:
        r = ""
        if "freed" in ln:
            r = "freed-record-reachable"
        else:
            for tok in ln.replace("cur=", " ").replace("holders=[", " ").replace("waiters=[", " ").replace("]", " ").split():
                parts = tok.split(":")
                if len(parts) == 13 and parts[3].isdigit() and int(parts[3]) >= 200:
                    r = "refcount-underflow"
                    break
        if len(_CORRUPT_LINE) > 300000:
            _CORRUPT_LINE.clear()
        _CORRUPT_LINE[ln] = r
    return r


def snapshot_corrupt(snap_lines):
    """a freed lock record reachable from a key's queues, or a wrapped reference count: the engine state is
    corrupted (use-after-free follows); comparison stops there, the monitors report it"""
    for ln in snap_lines:
        if ln.startswith("snap ") and "uafw=" in ln and " uafw=0" not in ln:
            return "freed-record-in-timer-wheel"
        if not ln.startswith("key "):
            continue
        r = _line_corrupt(ln)
        if r:
            return r
    return None


CORRUPT = []


def diff_case(a, b):
    """first difference between two parsed cases, or None"""
    for i in range(max(len(a), len(b))):
        if i > 0 and i - 1 < len(a) and i - 1 < len(b):
            c = snapshot_corrupt(a[i - 1][2]) or snapshot_corrupt(b[i - 1][2])
            if c:
                CORRUPT.append((c, i - 1))
                return None
        if i >= len(a) or i >= len(b):
            return dict(index=i, what="length", model=len(a), impl=len(b))
        (aa, ae, asn), (ba, be, bsn) = a[i], b[i]
        ra, fa = canon_events(ae)
        rb, fb = canon_events(be)
        if ra and ra[-1].startswith("ev panic") and rb and rb[-1].startswith("ev panic"):
            if ra[-1].split()[2].startswith("uaf:") or rb[-1].split()[2].startswith("uaf:"):
                return None   # use-after-free of a lock record: both sides crash, the Go site depends on stale fields
            if ra[-1].split()[2].split("/")[-1].split("#")[0] != rb[-1].split()[2].split("/")[-1].split("#")[0]:
                return dict(index=i, action=aa, what="panic-site", model=ra, impl=rb)
            return None
        if ra != rb and snapshot_corrupt(asn) and snapshot_corrupt(bsn):
            # the action that makes a freed record reachable (a recorded defect) also retires the key's manager: the
            # LCount of a reply sent after that is read from the retired manager object (stale field in Go, fresh
            # manager in the model): undefined, not compared
            def nolc(evs):
                return [" ".join(t[:5] + ["*"] + t[6:]) if t[:2] == ["ev", "reply"] else " ".join(t) for t in (e.split() for e in evs)]
            if nolc(ra) == nolc(rb):
                ra = rb
        if ra != rb:
            return dict(index=i, action=aa, what="replies", model=ra, impl=rb)
        if fa != fb:
            return dict(index=i, action=aa, what="aof", model=fa, impl=fb)
        if asn != bsn:
            d = [(x, y) for x, y in zip(asn, bsn) if x != y][:2] or [(" ".join(asn[-1:]), " ".join(bsn[-1:]))]
            td = []
            for x, y in d:
                xt, yt = x.split(), y.split()
                pre = " ".join(xt[:2])
                diffs = [(a, b) for a, b in zip(xt, yt) if a != b][:6]
                td.append(dict(line=pre, ntok=(len(xt), len(yt)), token_diffs=diffs))
            return dict(index=i, action=aa, what="snapshot", diffs=td)
    return None


class Runner:
    def __init__(self, ctx, derive_fixes=True):
        self.ctx = ctx
        if derive_fixes:
            try:
                sys.path.insert(0, vlib.VERIF)
                from checks import C15_data
                fx = C15_data.derive_fixes(vlib.REPO)
                with vlib.Lock("coq"):
                    vlib.write_if_changed(os.path.join(vlib.COQ, "Data", "FixFlags.v"), C15_data.fixflags_v(fx))
                self.fixes = fx
            except Exception as e:  # noqa
                ctx.notes.append("derive_fixes unavailable: %s" % e)
        self.impl = ctx.go_build("engine_implrun", os.path.join(vlib.VERIF, "harness", "engine"),
                                 overlay={"server/zz_verif_engine.go": "harness/engine/inj/zz_verif_engine.go",
                                          "server/zz_verif_realtime.go": "harness/engine/inj/zz_verif_realtime.go"}, pkg="./cmd/implrun")
        self.model = ctx.ocaml_model("engine", deps=["Engine/Ack.vo", "Engine/Sched.vo", "Engine/SchedSweep.vo"])
        self.tmp = tempfile.mkdtemp(prefix="verif-eng-")

    def run_cases(self, cases):
        """cases: list of list-of-lines. returns (model parsed, impl parsed, raw errors)"""
        # model and implementation run concurrently, the cases in up to 6 shards (cases are independent)
        import concurrent.futures
        nsh = 1 if len(cases) < 40 else min(6, len(cases) // 20)
        shards = [cases[i::nsh] for i in range(nsh)]
        self._run_seq = getattr(self, "_run_seq", 0) + 1
        jobs = []
        for i, sh_ in enumerate(shards):
            path = os.path.join(self.tmp, "cases.%d.%d.txt" % (self._run_seq, i))
            with open(path, "w") as f:
                for c in sh_:
                    f.write("\n".join(c) + "\n")
            jobs.append((self.model, path, "modelrun"))
            jobs.append((self.impl, path, "implrun"))
        pm, pi, errs = collections.OrderedDict(), collections.OrderedDict(), []
        with concurrent.futures.ThreadPoolExecutor(max_workers=len(jobs)) as ex:
            outs = list(ex.map(lambda j: run_bin(j[0], j[1]), jobs))
        for (binary, path, who), (out, err, rc) in zip(jobs, outs):
            if rc != 0:
                errs.append("%s rc=%d %s" % (who, rc, err[-500:] if who == "modelrun" else err[-1500:]))
            (pm if who == "modelrun" else pi).update(split_cases(out))
            try:
                if who == "implrun":
                    os.remove(path)
            except OSError:
                pass
        return pm, pi, errs

    def compare(self, cases):
        """returns list of (case lines, diff) for mismatching cases"""
        pm, pi, errs = self.run_cases(cases)
        bad = []
        for c in cases:
            cid = c[0].split()[1]
            a, b = pm.get(cid), pi.get(cid)
            if a is None or b is None:
                bad.append((c, dict(what="missing-output", model=a is not None, impl=b is not None, errors=errs)))
                continue
            d = diff_case(a, b)
            if d:
                bad.append((c, d))
        return bad, pm, pi, errs

    def shrink(self, case, still_bad, max_rounds=200):
        """greedy delta-debugging on action lines (first and last line are kept)"""
        head, body, tail = case[0], case[1:-1], [case[-1]]
        if "adv 0" in body:
            i = body.index("adv 0")
            body, tail = body[:i], body[i:] + tail
        rounds = 0
        chunk = max(1, len(body) // 2)
        while chunk >= 1 and rounds < max_rounds:
            i = 0
            progressed = False
            while i < len(body) and rounds < max_rounds:
                cand = body[:i] + body[i + chunk:]
                rounds += 1
                if still_bad([head] + cand + tail):
                    body = cand
                    progressed = True
                else:
                    i += chunk
            if not progressed or chunk == 1:
                chunk //= 2
        return [head] + body + tail

    def close(self):
        import shutil
        shutil.rmtree(self.tmp, ignore_errors=True)


if __name__ == "__main__":
    # manual use: engine_corr.py <profile> <n> [seed]
    prof, n = sys.argv[1], int(sys.argv[2])
    seed = int(sys.argv[3]) if len(sys.argv) > 3 else 1
    ctx = vlib.Ctx("scratch", "quick", seed)
    run = Runner(ctx)
    g = Gen(ctx.rng, prof)
    cases = [g.case(i) for i in range(n)]
    t = time.time()
    bad, pm, pi, errs = run.compare(cases)
    print("cases", n, "mismatching", len(bad), "errors", errs, "time %.1fs" % (time.time() - t))
    for c, d in bad[:3]:
        sc = run.shrink(c, lambda cc: bool(run.compare([cc])[0]))
        d2 = run.compare([sc])[0][0][1]
        print("\n".join(sc))
        print(json.dumps(d2, indent=1))
    print(dict(g.stats))
    run.close()


# ---------------------------------------------------------------------------------------------------------------------
# Source-text tie of the sweeper driver loops.  The harness calls the real checkTimeTimeOut / checkTimeExpried but
# replays the per-second driver loops of checkTimeOut / checkExpried itself (sweepT / sweepE in zz_verif_engine.go,
# ASweepT / ASweepE in the model); the loops in the source must therefore be exactly the ones transcribed there.
SWEEPER_LOOPS = {
    "checkTimeOut": "for self.status != STATE_CLOSE { checkTimeoutTime := self.checkTimeoutTime now := self.currentTime "
                    "self.checkTimeoutTime = now + 1 for checkTimeoutTime <= now { for i := uint16(0); i < self.managerMaxGlocks; i++ { "
                    "go self.checkTimeTimeOut(checkTimeoutTime, now, i, doTimeoutLockQueues[i]) } checkTimeoutTime++ } <-waiter }",
    "checkExpried": "for self.status != STATE_CLOSE { checkExpriedTime := self.checkExpriedTime now := self.currentTime "
                    "self.checkExpriedTime = now + 1 for checkExpriedTime <= now { for i := uint16(0); i < self.managerMaxGlocks; i++ { "
                    "go self.checkTimeExpried(checkExpriedTime, now, i, doExpriedLockQueues[i]) } checkExpriedTime++ } <-waiter }",
}


def sweeper_tie(repo):
    """[] when the driver loops in server/db.go are the transcribed ones, else a list of (function, found text)"""
    import re
    src = open(os.path.join(repo, "server", "db.go")).read()
    bad = []
    for fn, want in SWEEPER_LOOPS.items():
        m = re.search(r"^func \(self \*LockDB\) %s\(waiter chan struct\{\}\) \{\n(.*?)^\}\n" % fn, src, flags=re.S | re.M)
        body = " ".join(m.group(1).split()) if m else ""
        i = body.find("for self.status != STATE_CLOSE")
        got = body[i:] if i >= 0 else body
        if got != want:
            bad.append((fn, got[:600]))
    return bad
