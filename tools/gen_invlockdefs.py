#!/usr/bin/env python3
"""Regenerates coq/Engine/InvLockDefs.v: Engine.lock_step / Engine2.unlock_step split into phases.
Every definition body is a verbatim slice of Engine.v / Engine2.v; the recomposition lemmas are proved by reflexivity,
so a model edit either leaves the file valid or makes `make Engine/InvLockDefs.vo` fail (then re-run this script).
usage: cd /verif/coq && python3 ../tools/gen_invlockdefs.py   (only needed after an edit of lock_step / unlock_step)"""
src=open('Engine/Engine.v').read().split('\n')
def idx(lines, pred, start=0):
    for i in range(start,len(lines)):
        if pred(lines[i]): return i
    raise Exception("anchor not found")
i_held=idx(src, lambda l: 'let held_branch' in l)
i_match=idx(src, lambda l: l.strip()=='match held_branch with')
held_lines=src[i_held+1:i_match]
assert held_lines[-1].rstrip().endswith(' in')
held_lines[-1]=held_lines[-1].rstrip()[:-3]
i_new=idx(src, lambda l: "let '(s, r) := new_lock s k conn c in" in l)
i_end=idx(src, lambda l: l.strip()=='end.', i_new)
tail_lines=src[i_new:i_end-1]
assert src[i_end-1].strip()=='end'
i_upd=idx(src, lambda l: "let '(s1, pev, equal_exit) :=" in l)
i_rel=idx(src, lambda l: "else if (l_locked l <? 255) && (l_locked l <=? c_rcount c1)" in l, i_upd)
upd_lines=src[i_upd:i_rel]
j=i_rel+1
while True:
    j=idx(src, lambda l: l.strip()=="else", j)
    if "R_LOCKED_ERROR (m_locked m) (l_locked l) ldata" in src[j+1]: break
    j+=1
rel_lines=src[i_rel+1:j]
src2=open('Engine/Engine2.v').read().split('\n')
i0=idx(src2, lambda l: l.startswith("Definition unlock_step"))
i_body=idx(src2, lambda l: "| inl (Some (r, c)) =>" in l, i0)
i_end2=idx(src2, lambda l: l.strip()=="end.", i_body)
body=src2[i_body+1:i_end2-1]
assert src2[i_end2-1].strip()=="end"
i_target=idx(src2, lambda l: "let target : option (ref * cmd) + (db * list event * option wake) :=" in l, i0)
i_match2=idx(src2, lambda l: l.strip()=="match target with", i_target)
target=src2[i_target+1:i_match2]
assert target[-1].rstrip().endswith(" in")
target[-1]=target[-1].rstrip()[:-3]
cur=open('Engine/InvLockDefs.v').read()
# the fixed parts (headers, ls_pre, ls_mgr, equations) are kept from the current file; only the verbatim bodies are replaced
import re
def repl(name, lines, text):
    pat=re.compile(r'(Definition '+name+r' [^\n]*\n(?:  :[^\n]*\n)?)(.*?)(\.\n\n)', re.S)
    m=pat.search(text); assert m, name
    return text[:m.start(2)]+'\n'.join(lines)+text[m.end(2):]
cur=repl('ls_held', held_lines, cur)
cur=repl('ls_tail', tail_lines, cur)
cur=repl('ls_update', upd_lines, cur)
cur=repl('ls_relock', rel_lines, cur)
cur=repl('ul_body', body, cur)
cur=repl('ul_target', ['  let err := ul_err conn k m in']+target, cur)
open('Engine/InvLockDefs.v','w').write(cur)
print("InvLockDefs.v regenerated")
