#!/usr/bin/env python3
import sys, json, glob, os
for f in sorted(glob.glob(os.path.join(sys.argv[1], "*.log"))):
    t = open(f).read(); i = t.rfind("MUTEVAL ")
    name = os.path.basename(f)[:-4]
    if i < 0:
        print(name, "(no result)", t[-200:].replace("\n", " ")); continue
    r = json.loads(t[i + 8:])
    demo = r.get("demo") and (r["demo"].get("clean_rc"), r["demo"].get("patched_rc"))
    det = {p: c["rc"] for p, c in r["checks"].items()}
    print("%-10s builds=%s demo(clean,patched)=%s %s %s" % (name, r.get("builds"), demo, det, r.get("error", "")[:80]))
    if "-v" in sys.argv:
        for p, c in r["checks"].items():
            for l in c["lines"][:3]: print("      ", p, l[:200])
