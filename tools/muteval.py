#!/usr/bin/env python3
"""Evaluate a seeded change against the checks, in isolation from the live /verif and /repo:
   muteval.py <mutant_dir with patch.diff [run.sh]> <pid>[,<pid>...] [--demo] [--tier quick]
A private copy of /verif (with its compiled Coq files) and a scratch worktree of /repo HEAD are used; the patch is
applied there and every check runs with VERIF_REPO pointing at it.  Prints one JSON summary line at the end."""
import json, os, shutil, subprocess, sys, time

def sh(cmd, cwd=None, timeout=3600, env=None):
    e = dict(os.environ); e.update(dict(GOFLAGS="-mod=mod", GOPROXY="off", GOSUMDB="off", GOTOOLCHAIN="local"))
    if env: e.update(env)
    p = subprocess.run(cmd, cwd=cwd, shell=isinstance(cmd, str), stdout=subprocess.PIPE, stderr=subprocess.STDOUT, timeout=timeout, env=e)
    return p.returncode, p.stdout.decode("utf-8", "replace")

def main():
    mdir = os.path.abspath(sys.argv[1]); pids = sys.argv[2].split(",")
    demo = "--demo" in sys.argv
    tier = sys.argv[sys.argv.index("--tier") + 1] if "--tier" in sys.argv else "quick"
    work = "/tmp/muteval-%d" % os.getpid()
    os.makedirs(work)
    res = dict(mutant=mdir, checks={}, demo=None)
    try:
        sh(["rsync", "-a", "--exclude", ".git", "--exclude", "replays", "--exclude", "build", "--exclude", "seeded", "--exclude-from", "/verif/.git/info/exclude", "/verif/", work + "/verif/"])
        rc, out = sh(["git", "-C", "/repo", "worktree", "add", "--detach", work + "/repo", "HEAD"])
        if demo and os.path.exists(os.path.join(mdir, "run.sh")):
            shutil.copytree(mdir, work + "/repo/out/" + os.path.basename(mdir), dirs_exist_ok=True)
            rc0, o0 = sh("sh out/" + os.path.basename(mdir) + "/run.sh", cwd=work + "/repo", timeout=900)
            res["demo"] = dict(clean_rc=rc0)
        rc, out = sh(["git", "apply", os.path.join(mdir, "patch.diff")], cwd=work + "/repo")
        if rc != 0:     # the tree moved on since the change was written (hook lines nearby): apply with context fuzz
            rc, out = sh("patch -p1 -F3 --no-backup-if-mismatch < %s" % os.path.join(mdir, "patch.diff"), cwd=work + "/repo")
        if rc != 0:
            res["error"] = "patch does not apply: " + out[-500:]; return res
        rc, out = sh("go build ./... && go vet ./server/ >/dev/null 2>&1; go build ./...", cwd=work + "/repo")
        res["builds"] = rc == 0
        if demo and res["demo"] is not None:
            rc1, o1 = sh("sh out/" + os.path.basename(mdir) + "/run.sh", cwd=work + "/repo", timeout=900)
            res["demo"]["patched_rc"] = rc1
            res["demo"]["patched_tail"] = o1[-600:]
        if "--tests" in sys.argv:
            rc, out = sh("go test -vet=off -count=1 -timeout 20m ./server/ ./protocol/", cwd=work + "/repo", timeout=1500)
            res["unit_tests_pass"] = rc == 0
        for pid in pids:
            t0 = time.time()
            rc, out = sh([sys.executable, work + "/verif/tools/check.py", pid, "--tier", tier], cwd=work + "/verif", timeout=3000,
                         env={"VERIF_REPO": work + "/repo"})
            lines = [l for l in out.splitlines() if l.startswith("VIOLATION") or l.startswith("# ")]
            res["checks"][pid] = dict(rc=rc, seconds=round(time.time() - t0), lines=[l[:300] for l in lines][:12], tail=out[-300:] if rc not in (0, 1) else "")
            # keep the replay files of a detection for the record
            rdir = os.path.join(work, "verif", "replays")
            if rc == 1 and os.path.isdir(rdir):
                keep = os.path.join(mdir, "detected_by_" + pid)
                shutil.rmtree(keep, ignore_errors=True)
                os.makedirs(keep)
                for f in sorted(os.listdir(rdir), key=lambda f: os.path.getsize(os.path.join(rdir, f)))[:2]:     # the two smallest replays
                    shutil.copy(os.path.join(rdir, f), keep)
    finally:
        sh(["git", "-C", "/repo", "worktree", "remove", "--force", work + "/repo"])
        shutil.rmtree(work, ignore_errors=True)
    return res

if __name__ == "__main__":
    r = main()
    print("MUTEVAL " + json.dumps(r))
